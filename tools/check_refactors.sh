#!/bin/sh
# Regression: every kept behaviour-preserving refactoring (refactors/<tag>/patch.diff) must leave
# every quick check silent (rc=0). usage: tools/check_refactors.sh
cd /repo || exit 2
git diff --quiet || { echo "repo dirty"; exit 2; }
fail=0
for d in /verif/refactors/*/; do
  tag=$(basename "$d")
  if ! git apply --check "$d/patch.diff" 2>/dev/null; then echo "$tag: patch no longer applies"; continue; fi
  git apply "$d/patch.diff"
  for p in $(python3 -c "import json;print(' '.join(c['property_id'] for c in json.load(open('/verif/MANIFEST.json'))['checks']))"); do
    out=$(cd /verif && /venv/bin/python -m sa check $p --tier quick 2>&1); rc=$?
    if [ $rc -ne 0 ]; then echo "$tag $p: rc=$rc"; echo "$out" | grep "^  infretis\|ANALYSIS" | head -3; fail=1; fi
  done
  git checkout -- .
  echo "$tag: done"
done
exit $fail
