#!/bin/sh
# usage: process_seed.sh C18 f   - confirm the seed of a sub-agent, run the property's quick check against it
pid="$1"; suf="$2"
wt=/tmp/seed_${pid}${suf}; out=${wt}_out
sh /verif/tools/confirm_seed.sh "$wt" "$out" 2>&1 | grep -v conda
cp "$out/patch.diff" /tmp/seed_${pid}${suf}.patch
( cd "$wt" && git diff > /tmp/seed_${pid}${suf}.patch )
echo "--- check"
sh /verif/tools/try_seed.sh /tmp/seed_${pid}${suf}.patch $pid 2>&1 | grep -v conda
