#!/bin/sh
# usage: try_seed.sh <patch.diff> [PROP ...]   - apply to /repo, run quick checks, revert
patch="$1"; shift
props="$@"
[ -z "$props" ] && props=$(python3 -c "import json;print(' '.join(c['property_id'] for c in json.load(open('/verif/MANIFEST.json'))['checks']))")
cd /repo || exit 2
git diff --quiet || { echo "repo dirty"; exit 2; }
git apply "$patch" || { echo "patch does not apply"; exit 2; }
cd /verif
for p in $props; do
  out=$(/venv/bin/python -m sa check $p --tier quick 2>&1); rc=$?
  echo "== $p rc=$rc"
  echo "$out" | grep -E "^\s+infretis/.*\[R-|VIOLATION|ANALYSIS-ERROR" | cut -c1-260
done
git -C /repo checkout -- .
git -C /repo status --short | grep -v '^??'
