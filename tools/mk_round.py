import json, glob, os, subprocess, sys
suffix = sys.argv[1]
props = sys.argv[2:]
for pid in props:
    used = []
    for d in sorted(glob.glob(f"/verif/seeded/{pid}_*/meta.json")):
        used.append("- " + json.load(open(d))["summary"])
    extra = ("The following ideas have been used already by earlier participants; choose a DIFFERENT kind of change, "
             "at a different site or of a different nature (do not vary these):\n" + "\n".join(used))
    out = subprocess.check_output(["python3", "/verif/tools/seed_task.py", pid, suffix, extra], text=True)
    print(out.strip())
