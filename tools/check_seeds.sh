#!/bin/sh
# Regression: every kept seeded change must (still) be reported by the check of its property.
# usage: check_seeds.sh            (applies each patch to /repo, runs the quick check, reverts)
cd /repo || exit 2
git diff --quiet || { echo "repo dirty"; exit 2; }
fail=0
for d in /verif/seeded/*/; do
  id=$(basename "$d")
  prop=$(python3 -c "import json;print(json.load(open('$d/meta.json'))['property'])")
  if ! git apply --check "$d/patch.diff" 2>/dev/null; then echo "$id: patch no longer applies (rebase it)"; fail=1; continue; fi
  git apply "$d/patch.diff"
  out=$(cd /verif && /venv/bin/python -m sa check $prop --tier quick 2>&1); rc=$?
  rule=$(echo "$out" | grep -oE "\[R-[0-9.]+\]" | sort -u | tr '\n' ' ')
  echo "$id ($prop): rc=$rc $rule"
  [ $rc -eq 1 ] || fail=1
  git checkout -- .
done
git status --short | grep -v '^??'
exit $fail
