#!/bin/sh
# usage: confirm_seed.sh <worktree> <outdir>  - confirm a seeded change independently
wt="$1"; out="$2"
cd "$wt" || exit 2
echo "--- diff stat"; git diff --stat | tail -2
echo "--- test suite WITH the change"
PYTHONPATH="$wt" PATH=/venv/bin:$PATH /venv/bin/python -m pytest -q -p no:cacheprovider --timeout=900 2>&1 | tail -1
git status --short | grep '^??' | awk '{print $2}' | xargs -r rm -rf
cd /tmp
PYTHONPATH="$wt" timeout 900 /venv/bin/python "$out/demo.py" > /tmp/confirm_with_$$.txt 2>&1; echo "--- demo WITH change: rc=$?  $(tail -1 /tmp/confirm_with_$$.txt | cut -c1-150)"
cd "$wt" && git diff > /tmp/confirm_$$.patch && git checkout -- .
cd /tmp
PYTHONPATH="$wt" timeout 900 /venv/bin/python "$out/demo.py" > /tmp/confirm_orig_$$.txt 2>&1; echo "--- demo on ORIGINAL: rc=$?  $(tail -1 /tmp/confirm_orig_$$.txt | cut -c1-150)"
cd "$wt" && git apply /tmp/confirm_$$.patch && rm -f /tmp/confirm_$$.patch && git status --short | head -3
rm -f /tmp/confirm_with_$$.txt /tmp/confirm_orig_$$.txt
