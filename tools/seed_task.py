#!/usr/bin/env python3
"""Prepare a scratch worktree and a TASK.md for a seeding sub-agent.

usage: seed_task.py C09 b   -> worktree /tmp/seed_C09b, output dir /tmp/seed_C09b_out
The TASK.md contains only the property text and generic instructions -
nothing from /verif's checks.
"""
import json
import os
import subprocess
import sys

HINTS = {
    "C02": "infretis/classes/repex.py (REPEX_state.prob and its _last_prob memo, inf_retis, find_blocks, quick_prob, permanent_prob, fast_glynn_perm, random_prob; the methods that change state/_locks/_trajs: add_traj, lock, unlock, swap, sort_trajstate, pick, pick_traj_ens)",
    "C10": "infretis/core/tis.py (wirefence_weight_and_pick, compute_weight, calc_cv_vector, high_acc_swap, wire_fencing, subt_acceptance), infretis/classes/repex.py (initiate_ensembles, load_paths: how the weight vector is used)",
    "C03": "infretis/classes/repex.py (REPEX_state: pick, pick_lock, pick_traj_ens, lock/unlock, add_traj, treat_output, prep_md_items, sort_trajstate, locked_paths), infretis/classes/engines/factory.py (assign_engines), infretis/scheduler.py",
    "C04": "infretis/classes/repex.py (REPEX_state.treat_output 'record weights' part, traj_data[...]['frac'], write_to_pathens, write_toml, load_paths), infretis/setup.py",
    "C05": "infretis/classes/repex.py (treat_output path numbering with traj_num, sort_trajstate, prob/inf_retis), infretis/setup.py (initial current.traj_num)",
    "C06": "infretis/classes/repex.py (write_toml, set_rgen, __init__, load_paths, treat_output, write_to_pathens), infretis/setup.py (setup_config restart branch, write_header), infretis/classes/path.py (load_paths_from_disk), infretis/classes/formatter.py, infretis/scheduler.py",
    "C07": "infretis/classes/repex.py (spawn_rng, __init__, set_rgen, pick, pick_lock, prep_md_items), infretis/core/tis.py, infretis/classes/path.py (get_shooting_point), infretis/classes/engines/*.py",
    "C08": "infretis/classes/repex.py (treat_output, write_toml, pick_lock, delete_old logic), infretis/classes/formatter.py (PathStorage), infretis/setup.py (setup_config), infretis/classes/path.py (load_path)",
    "C09": "infretis/core/tis.py (shoot, wire_fencing, extender, subt_acceptance, shoot_backwards, check_kick, prepare_shooting_point, retis_swap_zero, quantis_swap_zero, select_shoot, run_md), infretis/classes/path.py (get_shooting_point, check_interfaces, get_start_point, get_end_point), infretis/classes/engines/enginebase.py (add_to_path, propagate)",
    "C11": "infretis/core/tis.py (retis_swap_zero, quantis_swap_zero, high_acc_swap), infretis/classes/repex.py (pick: when a zero swap is started)",
    "C12": "infretis/classes/engines/enginebase.py and the _propagate_from methods of gromacs.py, cp2k.py, lammps.py, ase_engine.py, turtlemdengine.py; engineparts.py readers",
    "C13": "infretis/classes/engines/engineparts.py (ReadAndProcessOnTheFly, xyz_reader, lammpstrj_reader), infretis/classes/engines/gromacs.py (GromacsRunner.get_gromacs_frames and the TRR helpers)",
    "C14": "infretis/classes/formatter.py (PathExtFormatter, OrderPathFormatter, EnergyPathFormatter, PathStorage.output/_move_path/_generate_file_names), infretis/classes/path.py (load_path, _load_energies_for_path), infretis/classes/repex.py (delete_old logic in treat_output)",
    "C15": "infretis/classes/path.py (Path.copy, reverse, reverse_velocities, __iadd__, append, paste_paths, check_interfaces, get_start_point, get_end_point), infretis/classes/system.py",
    "C16": "modify_velocities in infretis/classes/engines/{cp2k,lammps,gromacs,ase_engine,turtlemdengine}.py, enginebase.py (draw_maxwellian_velocities, dump_frame), cp2k.py (kinetic_energy, reset_momentum), infretis/core/tis.py (prepare_shooting_point)",
    "C17": "infretis/asyncrunner.py (aiorunner, future_list, _task_wrapper), infretis/scheduler.py, infretis/classes/repex.py (initiate, loop), infretis/setup.py (setup_config)",
    "C18": "infretis/setup.py (setup_config, check_config), infretis/classes/repex.py (initiate_ensembles, load_paths)",
    "C19": "infretis/classes/engines/gromacs.py (read/write_gromos96_file, TRR readers, _modify_input via enginebase), cp2k.py (read_cp2k_input, update_cp2k_input, ...), lammps.py (read/write_lammpstrj, write_for_run), engineparts.py (read_xyz_file, write_xyz_trajectory, convert_snapshot)",
    "C20": "infretis/classes/orderparameter.py (Distance, Distancevel, Position, Velocity, Dihedral, Puckering, pbc_dist_coordinate), infretis/classes/engines/enginebase.py (calculate_order)",
}

TEMPLATE = """# Task: seed one realistic, subtle bug that breaks a stated property

You are helping to evaluate a verification tool by producing a realistic, subtle BUG (a "seeded change") in a Python library.
Work ONLY inside your own scratch git worktree `{wt}` (a checkout of the library `infretis`: replica-exchange transition interface sampling driving MD engines) and write your deliverables to `{out}/`.
Do NOT read or touch `/repo` or `/verif` (the directory /verif must not be opened at all), and do not look at other `/tmp/seed_*` directories.
IMPORTANT: never use `git stash` (the stash is shared between all worktrees of this repository and other agents work concurrently). To test the original code, save your diff (`git -C {wt} diff > {out}/patch.diff`), run `git -C {wt} checkout -- .`, test, and re-apply with `git -C {wt} apply {out}/patch.diff`.

## The behavioural property your change must BREAK

{pid}: {title}

{statement}

Quantified over: {quant}

Main code: {hints}

## Requirements for the change

1. It is a small source change to files under `{wt}/infretis/` (typically 1-15 lines) of the kind a developer could plausibly make by mistake: a refactoring slip, a wrong condition or comparator, a missing/misplaced call, an off-by-one, a "harmless" caching or hoisting, a unit/index/column mix-up, two sites that each look fine alone.
2. The code still imports/compiles and the EXISTING test suite still passes with it. Run it from the worktree like this (takes ~45 s): `cd {wt} && PYTHONPATH={wt} PATH=/venv/bin:$PATH /venv/bin/python -m pytest -q -p no:cacheprovider --timeout=900 -x` (77 tests; all must pass; one end-to-end test compares restart.toml and infretis_data.txt byte-for-byte with stored reference files for seed 0 / one worker). Always set PYTHONPATH={wt} so that your modified copy is the one imported (an editable install of another copy exists). The test run may leave `infretis_data*.txt` / `worker*.log` files in the worktree root: delete such untracked files before taking the diff.
3. It must NOT be exposed at once by ordinary use: it should need something specific to manifest - a particular interleaving or completion order of workers, a crash or fault at a particular point, a restart, a multi-step sequence of operations, an unusual but legal input/configuration, a particular engine class, or two cooperating sites that each look fine alone.
4. You must provide a DEMONSTRATION: a small standalone Python program `{out}/demo.py`, run as `cd /tmp && PYTHONPATH=<tree> /venv/bin/python {out}/demo.py` where <tree> is the checkout to test, that prints PASS and exits 0 on the ORIGINAL code and prints FAIL and exits non-zero with your change, deterministically. It must exercise the real library code (import it), not a copy of it, and must clean up temp directories it creates.

## Hints

- Outside pytest you must `import importlib.util` before importing infretis modules (a quirk of factory.py).
- No external MD programs (gmx, cp2k, lmp) are installed. TurtleMD and ASE run in-process: `examples/turtlemd/double_well` (+ `test/simulations/data/wf.toml`) and `examples/ase/H2` (see test/engines/test_ase_engine.py). LAMMPS/CP2K engines can be pointed at a stub executable (`LAMMPSEngine("/venv/bin/python /path/stub.py", <input dir>, timestep, subcycles, temperature, exe_path=..., sleep=0.2)`); GROMACS can be exercised by monkeypatching `infretis.classes.engines.gromacs.GromacsRunner` with a stub context manager yielding frame dicts with keys "x", "v", "box".
- A scheduler can be hand-driven without the async runner: `from infretis.setup import setup_config, setup_internal`; `config = setup_config("infretis.toml")` (or "restart.toml"; returns None if it refuses); `md_items, state = setup_internal(config)`; `while state.initiate(): job = state.prep_md_items(copy.deepcopy(md_items))` starts one job per worker; `from infretis.core.tis import run_md`; `state.loop()` then `state.treat_output(run_md(job))` completes a job; then `state.prep_md_items(job)` picks the next one. Use a fresh temp dir containing `load` (copy of `examples/turtlemd/double_well/load_copy`), `orderp.py` and `infretis.toml` (from `test/simulations/data/wf.toml`, adjusted with tomli/tomli_w: workers, steps, seed, `output.screen = 0`, `output.pattern = 0`, ...).
- If you fork worker processes, never pipe their stdout.

## Deliverables in `{out}/`

- `patch.diff`: output of `git -C {wt} diff` (only files under infretis/).
- `demo.py`: as above.
- `notes.md`: what the change is, why it breaks the property, what it needs in order to manifest, and the exact commands you ran with their outcomes (test suite with the change: pass; demo on the original: PASS; demo with the change: FAIL).

Leave the change applied (uncommitted) in the worktree when you finish. Keep total effort reasonable (aim for under ~45 minutes). In your final message give a 5-line summary.
{extra}
"""


def main():
    pid, suffix = sys.argv[1], (sys.argv[2] if len(sys.argv) > 2 else "b")
    extra = sys.argv[3] if len(sys.argv) > 3 else ""
    props = {json.loads(l)["id"]: json.loads(l) for l in open("/verif/properties.jsonl")}
    p = props[pid]
    wt = f"/tmp/seed_{pid}{suffix}"
    out = f"{wt}_out"
    subprocess.check_call(["git", "-C", "/repo", "worktree", "add", "-q", "--detach", wt, "HEAD"])
    os.makedirs(out, exist_ok=True)
    text = TEMPLATE.format(wt=wt, out=out, pid=pid, title=p["title"], statement=p["statement"],
                           quant=p["quantifier"]["text"], hints=HINTS.get(pid, ", ".join(p["anchors"]["files"])),
                           extra=("\n## Additional note\n\n" + extra) if extra else "")
    open(os.path.join(out, "TASK.md"), "w").write(text)
    print(out + "/TASK.md")


if __name__ == "__main__":
    main()
