import sys; sys.path.insert(0,'/verif')
import ast
from sa.loader import Tree
from sa.__main__ import analyse, rules_module
from sa.loader import AnalysisError

def rename_locals(src):
    tree = ast.parse(src)
    class R(ast.NodeTransformer):
        pass
    def process(fn):
        params = {a.arg for a in fn.args.posonlyargs + fn.args.args + fn.args.kwonlyargs}
        if fn.args.vararg: params.add(fn.args.vararg.arg)
        if fn.args.kwarg: params.add(fn.args.kwarg.arg)
        glob = set()
        local = set()
        nested_params = set()
        for n in ast.walk(fn):
            if isinstance(n, (ast.Global, ast.Nonlocal)): glob |= set(n.names)
            if isinstance(n, ast.Name) and isinstance(n.ctx, (ast.Store, ast.Del)): local.add(n.id)
            if isinstance(n, (ast.FunctionDef, ast.AsyncFunctionDef, ast.Lambda)) and n is not fn:
                a = n.args
                nested_params |= {x.arg for x in a.posonlyargs + a.args + a.kwonlyargs}
            if isinstance(n, ast.ExceptHandler) and n.name: pass
        local -= params | glob | nested_params | {"self", "cls", "_"}
        # do not rename names that are module-level imported/defined (shadowing is fine, keep simple)
        for n in ast.walk(fn):
            if isinstance(n, ast.Name) and n.id in local:
                n.id = n.id + "_r"
    for node in ast.walk(tree):
        if isinstance(node, ast.ClassDef):
            for st in node.body:
                if isinstance(st, (ast.FunctionDef, ast.AsyncFunctionDef)): process(st)
    for st in tree.body:
        if isinstance(st, (ast.FunctionDef, ast.AsyncFunctionDef)): process(st)
    out = ast.unparse(tree) + "\n"
    compile(out, "x", "exec")
    return out

base = Tree('/repo')
ov = {rel: rename_locals(m.src) for rel, m in base.modules.items()}
if len(sys.argv) == 1:
  for p in "C03 C04 C05 C06 C07 C08 C09 C11 C12 C13 C14 C15 C16 C17 C18 C19 C20".split():
      try:
          b = analyse(p, '/repo'); bk = {f.key for f in b.findings}
      except AnalysisError as e:
          print(p, "BASE ERR", e); continue
      try:
          c = analyse(p, '/repo', ov)
          nk = sorted({f.key for f in c.findings} - bk)
          # keys contain construct text; compare by rule + function only
          bk2 = {(f.rule, f.func) for f in b.findings}
          nk2 = sorted({(f.rule, f.func) for f in c.findings} - bk2)
          print(p, "new findings:", nk2[:6], "problems:", [x[:100] for x in getattr(c,'problems',[])][:4])
      except AnalysisError as e:
          print(p, "ANALYSIS-ERROR:", str(e)[:300])
      except Exception as e:
          print(p, "CRASH", repr(e)[:200])

def show(p):
    b = analyse(p, '/repo'); bk = {(f.rule, f.func) for f in b.findings}
    try:
        c = analyse(p, '/repo', ov)
    except AnalysisError as e:
        print("ERR", e); return
    for f in c.findings:
        if (f.rule, f.func) not in bk:
            print(f.rule, f.rel, f.line, f.func, "::", f.message[:300]); print("    construct:", f.construct[:200])
    for x in getattr(c, 'problems', []): print("PROBLEM", x[:300])
if len(sys.argv) > 1:
    print("=====", sys.argv[1]); show(sys.argv[1])
