#!/usr/bin/env python3
"""Record the sha256 of every module of /repo/infretis: the tree the single-edit variants
(positive controls) are written for. Run after every change of /repo that /verif follows."""
import glob, hashlib, json, os
out = {}
for p in sorted(glob.glob("/repo/infretis/**/*.py", recursive=True)):
    out[os.path.relpath(p, "/repo")] = hashlib.sha256(open(p, "rb").read()).hexdigest()
json.dump(out, open("/verif/calibration.json", "w"), indent=1, sort_keys=True)
print(len(out), "modules")
