#!/bin/sh
# usage: keep_seed.sh C18 f <missed 0|1> "<summary>" "<needs>" "<caught_by>"  - file the confirmed seed and remove its worktree
pid="$1"; suf="$2"; missed="$3"; summary="$4"; needs="$5"; caught="$6"
wt=/tmp/seed_${pid}${suf}; out=${wt}_out; d=/verif/seeded/${pid}_${suf}
mkdir -p "$d"
cp /tmp/seed_${pid}${suf}.patch "$d/patch.diff"
cp "$out/demo.py" "$d/demo.py"; cp "$out/notes.md" "$d/notes.md" 2>/dev/null
python3 /verif/tools/write_meta.py "${pid}_${suf}" "$pid" "$missed" "$summary" "$needs" "$caught"
git -C /repo worktree remove --force "$wt"; rm -rf "$out" /tmp/seed_${pid}${suf}.patch
