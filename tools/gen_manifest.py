#!/usr/bin/env python3
"""Regenerate /verif/MANIFEST.json from the rule modules that exist."""
import importlib
import json
import os
import sys

HERE = os.path.dirname(os.path.abspath(__file__))
VERIF = os.path.dirname(HERE)
sys.path.insert(0, VERIF)

PY = "/venv/bin/python"

NA = {
    "C01": "statistical convergence of estimators over all histories; no sound static bound on sampled values (see DESIGN.md section 3, C01)",
}

TEXT = {
    "C02": ("the plumbing around the numeric kernels: typestate analysis (NONE / OK / STALE) of the memoised P matrix over the CFG of every method of REPEX_state with callee summaries (no read of a matrix computed for an earlier weight matrix or busy set, no stale exit of an externally called method, only the getter stores), provenance of the getter's arguments, one busy mask for both axes with zero re-insertion at positions counted from the same mask, the row sort undone through the index that sorted, read window = write window for every kernel call, shape of the permanent formula in permanent_prob (entry, minor, skip condition, per-row rescaling on a copy), index units of the idle block (reduced vs full minus count), quick_prob touching its argument only through shape and zero pattern, sample counting of the Monte-Carlo estimate (initial identity + one matrix per iteration = divisor), exact/sampled dispatch threshold taken on the evaluated block, index guard of the only-[0-]-idle block, non-negative probability budget of the fast kernel (CFG path query), no value derived from the arrangement hoisted above the sweep that mutates it, staircase sort keys read the idle block through its zero pattern only, no integer cast / rounding of weights anywhere in the permanent pipeline, per-path constancy gate in front of the zero-pattern kernel",
            "does not decide that fast_glynn_perm computes the permanent, that quick_prob is the closed form for 0/1 staircases, that find_blocks finds the blocks, random_prob, nor double stochasticity as a numeric fact"),
    "C10": ("exact finite abstraction of the wire-fencing scan (order parameters touched only through comparisons with the two bounds: 5 regions), abstract interpretation of the loop body over bool / region / affine-integer values giving the implementation's transducer, product with the transducer written from the property text explored to a fixpoint (equal emissions as affine forms at every reachable product state; witness word on a mismatch), shape of the proportional selection law and of the segment layout, weight-vector plumbing of calc_cv_vector / compute_weight, sibling agreement of the (left, right) pair across the three call chains and of the move/interface index shift, interface roles of the zero-swap weight chain, hoisted per-frame reads of the progress coordinate interpreted / flattened order vectors reported, every weight-vector entry computed inside the interface loop, same configuration keys at every call site of calc_cv_vector",
            "does not decide the numeric value of the high-acceptance swap ratio, nor that left < right at run time (assumed; enforced for wf ensembles by check_config)"),
    "C03": ("lock/ownership discipline on AST+CFG: who-may-write busy flags, checked acquire/release by dominance, acquire-on-all-paths before a job is recorded, zero-swap partner only when idle (case split over contradictory disjuncts), engine claim under a free test on the same slot, one claim call per job, private worker directory provenance, path-number representation (int vs str) inference, whole busy set consulted, no stale loop variables, one engine object per bookable slot (no list replication), partner acquired before the job is recorded, ensemble-index units of the in-flight record, acquires only where the job is recorded (who-may-call), P rows attributed to their paths, memoised P invalidated by every slot permutation, in-flight record paired position by position, path-number counter stored back before the commit (no live number reused after a crash), busy-set accessors return materialised collections, finished job removed by exact membership (pop or rebuild form)",
            "does not decide non-zero weight of the picked path nor the global interleaving invariant as such"),
    "C04": ("accumulator typestate: who-may-write ['frac'], accumulate only under the idle guard after the new path is inserted and before the commit (effect analysis of write_toml), archive exactly once under status ACC with removal from the live table, restart key-set agreement, a restart keeps the persisted data file (configuration provenance), per-step file writes durable before the commit, path numbers never tested by truthiness, P-matrix cache typestate under the recorded weights, busy set covers every path of every in-flight job, busy exactly while a recorded job holds the ensemble, replacement only under the move's acceptance, accumulation loop on every normal path of a completed step",
            "does not decide one unit per idle column (double stochasticity of P)"),
    "C05": ("path-number counter discipline, re-sort dominates the commit and nothing serialised changes after it, the re-sort and the recording consult the whole busy set in one representation, ensemble-index units, bound guard of the only-[0-]-idle case by linear arithmetic, progress of the re-sort by symbolic evaluation of the partner column over the staircase weight row, normalisation of the Monte-Carlo P matrix by linear counting, no P evaluation reachable after the acquire store, memoised P invalidated by every slot permutation (typestate), non-negative probability budget of the fast kernel, accepted paths carry non-zero own weight (weight plumbing), engines released over the whole occupation table, P rows scattered back to their paths (no zero-weight pick), restart file complete when renamed, zero-swap partner tested idle on its own flag",
            "does not decide existence of a perfect matching in general, termination of sort_trajstate, finiteness of P"),
    "C06": ("writer/reader key and role agreement for restart.toml and the path files, determinism taint analysis, per-instance mutable state, commit is final, configuration keys under one section path, the weight function called with the same configuration origins at run time and at load, a restart does not rewrite persisted settings, tables emitted from per-run dictionaries in sorted order, no branch on the restart tag of reloaded paths, every step committed, every in-process draw fed from a persisted job stream, live paths never modified by moves (copies to engine sinks), restored spawn counter agrees with the re-issue (no double count), double precision of what is read back, restart file complete when it takes the final name",
            "does not decide byte identity of files nor floating-point equality across a split"),
    "C07": ("stream provenance and randomness effect analysis: seed provenance of every generator construction, spawn-tree shape of stream keys, one-shot restore of the scheduler stream's state only (generator object never replaced per job), spawn counter = job ordinal (who-may-spawn), every draw and stochastic third-party entry point fed from the job stream at call time, streams never parked in instance state, spawn counter as a linear form in completed steps and in-flight jobs (sign of the in-flight coefficient), case-normalised selectors never tested raw (contradiction rule), restored spawn counter agrees with the re-issue, no child from a copied generator, no collapsing operation between draw and seed, seed sequence rebuilt in the constructor for every restart (guard facts)",
            "does not decide statistical independence of NumPy SeedSequence children"),
    "C08": ("effect-order analysis of the commit protocol on the CFG: store before commit, atomic replace of restart.toml (closed before the rename), every maintained [current] key stored on every path to the dump, writes durable before the commit, deletion operands only from the retirement FIFO under lag and initial-path guards, restart refuses an incomplete tree, idempotence/reconciliation of pre-commit effects, every issuer records its job in one index unit, commit is final, every normal path through the step commits, restart file written only from a re-sorted slot order (CFG path query), in-flight record paired position by position with the job's ensembles, delete queue filled only for replaced paths (dominance), one representation of in-flight path numbers, every ensemble of a re-issued job acquired, no effect of write_toml takes the restart file away from its final name, no commit in the start-up phase while saved jobs wait to be re-issued (call-graph closure), re-sort condition recomputed from the weight matrix after every swap (CFG path query)",
            "does not decide file-system semantics nor contents of half-written MD trajectory files"),
    "C09": ("relational return summaries flag<=>status 'ACC', replace-only-on-ACC guards, copy-before-mutate provenance of frames reaching engine sinks, interval arithmetic for the shooting index, comparator-convention table, linear arithmetic on symbolic lengths (truncated extension rejected, Metropolis length budget), extension guards use the ensemble's own interfaces, no dead verdict (liveness), positional role agreement, no stale loop variables, acceptance gates of the shooting move as must-pass-through facts (kick, backward side, forward success, left touch, middle crossing), weight entries with the inclusive crossing convention, no branch on the restart tag, a rejection never returns the input path's stale status (path query over re-bindings and status stores), high-acceptance swap weights pair interfaces and move of one ensemble (monomial ratio), configuration reaches calc_cv_vector unmodified at run_md, decisions on component 0 of the order parameter, frame 0 of an in-process propagation is the starting phase point for every subcycles (storing test on the bare counter), direction flag stored before the propagation",
            "does not decide ensemble membership of accepted paths in general"),
    "C11": ("never-between query (early 0-L rejection on the end component precedes any engine call), frame-role provenance of the crossing frames per engine level, beta/energy pairing and shape of the QuanTIS rule min(1, exp(b0 dV0 - b1 dV1)) with the job-stream draw, energies built alike in every engine, velocity reversal negates exactly the velocities, flag/status and only-when-idle (shared), budget arithmetic of the QuanTIS propagations (prefix + budget - shared frame vs the tested limit), energy column roles of reloaded paths, per-ensemble engine table from the ensemble's own configuration entry, process-wide uniqueness of trajectory file names, frame index 0 is a frame, full step budget of every engine, one energy entry per stored frame in the in-process engines (guard-set agreement of the appends with add_to_path), all four high-acceptance weights computed from the paths at hand, [new, old] provenance of the paths at the zero-swap call site",
            "does not decide junction identity of frame contents at run time nor reversibility of the dynamics"),
    "C12": ("sibling cross-check of the per-frame propagation protocol over every _propagate_from (stop rule, frame counter, same-iteration data, FIFO queues), external process life cycle incl. sign-domain evaluation of return-code tests, single velocity flip, poll loops (abstract interpretation of the final read), buffer ownership, TRR size guards, positional role agreement, frame-index truthiness, no stale loop variables, calculate_order's all-or-nothing None contract (path-sensitive), reader results carried over between polls, step budget in monomial form, calculator results redefined in every iteration that writes them, strictness of the shared stop rule (guard facts), left-over GROMACS output removed before mdrun (dominance), process-group stop of session leaders, completeness guards of the text readers (shared), storing test of the in-process engines on the bare item counter, energy appends under the storing test, direction flag stored on the system before _propagate_from (dominance), velocity negation applied to the velocities finally used, box element order of the flattened matrix",
            "does not decide dynamics, external program semantics, numeric equality of orders"),
    "C13": ("completeness-guard dominance for every parse site of the text readers, position commit discipline, line-index alignment, TRR size guards with fresh file size and exact byte accounting, header-size bound from struct formats, first-iteration exploration of the block size, buffer ownership, data size of the TRR guard recomputed for every header read, seek discipline of the polling reader, TRR byte-order switch on branch facts, no resume from inside a frame (CFG path query), line completeness by the writer's layout (box line column counts)",
            "does not decide value-exact parsing"),
    "C14": ("writer/reader layout agreement for traj.txt/order.txt/energy.txt (column roles, -1 convention, sub-directory name), files written from scratch, numeric defaults by `is None`, deletion provenance (shared with C08), own-directory references, no stale loop variables, load_path adds frames by an operation that cannot refuse, per-iteration data not taken from an earlier iteration, one row per frame in every path formatter, key agreement of the moved-file table, delete queue per scheduler instance, row fields separated by construction, stateless row formatting, every step that can delete is committed",
            "does not decide numeric round trip to six decimals nor existence of files at run time"),
    "C15": ("no-aliasing rule for Path.copy/reverse/__iadd__ and System.copy, per-frame toggle of the velocity flag (involution), structure of paste_paths (reversed backward segment, one-shot skip iff overlap, unconditional appends, append limit comparator), crossing test vs start/end classifiers on equality, interface options by `is None`, slice form of paste_paths by linear arithmetic with a case split on overlap, extremes recomputed or memoised with invalidation at every frame-list mutation, extreme taken over the reported quantity (comprehension element vs returned value), velocity flip on every returning path of reverse, default paste limit from the segments' limits, copies filled under the source path's own limit (constructor argument or dominating store), paste over local frame lists decided from reaching definitions",
            "does not decide classification vs extreme values beyond the equality convention"),
    "C16": ("write-what-you-read provenance in every modify_velocities, fresh output file, momentum reset position, kinetic energy computed after the last velocity mutation, draws from the job stream at call time, positional role agreement, frame-index truthiness, variance clause by monomial algebra (sigma^2*beta*m = 1, beta*kB*T = 1), Boltzmann-constant table per engine unit, only the engine's unit factor between draw and writer, record (dict-shape) agreement of the ensemble dictionary, in-place behaviour of reset_momentum read from its source, old and new kinetic energy computed by the same expression, mass factor inside the momentum reduction, dtype-preserving reciprocal of integer masses, parameter-dependent re-used input files live in the per-job directory, settings table only read, positional flag literals of the writers, positions and box written come from one read of the dumped frame by a reader that does not post-process coordinates, box element order of the flattened matrix, label fix-up of a velocity-less GROMACS frame under an emptiness test (producer key set vs consumer membership test)",
            "does not decide the mass tables nor Gaussianity of NumPy's normal()"),
    "C17": ("typestate of futures in the task runner (completed exactly once, task_done exactly once), delivery once, stop guards compare the step counter with the target, in-flight record emptied and persisted on every path, step arithmetic of initiate/loop/submission guard by linear counting over (c0, steps, workers), submission guard in general linear form, shutdown order of the runner (stop event only after the queue is drained), commit on every normal path of treat_output, unbounded work queue under awaited put from a throw-away loop, exception delivery precedes anything that can raise, unbounded wait for the worker tasks, per-unit outcome state (CFG path query), no commit reachable between the advance of the step counter and the consumption of that step's result (CFG reachability in REPEX_state and in the main loop, committing methods by fixpoint), refusal test of initiate() as a half-space over (cstep, tsteps, workers, toinitiate), in-flight record per scheduler instance",
            "does not model interleavings of worker coroutines"),
    "C18": ("validation coverage table extracted from check_config's raise guards (normalised comparisons), must-validate-before-use by dominance, idempotent-by-shape normalisation on the restart path (configuration provenance), configuration keys under one section path, no stale loop variables, iteration-space completeness of the engine-defined clause, configuration reaches calc_cv_vector whole at every call site, restart refused when any live path is missing on disk, no equal-length demand beyond check_config, every element access of the interface / move lists inside check_config dominated by the clause rejecting a list too short for it (linear index bounds), engine sections looked up only for validated names",
            "does not decide that every accepted configuration initialises"),
    "C19": ("writer/reader layout agreement: g96 field widths, xyz field counts/column order/header token, lammpstrj header/column constants across four functions, TRR header/data-item tables, box element order by constant folding, reverse-velocity siblings, frame k is frame k (selectors, strides, TRR counter), regex syntax-tree agreement of the template editor/reader, buffer ownership, positional role agreement, frame addressed by a computed offset, locality of CP2K section editing (one line out per line in, plain copy), requested template entries recognised by membership, positional bool literals land on flag parameters (signature table), lammpstrj box block read whole, TRR byte-order switch, dtype form of the data decoders, whole-word placeholder substitution on the template line, case-normalised CP2K keywords, fixed-column g96 records never tokenised by blanks when the writer's float fields are adjacent, TRR data blocks unrolled over the constant key tables: decoder per block",
            "does not decide round-trip equality of values"),
    "C20": ("purity of OrderParameter.calculate under NumPy view/copy semantics, box-form normalisation and raw differences before the wrap, velocity dependence declared and the flip reaching the call, image-shift invariance of the minimum-image helper by symbolic algebra (rounding equivariance; asymptotic-slope refutation), translation/rotation invariance of distance, distance rate, dihedral and puckering by abstract interpretation over geometric types, box lengths followed through helper functions and methods (every return derives from the box of the system given now), per-axis guard of the wrap formula (open axes with infinite length), velocity flip guarded by None tests only, box lengths along the component axis (shape provenance), centroid by axis-0 mean, truncating remainder (fmod) reported / floored remainder translated to its floor form, no whole-vector pre-test in front of the wrap",
            "does not decide the half-box bound numerically nor rotation invariance of periodic variants while a wrap is active"),
}


def main():
    props = [json.loads(l) for l in open(os.path.join(VERIF, "properties.jsonl"))]
    ids = [p["id"] for p in props]
    checks = []
    na = []
    for pid in ids:
        if pid in NA:
            na.append({"property_id": pid, "reason": NA[pid]})
            continue
        modpath = os.path.join(VERIF, "sa", "rules", pid.lower() + ".py")
        if not os.path.exists(modpath):
            na.append({"property_id": pid, "reason": "static check planned in DESIGN.md but not built yet in this session; not claimed until its rules exist and pass their self-test"})
            continue
        tech, notdec = TEXT[pid]
        checks.append({
            "property_id": pid,
            "quick_cmd": f"{PY} -m sa check {pid} --tier quick",
            "thorough_cmd": f"{PY} -m sa check {pid} --tier thorough",
            "evidence_file": f"/verif/evidence/{pid}.json",
            "replay_cmd_template": f"{PY} -m sa replay {{path}}",
            "engine": "sa",
            "level_claimed": {
                "category": "other",
                "text": ("Static analysis (no execution): exact, repository-specific structural rules, each a necessary "
                         "condition of the property, evaluated on /repo's current source for every path / call site / "
                         "sibling implementation. Decides: " + tech + ". It " + notdec + "; those clauses are stated as "
                         "not decided in DESIGN.md. A for-all-paths structural verdict is the right level here because "
                         "the property quantifies over inputs/schedules/crash points that tests only sample, while "
                         "these clauses are visible in the shape of the code."),
                "design_ref": (f"DESIGN.md section 10, {pid}" if pid in ("C02", "C10") else f"DESIGN.md section 3, {pid}"),
            },
            "level_note": ("Trusted base: CPython ast, the checker's own CFG/dominator/reaching-definition engine "
                           "(self-tested on every run by positive controls; thorough tier runs breaking and preserving "
                           "single-edit variants), the reasoned effect/anchor tables in sa/rules, third-party library "
                           "semantics as read in the installed sources. Python dynamism (reflection, monkey patching, "
                           "plug-in engines/order parameters outside the repository) is outside the claim."),
            "technique": "static analysis: " + tech,
        })
    man = {
        "version": 1,
        "setup_cmd": "true",
        "hooks": {
            "guard": "INFRETIS_VERIF",
            "enable": "no hooks: the checks parse /repo's sources and never execute them; nothing to enable",
            "baseline_off_cmd": "cd /repo && PATH=/venv/bin:$PATH /venv/bin/python -m pytest -ra -q -p no:cacheprovider --timeout=900 --continue-on-collection-errors",
            "source_commits": [],
            "add_only": True,
        },
        "engines": [{
            "name": "sa",
            "path": "/verif/sa",
            "serves_properties": [c["property_id"] for c in checks],
            "kind_free_text": "stdlib-only Python static analyser: ast loader/index, statement-level CFG with branch facts and exception edges, dominators/post-dominators, reaching definitions over access paths, provenance and taint queries, sibling cross-checks, writer/reader table agreement; findings keyed by rule+construct; in-memory single-edit variants as self-test",
        }],
        "checks": checks,
        "not_applicable": na,
        "notes": "All checks are static (family: static analysis). Exit 0 holds / 1 VIOLATION / 2 ANALYSIS-ERROR (cannot decide). Known findings: /verif/known_findings.json. Genuine defects repaired in /repo by 'fix:' commits are listed there under 'fixed'.",
    }
    with open(os.path.join(VERIF, "MANIFEST.json"), "w") as fh:
        json.dump(man, fh, indent=1)
    print(f"{len(checks)} checks, {len(na)} not applicable")


if __name__ == "__main__":
    main()
