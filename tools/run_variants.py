"""dev helper: python tools/run_variants.py C17 substr [substr ...] - run the named self-test variants only."""
import sys
sys.path.insert(0, "/verif")
from sa.__main__ import analyse, rules_module, _run_variant

prop, subs = sys.argv[1], sys.argv[2:]
import os
root = os.environ.get("VERIF_ROOT", "/repo")
base = {f.key for f in analyse(prop, root).findings}
for v in getattr(rules_module(prop), "VARIANTS", []):
    if any(s in v.name for s in subs):
        r = _run_variant((prop, root, v, base))
        print(r[0], r[1], r[2], str(r[3])[:300])
