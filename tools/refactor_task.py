#!/usr/bin/env python3
"""Prepare a scratch worktree and a TASK.md for a sub-agent that makes a behaviour-PRESERVING
refactoring (used to look for false alarms of the checks).
usage: refactor_task.py <tag> "<files / functions to refactor>"
"""
import os, subprocess, sys
tag, scope = sys.argv[1], sys.argv[2]
style = sys.argv[3] if len(sys.argv) > 3 else ""
wt = f"/tmp/refac_{tag}"; out = f"/tmp/refac_{tag}_out"
subprocess.run(["git", "-C", "/repo", "worktree", "add", "--detach", wt, "HEAD"], check=True, capture_output=True)
os.makedirs(out, exist_ok=True)
open(f"{out}/TASK.md", "w").write(f"""# Task: a realistic, behaviour-preserving refactoring

Work ONLY inside your own scratch git worktree `{wt}` (a checkout of the Python library `infretis`) and write your deliverables to `{out}/`.
Do NOT read or touch `/repo` or `/verif`, and never use `git stash`.

Refactor the following code the way a careful maintainer would in a clean-up pull request, WITHOUT changing its behaviour in any way (same results, same files written, same exceptions, same order of side effects, same random numbers drawn):

{scope}

Make a substantial number of edits (aim for 15-40 changed lines spread over the functions named above), using a mix of: renaming local variables (not parameters, attributes, dict keys or functions), extracting a sub-expression into a well-named local, inlining a single-use local, rewriting a loop as a comprehension or vice versa where it is exactly equivalent, flipping a comparison (`a < b` -> `b > a`), inverting an if/else (`if not c: B else: A`), early returns / guard clauses, de Morgan, `x is not None` idioms that are already exact, passing an argument by keyword instead of by position (or the reverse), adding or rewording log messages and comments, splitting a long statement, hoisting a repeated pure expression (only if it is evaluated the same number of times where that matters, e.g. not for random draws or file operations).
{style}
Do NOT change any public name, signature, file format, default value, constant, comparison strictness, order of calls that have side effects, or what is logged at warning level or above. Do not "fix" anything you believe is a bug.

The code must still import and the existing test suite must pass: `cd {wt} && PYTHONPATH={wt} PATH=/venv/bin:$PATH /venv/bin/python -m pytest -q -p no:cacheprovider --timeout=900 -x` (77 tests, ~45 s; delete untracked `infretis_data*.txt` / `worker*.log` leftovers afterwards).

Deliverables in `{out}/`: `patch.diff` (output of `git -C {wt} diff`, only files under infretis/) and `notes.md` listing each edit in one line and why it cannot change behaviour. Leave the change applied (uncommitted). Finish with a 3-line summary.
""")
print(out + "/TASK.md")
