#!/usr/bin/env python3
"""tools/write_meta.py <seed dir name> <property> <missed:0|1> "<summary>" "<needs>" "<caught_by>" """
import json, sys
d, prop, missed, summary, needs, caught = sys.argv[1:7]
meta = {
    "property": prop,
    "summary": summary,
    "needs": needs,
    "caught_by": caught,
    "initially_missed": bool(int(missed)),
    "confirmed": {
        "how": "tools/confirm_seed.sh <worktree> <outdir>: test suite with the change (77 passed), demo.py with the change (exit 1, FAIL), demo.py on the original tree (exit 0, PASS)",
        "by": "main session, in the agent's scratch worktree under /tmp (removed afterwards)",
    },
    "checked_with": f"tools/try_seed.sh /verif/seeded/{d}/patch.diff {prop}",
}
json.dump(meta, open(f"/verif/seeded/{d}/meta.json", "w"), indent=1)
print("wrote", d)
