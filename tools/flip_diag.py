import sys; sys.path.insert(0,'/verif')
import ast
from sa.loader import Tree, AnalysisError
from sa.__main__ import analyse

FL = {ast.Lt: ast.Gt, ast.Gt: ast.Lt, ast.LtE: ast.GtE, ast.GtE: ast.LtE, ast.Eq: ast.Eq, ast.NotEq: ast.NotEq}
def flip(src):
    t = ast.parse(src)
    for n in ast.walk(t):
        if isinstance(n, ast.Compare) and len(n.ops) == 1 and type(n.ops[0]) in FL:
            l, r = n.left, n.comparators[0]
            # keep `x == None`-like and constant-on-right idioms flipped too (equivalent)
            n.left, n.comparators, n.ops = r, [l], [FL[type(n.ops[0])]()]
    out = ast.unparse(t) + "\n"; compile(out, "f", "exec"); return out
base = Tree('/repo'); ov = {rel: flip(m.src) for rel, m in base.modules.items()}
props = sys.argv[1:] or "C03 C04 C05 C06 C07 C08 C09 C11 C12 C13 C14 C15 C16 C17 C18 C19 C20".split()
for p in props:
    b = analyse(p, '/repo'); bs = {(f.rule, f.func) for f in b.findings}
    try:
        c = analyse(p, '/repo', ov)
        new = [f for f in c.findings if (f.rule, f.func) not in bs]
        print(p, "new:", sorted({(f.rule, f.func) for f in new}), "problems:", [x[:110] for x in getattr(c, 'problems', [])][:3])
        if len(props) == 1:
            for f in new: print("   ", f.rule, f.line, f.func, f.message[:200])
    except AnalysisError as e:
        print(p, "ANALYSIS-ERROR", str(e)[:250])
    except Exception as e:
        print(p, "CRASH", repr(e)[:200])
