#!/usr/bin/env python3
"""Regenerate the rule index of DESIGN.md (between <!-- RULES-BEGIN --> and <!-- RULES-END -->)
from the ctx.rule(...) registrations in sa/rules/*.py."""
import ast, glob, os, re
rows = {}
for p in sorted(glob.glob("/verif/sa/rules/c[0-9][0-9].py")):
    prop = os.path.basename(p)[:3].upper()
    tree = ast.parse(open(p).read())
    for n in ast.walk(tree):
        if isinstance(n, ast.Call) and isinstance(n.func, ast.Attribute) and n.func.attr == "rule" and len(n.args) >= 2 and isinstance(n.args[0], ast.Constant):
            rid = n.args[0].value
            try:
                text = ast.literal_eval(n.args[1])
            except Exception:
                text = ast.unparse(n.args[1])
            floor = next((ast.literal_eval(k.value) for k in n.keywords if k.arg == "floor"), "")
            pid = "C%02d" % int(rid.split("-")[1].split(".")[0])
            rows.setdefault(pid, {})[rid] = (text, floor)
def key(r):
    a, b = r.split("-")[1].split(".")
    return int(a), int(b)
out = ["| property | rule | decided clause (as registered in the checker) | floor |", "|---|---|---|---|"]
for pid in sorted(rows):
    for rid in sorted(rows[pid], key=key):
        t, fl = rows[pid][rid]
        out.append(f"| {pid} | {rid} | {t.replace('|', '/')} | {fl} |")
n = sum(len(v) for v in rows.values())
block = "<!-- RULES-BEGIN -->\n" + f"{n} rules registered.\n\n" + "\n".join(out) + "\n<!-- RULES-END -->"
d = open("/verif/DESIGN.md").read()
if "<!-- RULES-BEGIN -->" in d:
    d = re.sub(r"<!-- RULES-BEGIN -->.*?<!-- RULES-END -->", lambda m: block, d, flags=re.S)
else:
    d += "\n\n## 12. Rule index (generated from the checker: `tools/gen_rule_index.py`)\n\nEvery rule the checks evaluate, with the clause it decides and the instance floor confirmed by reading (a count below the floor is an ANALYSIS-ERROR, never a pass). Sections 3, 9.2 and 11.x explain the rules; this table is the inventory.\n\n" + block + "\n"
open("/verif/DESIGN.md", "w").write(d)
print(n, "rules")
