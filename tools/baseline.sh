#!/bin/sh
# Run the repository's pinned test suite (guard off - there are no hooks).
cd /repo && PATH=/venv/bin:$PATH exec /venv/bin/python -m pytest -ra -q -p no:cacheprovider --timeout=900 --continue-on-collection-errors "$@"
