#!/bin/sh
# Run the repository's pinned test suite (guard off - there are no hooks).
# The suite leaves infretis_data_<n>.txt files in its cwd; remove the new ones.
cd /repo || exit 2
before=$(ls infretis_data*.txt 2>/dev/null)
PATH=/venv/bin:$PATH /venv/bin/python -m pytest -ra -q -p no:cacheprovider --timeout=900 --continue-on-collection-errors "$@"
rc=$?
for f in infretis_data*.txt; do
  case " $before " in *"$f"*) ;; *) rm -f "$f";; esac
done
exit $rc
