#!/bin/sh
# usage: process_refactor.sh <tag>  - confirm a sub-agent's refactoring (suite passes), file it, run all checks
t="$1"; wt=/tmp/refac_$t; out=/tmp/refac_${t}_out
(cd $wt && PYTHONPATH=$wt PATH=/venv/bin:$PATH /venv/bin/python -m pytest -q -p no:cacheprovider --timeout=900 2>&1 | tail -1; git status --short | grep '^??' | awk '{print $2}' | xargs -r rm -rf)
mkdir -p /verif/refactors/$t; (cd $wt && git diff > /verif/refactors/$t/patch.diff); cp $out/notes.md /verif/refactors/$t/notes.md 2>/dev/null
cd /repo && git apply /verif/refactors/$t/patch.diff || exit 2
for p in $(python3 -c "import json;print(' '.join(c['property_id'] for c in json.load(open('/verif/MANIFEST.json'))['checks']))"); do
  o=$(cd /verif && /venv/bin/python -m sa check $p --tier quick 2>&1); rc=$?
  if [ $rc -ne 0 ]; then echo "$t $p: rc=$rc"; echo "$o" | grep "^  infretis\|ANALYSIS" | cut -c1-330 | head -4; fi
done
git checkout -- .
echo "$t: done"
