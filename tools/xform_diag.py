import sys; sys.path.insert(0,'/verif')
import ast
from sa.loader import Tree, AnalysisError
from sa.__main__ import analyse

def invert_ifs(src):
    t = ast.parse(src)
    for n in ast.walk(t):
        if isinstance(n, ast.If) and n.orelse and not (len(n.orelse) == 1 and isinstance(n.orelse[0], ast.If)):
            n.test = ast.UnaryOp(op=ast.Not(), operand=n.test)
            n.body, n.orelse = n.orelse, n.body
    ast.fix_missing_locations(t)
    out = ast.unparse(t) + "\n"; compile(out, "f", "exec"); return out

def add_logging(src):
    t = ast.parse(src)
    def stmt():
        return ast.parse("logger.debug('trace')").body[0]
    for n in ast.walk(t):
        for field in ("body", "orelse", "finalbody"):
            b = getattr(n, field, None)
            if isinstance(b, list) and b and isinstance(b[0], ast.stmt) and not isinstance(n, (ast.Module, ast.ClassDef)):
                # keep docstrings first
                i = 1 if (isinstance(b[0], ast.Expr) and isinstance(b[0].value, ast.Constant) and isinstance(b[0].value.value, str)) else 0
                b.insert(i, stmt())
    ast.fix_missing_locations(t)
    out = ast.unparse(t) + "\n"; compile(out, "f", "exec"); return out

def swap_adjacent(src):
    """Swap adjacent simple assignments `a = e1; b = e2` when neither reads or writes a name of the other and neither contains a call."""
    t = ast.parse(src)
    def names(n, ctxs):
        return {x.id for x in ast.walk(n) if isinstance(x, ast.Name) and isinstance(x.ctx, ctxs)}
    def simple(st):
        return isinstance(st, ast.Assign) and len(st.targets) == 1 and isinstance(st.targets[0], ast.Name) and not any(isinstance(x, (ast.Call, ast.Attribute, ast.Subscript, ast.Yield, ast.Await)) for x in ast.walk(st.value))
    cnt = 0
    for n in ast.walk(t):
        for field in ("body", "orelse", "finalbody"):
            b = getattr(n, field, None)
            if not isinstance(b, list):
                continue
            i = 0
            while i + 1 < len(b):
                a, c = b[i], b[i + 1]
                if simple(a) and simple(c):
                    wa, wc = {a.targets[0].id}, {c.targets[0].id}
                    ra, rc = names(a.value, ast.Load), names(c.value, ast.Load)
                    if not (wa & (wc | rc)) and not (wc & ra):
                        b[i], b[i + 1] = c, a
                        cnt += 1
                        i += 2
                        continue
                i += 1
    out = ast.unparse(t) + "\n"; compile(out, "f", "exec"); return out

X = {"invert": invert_ifs, "logging": add_logging, "swap": swap_adjacent}
which = sys.argv[1]
base = Tree('/repo'); ov = {rel: X[which](m.src) for rel, m in base.modules.items()}
props = sys.argv[2:] or "C03 C04 C05 C06 C07 C08 C09 C11 C12 C13 C14 C15 C16 C17 C18 C19 C20".split()
for p in props:
    b = analyse(p, '/repo'); bs = {(f.rule, f.func) for f in b.findings}
    try:
        c = analyse(p, '/repo', ov)
        new = [f for f in c.findings if (f.rule, f.func) not in bs]
        print(p, "new:", sorted({(f.rule, f.func) for f in new}), "problems:", [x[:110] for x in getattr(c, 'problems', [])][:3])
        if len(props) == 1:
            for f in new: print("   ", f.rule, f.line, f.func, f.message[:220])
    except AnalysisError as e:
        print(p, "ANALYSIS-ERROR", str(e)[:250])
    except Exception as e:
        import traceback; print(p, "CRASH", repr(e)[:200])
