import sys; sys.path.insert(0,'/verif')
import ast
from sa.loader import Tree, AnalysisError
from sa.__main__ import analyse

def invert_ifs(src):
    t = ast.parse(src)
    for n in ast.walk(t):
        if isinstance(n, ast.If) and n.orelse and not (len(n.orelse) == 1 and isinstance(n.orelse[0], ast.If)):
            n.test = ast.UnaryOp(op=ast.Not(), operand=n.test)
            n.body, n.orelse = n.orelse, n.body
    ast.fix_missing_locations(t)
    out = ast.unparse(t) + "\n"; compile(out, "f", "exec"); return out

def add_logging(src):
    t = ast.parse(src)
    def stmt():
        return ast.parse("logger.debug('trace')").body[0]
    for n in ast.walk(t):
        for field in ("body", "orelse", "finalbody"):
            b = getattr(n, field, None)
            if isinstance(b, list) and b and isinstance(b[0], ast.stmt) and not isinstance(n, (ast.Module, ast.ClassDef)):
                # keep docstrings first
                i = 1 if (isinstance(b[0], ast.Expr) and isinstance(b[0].value, ast.Constant) and isinstance(b[0].value.value, str)) else 0
                b.insert(i, stmt())
    ast.fix_missing_locations(t)
    out = ast.unparse(t) + "\n"; compile(out, "f", "exec"); return out

def swap_adjacent(src):
    """Swap adjacent simple assignments `a = e1; b = e2` when neither reads or writes a name of the other and neither contains a call."""
    t = ast.parse(src)
    def names(n, ctxs):
        return {x.id for x in ast.walk(n) if isinstance(x, ast.Name) and isinstance(x.ctx, ctxs)}
    def simple(st):
        return isinstance(st, ast.Assign) and len(st.targets) == 1 and isinstance(st.targets[0], ast.Name) and not any(isinstance(x, (ast.Call, ast.Attribute, ast.Subscript, ast.Yield, ast.Await)) for x in ast.walk(st.value))
    cnt = 0
    for n in ast.walk(t):
        for field in ("body", "orelse", "finalbody"):
            b = getattr(n, field, None)
            if not isinstance(b, list):
                continue
            i = 0
            while i + 1 < len(b):
                a, c = b[i], b[i + 1]
                if simple(a) and simple(c):
                    wa, wc = {a.targets[0].id}, {c.targets[0].id}
                    ra, rc = names(a.value, ast.Load), names(c.value, ast.Load)
                    if not (wa & (wc | rc)) and not (wc & ra):
                        b[i], b[i + 1] = c, a
                        cnt += 1
                        i += 2
                        continue
                i += 1
    out = ast.unparse(t) + "\n"; compile(out, "f", "exec"); return out

_SIGS = None
def keywordise(src):
    """Calls of repository functions: every positional argument after the first becomes a keyword argument (when all definitions of that name agree on the parameter names)."""
    global _SIGS
    if _SIGS is None:
        _SIGS = {}
        for rel, m in Tree('/repo').modules.items():
            for q, f in m.funcs.items():
                ps = [a.arg for a in f.args.posonlyargs + f.args.args]
                is_method = "." in q and ps and ps[0] in ("self", "cls")
                _SIGS.setdefault(f.name, set()).add((tuple(ps[1:] if is_method else ps), is_method, bool(f.args.posonlyargs or f.args.vararg)))
    t = ast.parse(src)
    for c in ast.walk(t):
        if not isinstance(c, ast.Call) or any(isinstance(a, ast.Starred) for a in c.args):
            continue
        nm = c.func.attr if isinstance(c.func, ast.Attribute) else (c.func.id if isinstance(c.func, ast.Name) else None)
        sigs = _SIGS.get(nm)
        if not sigs or len({s_[0] for s_ in sigs}) != 1 or nm.startswith("__"):
            continue
        ps, is_method, special = next(iter(sigs))
        if special or (is_method != isinstance(c.func, ast.Attribute)):
            continue
        if len(c.args) < 2 or len(c.args) > len(ps):
            continue
        keep = c.args[:1]
        for i, a in enumerate(c.args[1:], start=1):
            c.keywords.insert(i - 1, ast.keyword(arg=ps[i], value=a))
        c.args = keep
    ast.fix_missing_locations(t)
    out = ast.unparse(t) + "\n"; compile(out, "f", "exec"); return out

def hoist_args(src):
    """`y = f(g(x), z)` -> `_h1 = g(x); y = f(_h1, z)` for statement-level calls whose first argument is itself a call or attribute chain."""
    t = ast.parse(src)
    cnt = [0]
    def do_block(b):
        i = 0
        while i < len(b):
            st = b[i]
            call = None
            if isinstance(st, ast.Assign) and isinstance(st.value, ast.Call):
                call = st.value
            elif isinstance(st, ast.Expr) and isinstance(st.value, ast.Call):
                call = st.value
            if call is not None and call.args and isinstance(call.args[0], (ast.Call, ast.Subscript)) and not isinstance(call.func, ast.Name) or (call is not None and call.args and isinstance(call.args[0], (ast.Call, ast.Subscript)) and isinstance(call.func, ast.Name) and call.func.id not in ("super", "isinstance", "len", "enumerate", "zip", "range", "reversed", "iter", "next", "sorted", "list", "tuple", "set", "dict", "str", "int", "float", "print", "min", "max", "sum", "abs", "getattr", "hasattr")):
                cnt[0] += 1
                nm = f"_h{cnt[0]}"
                b.insert(i, ast.Assign(targets=[ast.Name(id=nm, ctx=ast.Store())], value=call.args[0]))
                call.args[0] = ast.Name(id=nm, ctx=ast.Load())
                i += 1
            i += 1
    for n in ast.walk(t):
        if isinstance(n, (ast.FunctionDef, ast.AsyncFunctionDef, ast.For, ast.While, ast.If, ast.With, ast.Try)):
            for field in ("body", "orelse", "finalbody"):
                b = getattr(n, field, None)
                if isinstance(b, list) and b and isinstance(b[0], ast.stmt):
                    do_block(b)
    ast.fix_missing_locations(t)
    out = ast.unparse(t) + "\n"; compile(out, "f", "exec"); return out

def guard_clauses(src):
    """`for ...: ...; if c: BODY` (if last, no else) -> `if not c: continue; BODY`."""
    t = ast.parse(src)
    for n in ast.walk(t):
        if isinstance(n, (ast.For, ast.While)) and n.body and isinstance(n.body[-1], ast.If) and not n.body[-1].orelse:
            last = n.body[-1]
            if any(isinstance(x, (ast.Break,)) for x in ast.walk(last)):
                pass
            g = ast.If(test=ast.UnaryOp(op=ast.Not(), operand=last.test), body=[ast.Continue()], orelse=[])
            n.body = n.body[:-1] + [g] + last.body
    ast.fix_missing_locations(t)
    out = ast.unparse(t) + "\n"; compile(out, "f", "exec"); return out

X = {"invert": invert_ifs, "logging": add_logging, "swap": swap_adjacent, "kw": keywordise, "hoist": hoist_args, "guard": guard_clauses}
which = sys.argv[1]
base = Tree('/repo'); ov = {rel: X[which](m.src) for rel, m in base.modules.items()}
props = sys.argv[2:] or "C03 C04 C05 C06 C07 C08 C09 C11 C12 C13 C14 C15 C16 C17 C18 C19 C20".split()
for p in props:
    b = analyse(p, '/repo'); bs = {(f.rule, f.func) for f in b.findings}
    try:
        c = analyse(p, '/repo', ov)
        new = [f for f in c.findings if (f.rule, f.func) not in bs]
        print(p, "new:", sorted({(f.rule, f.func) for f in new}), "problems:", [x[:110] for x in getattr(c, 'problems', [])][:3])
        if len(props) == 1:
            for f in new: print("   ", f.rule, f.line, f.func, f.message[:220])
    except AnalysisError as e:
        print(p, "ANALYSIS-ERROR", str(e)[:250])
    except Exception as e:
        import traceback; print(p, "CRASH", repr(e)[:200])
