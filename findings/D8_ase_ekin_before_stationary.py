"""D8 (C16): the kinetic energy reported by ASEEngine.modify_velocities must
be that of the velocities it wrote.  With zero_momentum=True the engine
removes the centre-of-mass motion *after* it has computed kin_new.
Triage evidence only."""
import importlib.util, os, sys, tempfile, shutil
import numpy as np
from ase import Atoms
from ase.io import read, write
from infretis.classes.engines.ase_engine import ASEEngine
from infretis.classes.system import System
work = tempfile.mkdtemp(); os.chdir(work); os.makedirs("inp")
write("inp/conf.traj", Atoms("H2", positions=[[0, 0, 0], [0, 0, 0.74]], cell=[10, 10, 10]))
eng = ASEEngine(0.5, 300, 1, "inp", "velocityverlet",
                {"class": "LennardJonesCalc", "module": "/repo/examples/ase/H2/H2-calc.py", "sigma": 3.0, "epsilon": 0.25910675, "rc": 12.0, "smooth": False},
                exe_path=work)
eng.exe_dir = work
eng.rgen = np.random.default_rng(3)
s = System(); s.config = (work + "/inp/conf.traj", 0)
dek, kin_new = eng.modify_velocities(s, {"zero_momentum": True})
written = read(s.config[0]).get_kinetic_energy()
shutil.rmtree(work)
print("reported kin_new:", kin_new, " kinetic energy of the written frame:", written)
ok = abs(kin_new - written) < 1e-12
print("CONSISTENT" if ok else "INCONSISTENT")
sys.exit(0 if ok else 1)
