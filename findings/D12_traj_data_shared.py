"""D12 (C06): two runs in one process must not share per-run state.
A 4-step seed-1 run is executed (a) alone in a fresh process and (b) after a
seed-0 run in the same process; the restart.toml files must be identical.
Triage evidence only."""
import importlib.util, os, shutil, subprocess, sys, tempfile
import tomli, tomli_w
REPO = "/repo"

def run(seed, steps, work):
    shutil.copytree(f"{REPO}/examples/turtlemd/double_well/load_copy", work + "/load")
    shutil.copy(f"{REPO}/examples/turtlemd/double_well/orderp.py", work)
    cfg = tomli.load(open(f"{REPO}/test/simulations/data/wf.toml", "rb"))
    cfg["simulation"]["steps"] = steps; cfg["simulation"]["seed"] = seed
    cfg["output"]["screen"] = 0; cfg["output"]["pattern"] = 0
    tomli_w.dump(cfg, open(work + "/infretis.toml", "wb"))
    os.chdir(work)
    from infretis.bin import internalrun
    internalrun("infretis.toml")
    return open(work + "/restart.toml", "rb").read()

if len(sys.argv) > 1:          # child: the seed-1 run alone
    out = run(1, 4, tempfile.mkdtemp()); open(sys.argv[1], "wb").write(out); sys.exit(0)
ref = tempfile.mktemp()
subprocess.run([sys.executable, __file__, ref], check=True, stdout=subprocess.DEVNULL, stderr=subprocess.DEVNULL, env=dict(os.environ))
alone = open(ref, "rb").read()
run(0, 6, tempfile.mkdtemp())
after = run(1, 4, tempfile.mkdtemp())
fa, fb = tomli.loads(alone.decode())["current"]["frac"], tomli.loads(after.decode())["current"]["frac"]
print("frac keys alone:", sorted(fa, key=int)); print("frac keys after another run:", sorted(fb, key=int))
ok = alone == after
print("PASS" if ok else "FAIL: the second run in one process differs from the same run alone"); sys.exit(0 if ok else 1)
