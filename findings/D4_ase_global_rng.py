"""D4 (C07/C16): ASE velocity generation must draw from the engine's stream.
Two engines with identically seeded streams must generate identical
velocities whatever the state of the process-global numpy.random.
Triage evidence only."""
import importlib.util, os, sys, tempfile, shutil
import numpy as np
from ase import Atoms
from ase.io import write
from infretis.classes.engines.ase_engine import ASEEngine
from infretis.classes.system import System

work = tempfile.mkdtemp(); os.chdir(work)
os.makedirs("inp"); 
write("inp/conf.traj", Atoms("H2", positions=[[0, 0, 0], [0, 0, 0.74]], cell=[10, 10, 10]))
def run(global_seed):
    np.random.seed(global_seed)
    eng = ASEEngine(0.5, 300, 1, "inp", "velocityverlet",
                    {"class": "LennardJonesCalc", "module": "/repo/examples/ase/H2/H2-calc.py", "sigma": 3.0, "epsilon": 0.25910675, "rc": 12.0, "smooth": False},
                    exe_path=work)
    eng.exe_dir = work
    eng.rgen = np.random.default_rng(42)
    s = System(); s.config = (work + "/inp/conf.traj", 0)
    eng.modify_velocities(s, {"zero_momentum": False})
    from ase.io import read
    return read(s.config[0]).get_velocities()
a, b = run(1), run(2)
shutil.rmtree(work)
print(a[0], b[0])
same = np.allclose(a, b)
print("SAME (engine stream decides)" if same else "DIFFERENT (global numpy.random decides)")
sys.exit(0 if same else 1)
