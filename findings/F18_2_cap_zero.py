"""F18.2 (C18): an interface cap of 0.0 below the first interface must be
rejected like any other cap outside the interfaces.  Triage evidence only."""
import importlib.util, sys
from infretis.setup import check_config, TOMLConfigError
cfg = {"simulation": {"interfaces": [0.5, 1.0], "shooting_moves": ["sh", "sh"], "ensemble_engines": [["engine"], ["engine"]],
                      "tis_set": {"interface_cap": 0.0}}, "runner": {"workers": 1}, "engine": {"class": "turtlemd"}}
try:
    check_config(cfg)
except TOMLConfigError as exc:
    print("rejected:", exc); print("PASS"); sys.exit(0)
print("accepted a cap (0.0) below the first interface (0.5)"); print("FAIL"); sys.exit(1)
