"""F12.3 (C12): GromacsRunner.get_gromacs_frames - the inner wait for a frame's data never
polls mdrun. History: mdrun writes two complete frames and the header of a third one plus
half of its data, then dies with return code 1. Expected (property C12: "an engine failure
raises instead of returning a silently truncated path"): RuntimeError. Before the fix the
reader sleeps for ever (this script gives up after 200 naps and reports HANG).

Run: cd /tmp && PYTHONPATH=/repo /venv/bin/python /verif/findings/F12_3_trr_wait_never_polls.py
exit 0 = engine failure raised, exit 1 = hang (defect present)
"""
import importlib.util  # noqa: F401
import os
import shutil
import struct
import sys
import tempfile

import numpy as np

from infretis.classes.engines import gromacs as gmx


def frame(natoms, step, rng):
    box = rng.random((3, 3)).astype(np.float32)
    pos = rng.random((natoms, 3)).astype(np.float32)
    vel = rng.random((natoms, 3)).astype(np.float32)
    xv = 3 * natoms * 4
    head = struct.pack(">1i", 1993) + struct.pack(">2i", 13, 12) + struct.pack(">12s", b"GMX_trn_file")
    head += struct.pack(">13i", 0, 0, 36, 0, 0, 0, 0, xv, xv, 0, natoms, step, 0)
    head += struct.pack(">2f", 0.002 * step, 0.0)
    body = struct.pack(">9f", *box.ravel()) + struct.pack(f">{3 * natoms}f", *pos.ravel()) + struct.pack(f">{3 * natoms}f", *vel.ravel())
    return head, body


class FakeProcess:
    def __init__(self):
        self.returncode = None
        self.stdin = self.stdout = self.stderr = None
        self.pid = -1

    def poll(self):
        return self.returncode

    def wait(self, timeout=None):
        return self.returncode


class Hang(Exception):
    pass


def main():
    rng = np.random.default_rng(1)
    tmp = tempfile.mkdtemp(prefix="f12_3_")
    try:
        trr = os.path.join(tmp, "traj.trr")
        blob = b""
        for step in range(2):
            h, b = frame(100, step, rng)
            blob += h + b
        h, b = frame(100, 2, rng)
        blob += h + b[: len(b) // 2]  # mdrun dies here
        with open(trr, "wb") as out:
            out.write(blob)
        runner = gmx.GromacsRunner(["gmx"], trr, trr, tmp)
        proc = FakeProcess()
        runner.running = proc
        runner.stdout_name = runner.stderr_name = "none"
        runner.fileh = open(trr, "rb")
        runner.ino = os.fstat(runner.fileh.fileno()).st_ino
        runner.stop_read = False
        naps = [0]

        def fake_sleep(_):
            naps[0] += 1
            proc.returncode = 1  # mdrun has died with an error
            if naps[0] > 200:
                raise Hang()

        gmx.sleep = fake_sleep
        got = 0
        try:
            for _ in runner.get_gromacs_frames():
                got += 1
        except RuntimeError as exc:
            print(f"frames read: {got}; engine failure raised: {exc}")
            print("PASS")
            return 0
        except Hang:
            print(f"frames read: {got}; the reader slept 200 times after mdrun died (return code 1) without noticing")
            print("HANG (defect present)")
            return 1
        finally:
            proc.returncode = 0
            runner.stop()
        print(f"frames read: {got}; reader returned normally although mdrun failed")
        return 1
    finally:
        shutil.rmtree(tmp, ignore_errors=True)


if __name__ == "__main__":
    sys.exit(main())
