"""D11 (C12): the GROMACS engine must apply the velocity direction once.

GromacsRunner (the external mdrun) is replaced by a stub yielding two frames;
everything else is the real GromacsEngine._propagate_from.  With a
velocity-dependent order parameter and reverse=True, the order stored for a
frame must equal the order recomputed from that stored frame
(calculate_order(frame) -> negates once because vel_rev is set).
Triage evidence only - not part of any check."""
import importlib.util, os, shutil, sys, tempfile
import numpy as np
import infretis.classes.engines.gromacs as G
from infretis.classes.orderparameter import OrderParameter
from infretis.classes.path import Path
from infretis.classes.system import System
from infretis.classes.formatter import FileIO, OutputFormatter

work = tempfile.mkdtemp(); os.chdir(work)
VEL = np.array([[0.3, 0.0, 0.0], [0.0, 0.0, 0.0]])
FRAMES = [{"x": np.zeros((2, 3)), "v": VEL.copy(), "box": np.eye(3) * 5.0} for _ in range(2)]

class StubRunner:
    def __init__(self, *a): pass
    def __enter__(self): return self
    def __exit__(self, *a): pass
    def get_gromacs_frames(self):
        for f in FRAMES:
            yield {k: v.copy() for k, v in f.items()}
G.GromacsRunner = StubRunner

class VelX(OrderParameter):
    def __init__(self): super().__init__(description="vx", velocity=True)
    def calculate(self, system): return [float(system.vel[0][0])]

eng = G.GromacsEngine("echo", "/repo/examples/gromacs/H2/gromacs_input", 0.002, 1, 300,
                      masses=[1.008, 1.008], infretis_genvel=True)
eng.exe_dir = work
eng.mdrun = "mdrun -s {} -deffnm {} -c {}"
eng.order_function = VelX()
eng._execute_grompp = lambda *a, **k: {"tpr": "x.tpr"}
eng.get_energies = lambda *a, **k: {"kinetic en.": np.zeros(2), "potential": np.zeros(2)}
# what is on disk for a frame is what mdrun integrated, i.e. FRAMES[k]["v"]
eng._read_configuration = lambda fn: (np.zeros((2, 3)), VEL.copy(), np.ones(9), None)
system = System(); system.config = (os.path.join(work, "init.g96"), 0)
system.vel_rev = True      # set by EngineBase.propagate(reverse=True)
eng.calculate_order = eng.calculate_order
path = Path(maxlen=3)
msg = FileIO(os.path.join(work, "msg.txt"), "w", OutputFormatter("MSG"), backup=False); msg.open()
eng._propagate_from("demo", path, system, {"interfaces": (-9.0, 0.0, 9.0)}, msg, reverse=True)
frame = path.phasepoints[1]
stored = frame.order[0]
recomputed = eng.calculate_order(frame.copy())[0]
print("stored order while propagating backward:", stored)
print("order recomputed from the stored frame  :", recomputed)
shutil.rmtree(work)
ok = stored == recomputed
print("CONSISTENT" if ok else "SIGN FLIPPED (direction applied twice)")
sys.exit(0 if ok else 1)
