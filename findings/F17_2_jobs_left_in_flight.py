"""F17.2 (C17): 'a finished run leaves no job in flight'.
3 workers. Run 6 steps; raise steps to 7 and restart ("restarting with a larger step count
continues from there"): one step remains, but initiate() starts all 3 workers (its refusal test
looks at cstep < tsteps only). One result is consumed, the run ends at cstep = 7 with two jobs
still in flight: restart.toml of the finished run lists them under current.locked (their MD ran
for nothing; a later restart re-issues them).
Hand-driven scheduler (no process pool). Triage evidence only.
Run: cd /tmp && /venv/bin/python /verif/findings/F17_2_jobs_left_in_flight.py"""
import copy, importlib.util, os, shutil, sys, tempfile
import tomli, tomli_w
REPO = "/repo"
work = tempfile.mkdtemp()
shutil.copytree(f"{REPO}/examples/turtlemd/double_well/load_copy", work + "/load")
shutil.copy(f"{REPO}/examples/turtlemd/double_well/orderp.py", work)
cfg = tomli.load(open(f"{REPO}/test/simulations/data/wf.toml", "rb"))
cfg["simulation"]["steps"] = 6; cfg["runner"]["workers"] = 3
cfg["output"]["screen"] = 0; cfg["output"]["pattern"] = 0
tomli_w.dump(cfg, open(work + "/infretis.toml", "wb"))
os.chdir(work)
from infretis.core.tis import run_md
from infretis.setup import setup_config, setup_internal


def drive(inp):
    """scheduler() without the async runner: jobs complete in submission order."""
    config = setup_config(inp)
    if config is None:
        return None
    md_items, state = setup_internal(config)
    queue = []
    while state.initiate():
        queue.append(state.prep_md_items(copy.deepcopy(md_items)))
    while state.loop():
        job = state.treat_output(run_md(queue.pop(0)))
        if state.cstep + state.workers <= state.tsteps:
            queue.append(state.prep_md_items(job))
    return len(queue)


left1 = drive("infretis.toml")
rc = tomli.load(open("restart.toml", "rb"))
print("first run: cstep", rc["current"]["cstep"], "jobs left in flight:", left1, "locked:", rc["current"].get("locked"))
rc["simulation"]["steps"] = 7
tomli_w.dump(rc, open("restart.toml", "wb"))
left2 = drive("restart.toml")
rc = tomli.load(open("restart.toml", "rb"))
locked = rc["current"].get("locked", [])
print("after restarting with steps = 7: cstep", rc["current"]["cstep"], "jobs left in flight:", left2, "locked:", locked)
shutil.rmtree(work)
ok = left1 == 0 and left2 == 0 and not locked
print("PASS" if ok else "FAIL: the finished run leaves jobs in flight")
sys.exit(0 if ok else 1)
