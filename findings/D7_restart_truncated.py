"""D7 (C08): a crash while restart.toml is being written must leave the
previous restart.toml intact.  tomli_w.dump is made to die half-way (the
process 'crashes' inside the dump); afterwards ./restart.toml must still be
the complete previous file.  Triage evidence only."""
import importlib.util, os, sys, tempfile
import tomli, tomli_w
from infretis.classes import repex
from infretis.classes.repex import REPEX_state
os.chdir(tempfile.mkdtemp())
st = REPEX_state({"current": {"size": 1, "cstep": 0}, "runner": {"workers": 1}, "simulation": {"seed": 0}})
st.write_toml()
before = open("restart.toml", "rb").read()
real = tomli_w.dump
def dying_dump(obj, fp):
    fp.write(b"[current]\n"); fp.flush()
    raise KeyboardInterrupt("crash in the middle of the dump")
repex.tomli_w.dump = dying_dump
st.cstep = 1
try:
    st.write_toml()
except KeyboardInterrupt:
    pass
repex.tomli_w.dump = real
after = open("restart.toml", "rb").read()
ok = after == before
print("restart.toml after the crash:", "intact" if ok else repr(after))
sys.exit(0 if ok else 1)
