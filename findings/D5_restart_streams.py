"""D5/D6 (C07): spawn keys handed to the jobs started by a 2-worker restart.

Runs 6 steps with 2 workers on the TurtleMD double well, then re-creates the
scheduler from restart.toml exactly as `infretisrun -i restart.toml` does and
prints the seed-sequence spawn key of the child stream given to each of the
first picks.  Two equal keys = two concurrent jobs share a stream.
Triage evidence only - not part of any check."""
import importlib.util, os, shutil, sys, tempfile
import tomli, tomli_w

REPO = "/repo"
work = tempfile.mkdtemp()
shutil.copytree(f"{REPO}/examples/turtlemd/double_well/load_copy", work + "/load")
shutil.copy(f"{REPO}/examples/turtlemd/double_well/orderp.py", work)
cfg = tomli.load(open(f"{REPO}/test/simulations/data/wf.toml", "rb"))
cfg["runner"]["workers"] = 2
cfg["simulation"]["steps"] = 6
cfg["simulation"]["seed"] = 3
cfg["output"]["screen"] = 0
cfg["output"]["pattern"] = 0
tomli_w.dump(cfg, open(work + "/infretis.toml", "wb"))
os.chdir(work)
from infretis.bin import internalrun
from infretis.setup import setup_config, setup_internal
internalrun("infretis.toml")
rc = tomli.load(open("restart.toml", "rb"))
print("after 6 steps: cstep", rc["current"]["cstep"], "locked", rc["current"]["locked"])
rc["simulation"]["steps"] = 12
tomli_w.dump(rc, open("restart.toml", "wb"))
config = setup_config("restart.toml")
md_items, state = setup_internal(config)
keys = []
import copy
while state.initiate():
    w = state.prep_md_items(copy.deepcopy(md_items))
    for e, p in w["picked"].items():
        keys.append((e, p["ens"]["rgen"].bit_generator._seed_seq.spawn_key))
print("spawn keys of the jobs started by the restart:", keys)
jobs = sorted({k[:1] for _, k in keys})
njobs = 2
shutil.rmtree(work)
if len(jobs) < njobs:
    print("SHARED: two concurrent jobs received children of the same per-pick stream")
    sys.exit(1)
print("DISTINCT")
