"""F17.1 (C17): 'restarting with a larger step count continues from there'.
Run 3 steps; restart once without changing anything (no progress, a no-op);
then raise steps to 6 and restart: the run must continue to 6.
Triage evidence only."""
import importlib.util, os, shutil, sys, tempfile
import tomli, tomli_w
REPO = "/repo"
work = tempfile.mkdtemp()
shutil.copytree(f"{REPO}/examples/turtlemd/double_well/load_copy", work + "/load")
shutil.copy(f"{REPO}/examples/turtlemd/double_well/orderp.py", work)
cfg = tomli.load(open(f"{REPO}/test/simulations/data/wf.toml", "rb"))
cfg["simulation"]["steps"] = 3; cfg["output"]["screen"] = 0; cfg["output"]["pattern"] = 0
tomli_w.dump(cfg, open(work + "/infretis.toml", "wb"))
os.chdir(work)
from infretis.bin import internalrun
internalrun("infretis.toml")
internalrun("restart.toml")                       # same steps: nothing to do
rc = tomli.load(open("restart.toml", "rb"))
rc["simulation"]["steps"] = 6
tomli_w.dump(rc, open("restart.toml", "wb"))
internalrun("restart.toml")                       # must continue 3 -> 6
cstep = tomli.load(open("restart.toml", "rb"))["current"]["cstep"]
shutil.rmtree(work)
print("cstep after restarting with steps = 6:", cstep)
ok = cstep == 6
print("PASS" if ok else "FAIL: the restart with a larger step count was refused"); sys.exit(0 if ok else 1)
