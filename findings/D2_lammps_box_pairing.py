"""D2 (C12): LAMMPS frames must be paired with their own box.

A stub `lmp` writes three complete frames with boxes 10, 11, 12 in one go
(i.e. more than one frame is ready in a single poll), then exits 0.  The
order parameter returns the box length it was given, so the stored orders
show which box each frame was paired with.  Expected 10, 11, 12.
Triage evidence only - not part of any check."""
import importlib.util, os, shutil, stat, sys, tempfile
import numpy as np

work = tempfile.mkdtemp()
inp = os.path.join(work, "lammps_input")
shutil.copytree("/repo/examples/lammps/H2/lammps_input", inp)
stub = os.path.join(work, "fake_lmp.py")
open(stub, "w").write('''#!/venv/bin/python
import sys, time
run = sys.argv[sys.argv.index("-i") + 1]
name = None
for line in open(run):
    s = line.split()
    if len(s) >= 4 and s[0] == "variable" and s[1] == "name":
        name = s[3]
out = ""
for k, L in enumerate((10.0, 11.0, 12.0)):
    out += f"ITEM: TIMESTEP\\n{k}\\nITEM: NUMBER OF ATOMS\\n2\\nITEM: BOX BOUNDS pp pp pp\\n"
    out += f"0.0 {L}\\n0.0 {L}\\n0.0 {L}\\nITEM: ATOMS id type x y z vx vy vz id\\n"
    out += f"1 1 1.0 1.0 1.0 0.0 0.0 0.0 1\\n2 1 {1.5 + k} 1.0 1.0 0.0 0.0 0.0 2\\n"
open(name + ".lammpstrj", "w").write(out)
open("log.lammps", "w").write("Step KinEng PotEng\\n0 0.0 0.0\\n1 0.0 0.0\\n2 0.0 0.0\\nLoop time of 1\\n")
''')
os.chmod(stub, 0o755)
os.chdir(work)
from infretis.classes.engines.lammps import LAMMPSEngine
from infretis.classes.orderparameter import OrderParameter
from infretis.classes.path import Path
from infretis.classes.system import System
from infretis.classes.formatter import FileIO, OutputFormatter

class BoxOrder(OrderParameter):
    def calculate(self, system):
        return [float(system.box[0])]

eng = LAMMPSEngine(f"/venv/bin/python {stub}", inp, 0.5, 1, 300, exe_path=work, sleep=0.3)
eng.exe_dir = work
eng.rgen = np.random.default_rng(0)
eng.order_function = BoxOrder()
system = System(); system.config = (os.path.join(inp, "conf.lammpstrj"), 0); system.vel_rev = False
path = Path(maxlen=10)
msg = FileIO(os.path.join(work, "msg.txt"), "w", OutputFormatter("MSG"), backup=False); msg.open()
ens = {"interfaces": (-1e9, 0.0, 1e9)}
eng._propagate_from("demo", path, system, ens, msg, reverse=False)
orders = [p.order[0] for p in path.phasepoints]
print("box used for frames 0,1,2:", orders)
shutil.rmtree(work)
ok = orders == [10.0, 11.0, 12.0]
print("OK" if ok else "WRONG PAIRING")
sys.exit(0 if ok else 1)
