"""F18.1 (C18): an interface cap that leaves a wire-fencing ensemble no room
(cap <= that ensemble's interface) must be rejected.  Triage evidence only."""
import importlib.util, glob, sys, tomli
from infretis.setup import check_config, TOMLConfigError
cfg = {"simulation": {"interfaces": [0.0, 1.0, 2.0, 3.0], "shooting_moves": ["sh", "sh", "wf", "wf"],
                      "ensemble_engines": [["engine"]] * 4, "tis_set": {"interface_cap": 1.5}},
       "runner": {"workers": 1}, "engine": {"class": "turtlemd"}}
ok = False
try:
    check_config(cfg)
    print("accepted cap 1.5 although the wf ensemble at interface 2.0 has no room")
except TOMLConfigError as exc:
    print("rejected:", exc); ok = True
# every example configuration shipped with the repository must still be accepted
for t in sorted(glob.glob("/repo/examples/**/infretis*.toml", recursive=True)):
    c = tomli.load(open(t, "rb"))
    c["simulation"].setdefault("ensemble_engines", [["engine"]] * len(c["simulation"]["interfaces"]))
    try:
        check_config(c)
    except TOMLConfigError as exc:
        if "not defined" in str(exc):
            continue
        print("example rejected:", t, exc); ok = False
    except Exception:
        pass
print("PASS" if ok else "FAIL"); sys.exit(0 if ok else 1)
