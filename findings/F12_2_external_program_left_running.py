"""F12.2 (C12): 'the external program is stopped when propagation ends'.
A stub `lmp` writes one frame and then keeps running (sleeps).  The order
parameter raises on that frame, so the exception leaves the polling loop of
LAMMPSEngine._propagate_from.  The stub must have been terminated.
Triage evidence only - not part of any check."""
import importlib.util, os, shutil, signal, sys, tempfile, time
import numpy as np
work = tempfile.mkdtemp()
inp = os.path.join(work, "lammps_input")
shutil.copytree("/repo/examples/lammps/H2/lammps_input", inp)
stub = os.path.join(work, "fake_lmp.py")
pidfile = os.path.join(work, "stub.pid")
open(stub, "w").write(f'''#!/venv/bin/python
import os, sys, time
open({pidfile!r}, "w").write(str(os.getpid()))
run = sys.argv[sys.argv.index("-i") + 1]
name = [l.split()[3] for l in open(run) if l.split()[:2] == ["variable", "name"]][0]
out = "ITEM: TIMESTEP\\n0\\nITEM: NUMBER OF ATOMS\\n2\\nITEM: BOX BOUNDS pp pp pp\\n0.0 10.0\\n0.0 10.0\\n0.0 10.0\\nITEM: ATOMS id type x y z vx vy vz id\\n"
out += "1 1 1.0 1.0 1.0 0.0 0.0 0.0 1\\n2 1 1.5 1.0 1.0 0.0 0.0 0.0 2\\n"
open(name + ".lammpstrj", "w").write(out)
time.sleep(60)
''')
os.chdir(work)
from infretis.classes.engines.lammps import LAMMPSEngine
from infretis.classes.orderparameter import OrderParameter
from infretis.classes.path import Path
from infretis.classes.system import System
from infretis.classes.formatter import FileIO, OutputFormatter
class Boom(OrderParameter):
    calls = 0
    def calculate(self, system):
        Boom.calls += 1
        if Boom.calls > 1:
            raise ValueError("order parameter failed on a frame")
        return [0.0]
eng = LAMMPSEngine(f"/venv/bin/python {stub}", inp, 0.5, 1, 300, exe_path=work, sleep=0.2)
eng.exe_dir = work; eng.rgen = np.random.default_rng(0); eng.order_function = Boom()
system = System(); system.config = (os.path.join(inp, "conf.lammpstrj"), 0); system.vel_rev = False
msg = FileIO(os.path.join(work, "msg.txt"), "w", OutputFormatter("MSG"), backup=False); msg.open()
try:
    eng._propagate_from("demo", Path(maxlen=10), system, {"interfaces": (-9.0, 0.0, 9.0)}, msg, reverse=False)
    print("no exception?")
except ValueError as exc:
    print("propagation ended by:", exc)
time.sleep(0.5)
pid = int(open(pidfile).read())
alive = True
try:
    os.kill(pid, 0)
except ProcessLookupError:
    alive = False
if alive:
    os.killpg(os.getpgid(pid), signal.SIGKILL)
shutil.rmtree(work, ignore_errors=True)
print("external program still running after propagation ended:", alive)
print("FAIL" if alive else "PASS"); sys.exit(1 if alive else 0)
