"""D10 (C08): a job re-issued after a restart must stay in the in-flight
record until it completes.

2 workers on the TurtleMD double well, driven synchronously: start two jobs,
complete one (restart.toml now records the other as in flight), 'crash',
restart from disk (the in-flight job is re-issued, a second fresh job is
picked), complete the *fresh* job.  restart.toml must still list the
re-issued job, otherwise a second crash loses it.
Triage evidence only - not part of any check."""
import copy, importlib.util, os, shutil, sys, tempfile
import tomli, tomli_w
REPO = "/repo"
work = tempfile.mkdtemp()
shutil.copytree(f"{REPO}/examples/turtlemd/double_well/load_copy", work + "/load")
shutil.copy(f"{REPO}/examples/turtlemd/double_well/orderp.py", work)
cfg = tomli.load(open(f"{REPO}/test/simulations/data/wf.toml", "rb"))
cfg["runner"]["workers"] = 2
cfg["simulation"]["steps"] = 50
cfg["output"]["screen"] = 0
cfg["output"]["pattern"] = 0
tomli_w.dump(cfg, open(work + "/infretis.toml", "wb"))
os.chdir(work)
from infretis.setup import setup_config, setup_internal
from infretis.core.tis import run_md

def start(inp):
    config = setup_config(inp)
    md_items, state = setup_internal(config)
    jobs = []
    while state.initiate():
        jobs.append(state.prep_md_items(copy.deepcopy(md_items)))
    return state, jobs

state, jobs = start("infretis.toml")
assert state.loop()
state.treat_output(run_md(jobs[0]))          # job 0 completes, job 1 still running
rc = tomli.load(open("restart.toml", "rb"))
inflight = rc["current"]["locked"]
print("run 1: in flight at the commit:", inflight)
# crash.  restart:
state, jobs = start("restart.toml")
reissued = [j for j in jobs if sorted(str(p) for p in j["pnum_old"]) == sorted(inflight[0][1])]
fresh = [j for j in jobs if j not in reissued]
print("run 2: re-issued", [(list(j["picked"]), j["pnum_old"]) for j in reissued],
      "fresh", [(list(j["picked"]), j["pnum_old"]) for j in fresh])
assert state.loop()
state.treat_output(run_md(fresh[0]))         # the fresh job completes first
rc2 = tomli.load(open("restart.toml", "rb"))
print("run 2: in flight at the next commit:", rc2["current"]["locked"])
ok = any(sorted(l[1]) == sorted(inflight[0][1]) for l in rc2["current"]["locked"])
shutil.rmtree(work)
print("OK: re-issued job still recorded" if ok else "LOST: the running re-issued job is not in restart.toml")
sys.exit(0 if ok else 1)
