"""F18.3 (C18/C11): quantis together with lambda_minus_one must be rejected -
also when lambda_minus_one is 0.0 (a legal value below a positive first
interface).  Triage evidence only."""
import importlib.util, sys
from infretis.setup import check_config, TOMLConfigError
cfg = {"simulation": {"interfaces": [0.5, 1.0], "shooting_moves": ["sh", "sh"], "ensemble_engines": [["engine"], ["engine"]],
                      "tis_set": {"quantis": True, "lambda_minus_one": 0.0}}, "runner": {"workers": 1}, "engine": {"class": "turtlemd"}}
try:
    check_config(cfg)
except TOMLConfigError as exc:
    print("rejected:", exc); print("PASS"); sys.exit(0)
print("accepted quantis with lambda_minus_one = 0.0"); print("FAIL"); sys.exit(1)
