"""F18.4 (C18): interfaces = [] together with lambda_minus_one.

Before /repo commit 4a1e4aa check_config evaluated `intf[0]` (lambda_minus_one clause) before the
clause "Define at least 2 interfaces!": the configuration below died with a bare IndexError inside
the validator. After the fix it is rejected with TOMLConfigError.
Run: cd /tmp && /venv/bin/python /verif/findings/F18_4_empty_interfaces.py
"""
import importlib.util  # noqa: F401  (infretis.core.core uses importlib.util without importing it)

from infretis.setup import TOMLConfigError, check_config

cfg = {
    "simulation": {"interfaces": [], "shooting_moves": ["sh"], "tis_set": {"lambda_minus_one": -0.5},
                   "ensemble_engines": [["engine"]]},
    "runner": {"workers": 1},
    "engine": {"class": "turtlemd"},
}
try:
    check_config(cfg)
    print("FAIL: accepted")
except TOMLConfigError as exc:
    print("PASS: TOMLConfigError:", exc)
except Exception as exc:  # pre-fix behaviour
    print("FAIL: bare", type(exc).__name__, exc)
    raise SystemExit(1)
