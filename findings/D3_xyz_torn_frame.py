"""D3 (C13): the CP2K xyz on-the-fly reader must not return a torn frame.
A two-atom frame is written; the file is then cut 5 bytes before its end
(inside the last number).  The reader must return no frame (and not advance),
and after the rest is written, exactly the written values.
Triage evidence only - not part of any check."""
import importlib.util, os, sys, tempfile
from infretis.classes.engines.engineparts import ReadAndProcessOnTheFly, xyz_reader

full = "2\ncomment\nH 1.0 2.0 3.0\nH 4.0 5.0 6.123456\n"
d = tempfile.mkdtemp(); fn = os.path.join(d, "pos.xyz")
open(fn, "w").write(full[:-5])
r = ReadAndProcessOnTheFly(fn, xyz_reader)
first = r.read_and_process_content()
open(fn, "w").write(full)
second = r.read_and_process_content()
print("partial file ->", [f.tolist() for f in first], "position", r.current_position)
print("complete file ->", [f.tolist() for f in second])
frames = [f.tolist() for f in first + second]
ok = frames == [[[1.0, 2.0, 3.0], [4.0, 5.0, 6.123456]]]
print("OK" if ok else "TORN FRAME RETURNED")
sys.exit(0 if ok else 1)
