"""D9 (C20): periodic order parameters must accept the 9-component box that
GROMACS/CP2K produce.  Distance does; Distancevel must give the same.
Triage evidence only."""
import importlib.util, sys
import numpy as np
from infretis.classes.orderparameter import Distancevel
from infretis.classes.system import System
s = System()
s.pos = np.array([[0.5, 0.0, 0.0], [9.7, 0.0, 0.0]]); s.vel = np.array([[0.1, 0, 0], [-0.2, 0, 0]])
op = Distancevel((0, 1), periodic=True)
s.box = np.array([10.0, 10.0, 10.0]); a = op.calculate(s)
s.box = np.array([10.0, 10.0, 10.0, 0, 0, 0, 0, 0, 0])
try:
    b = op.calculate(s)
except Exception as exc:
    print("9-component box:", type(exc).__name__, exc); print("FAIL"); sys.exit(1)
print(a, b); ok = np.allclose(a, b); print("PASS" if ok else "FAIL"); sys.exit(0 if ok else 1)
