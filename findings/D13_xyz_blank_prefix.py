"""D13 (C13): xyz_reader must not raise on a partial frame.  CP2K writes the
atom count right-aligned ('      12\n'); if the file is seen when only some of
the leading blanks are on disk, the first line has no fields.
Triage evidence only."""
import importlib.util, os, sys, tempfile
from infretis.classes.engines.engineparts import ReadAndProcessOnTheFly, xyz_reader
full = "       2\ncomment\nH 1.0 2.0 3.0\nH 4.0 5.0 6.0\n"
d = tempfile.mkdtemp(); fn = os.path.join(d, "pos.xyz")
r = ReadAndProcessOnTheFly(fn, xyz_reader)
frames = []
try:
    for cut in (3, len(full)):
        open(fn, "w").write(full[:cut])
        frames += r.read_and_process_content()
except Exception as exc:
    print("raised on a partial frame:", type(exc).__name__, exc); print("FAIL"); sys.exit(1)
ok = [f.tolist() for f in frames] == [[[1.0, 2.0, 3.0], [4.0, 5.0, 6.0]]]
print([f.tolist() for f in frames]); print("PASS" if ok else "FAIL"); sys.exit(0 if ok else 1)
