"""D1 (C07/C06): the restored seed sequence must have the configured seed as
entropy.  Prints children of the scheduler stream before / after a restart
for seed 7.  Triage evidence only - not part of any check."""
import importlib.util, os, sys, tempfile
import tomli
from infretis.classes.repex import REPEX_state, spawn_rng

seed = int(sys.argv[1]) if len(sys.argv) > 1 else 7
os.chdir(tempfile.mkdtemp())
st = REPEX_state({"current": {"size": 1, "cstep": 0}, "runner": {"workers": 1},
                  "simulation": {"seed": seed}})
st.write_toml()
a = [spawn_rng(st.rgen).random() for _ in range(3)]
cfg = tomli.load(open("restart.toml", "rb"))
cfg["current"]["restarted_from"] = 0
st2 = REPEX_state(cfg)
b = [spawn_rng(st2.rgen).random() for _ in range(3)]
print("uninterrupted", a)
print("restarted    ", b)
print("EQUAL" if a == b else "DIFFERENT")
sys.exit(0 if a == b else 1)
