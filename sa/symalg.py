"""A very small symbolic algebra for one question: is a minimum-image style expression
w(d, L) invariant under d -> d + k*L (k an integer)?

Static only: expressions are taken from the syntax tree, never evaluated.

Polynomials over atoms with Fraction coefficients:
    poly  = {monomial: coeff},  monomial = tuple(sorted((atom, power)))
    atoms = 'd' (the raw distance), 'L' (box length), 'iL' (1/L), 'k' (integer shift),
            ('fn', name, argpoly_key, argpoly)  for rounding functions / unknown functions
Rewrite rules: L*iL -> 1;  R(x + n*k) -> R(x) + n*k for R in EQUIVARIANT and integer n
(rint / round / floor / ceil commute with integer shifts);  (x + n*k*m) % m -> x % m.

Growth ("asymptotic slope in d") gives a sound refutation: a function of the form
slope*d + bounded with slope != 0 cannot be periodic in d.
"""

from __future__ import annotations

import ast
from fractions import Fraction

EQUIVARIANT = {"rint", "round", "floor", "ceil", "around", "round_"}
BOUNDED = {"copysign", "sign", "sin", "cos", "tanh", "clip", "fmod"}  # |fmod(x, m)| < |m|


def has_fn(p, name):
    """Does the function atom `name` occur in p with an argument that depends on d?"""
    for m in p:
        for a, _ in m:
            if isinstance(a, tuple) and a[0] == "fn":
                args = [_thaw(fa) for fa in a[3]]
                if a[1] == name and any(depends_on_d(x) for x in args):
                    return True
                if any(has_fn(x, name) for x in args):
                    return True
    return False


class Undecidable(Exception):
    pass


def const(c):
    c = Fraction(c)
    return {(): c} if c != 0 else {}


def sym(name):
    return {((name, 1),): Fraction(1)}


def _norm_mono(items):
    d = {}
    for a, p in items:
        d[a] = d.get(a, 0) + p
    # L * iL -> 1
    if "L" in d and "iL" in d:
        m = min(d["L"], d["iL"])
        d["L"] -= m
        d["iL"] -= m
    return tuple(sorted(((a, p) for a, p in d.items() if p != 0), key=lambda x: repr(x[0])))


def add(p, q, sign=1):
    out = dict(p)
    for m, c in q.items():
        v = out.get(m, Fraction(0)) + sign * c
        if v == 0:
            out.pop(m, None)
        else:
            out[m] = v
    return out


def mul(p, q):
    out = {}
    for m1, c1 in p.items():
        for m2, c2 in q.items():
            m = _norm_mono(list(m1) + list(m2))
            v = out.get(m, Fraction(0)) + c1 * c2
            if v == 0:
                out.pop(m, None)
            else:
                out[m] = v
    return out


def key(p):
    return repr(sorted(((repr(m), str(c)) for m, c in p.items())))


def fn_atom(name, args):
    """args: list of polys."""
    return {((("fn", name, tuple(key(a) for a in args), tuple(_freeze(a) for a in args)), 1),): Fraction(1)}


def _freeze(p):
    return tuple(sorted(p.items(), key=lambda x: repr(x)))


def _thaw(fp):
    return dict(fp)


def is_const(p):
    return all(m == () for m in p)


def as_L_power(p):
    """p == c * L^n  ->  (c, n) else None."""
    if len(p) != 1:
        return None
    (m, c), = p.items()
    if all(a == "L" for a, _ in m):
        n = sum(pw for _, pw in m)
        return c, n
    return None


def inverse(p):
    r = as_L_power(p)
    if r is None:
        if is_const(p) and p:
            return const(1 / p[()])
        raise Undecidable("division by an expression that is not c*L^n")
    c, n = r
    out = const(1 / c)
    for _ in range(n):
        out = mul(out, sym("iL"))
    return out


def substitute_shift(p):
    """d -> d + k*L everywhere (also inside function arguments), then normalise."""
    shift = add(sym("d"), mul(sym("k"), sym("L")))
    out = {}
    for m, c in p.items():
        term = const(c)
        for a, pw in m:
            if a == "d":
                base = shift
            elif isinstance(a, tuple) and a[0] == "fn":
                args = [substitute_shift(_thaw(fa)) for fa in a[3]]
                base = apply_fn(a[1], args)
            else:
                base = sym(a)
            for _ in range(pw):
                term = mul(term, base)
        out = add(out, term)
    return out


def _split_integer_shift(p):
    """p = rest + n*k with integer n  ->  (rest, n)."""
    n = Fraction(0)
    rest = {}
    for m, c in p.items():
        if m == (("k", 1),) and c.denominator == 1:
            n += c
        else:
            rest[m] = c
    return rest, n


def apply_fn(name, args):
    if name in EQUIVARIANT and len(args) >= 1:
        rest, n = _split_integer_shift(args[0])
        base = fn_atom(name, [rest] + args[1:])
        if n != 0:
            return add(base, mul(const(n), sym("k")))
        return base
    if name == "mod" and len(args) == 2:
        x, m = args
        # drop terms of x that are integer multiples of k*m
        km = mul(sym("k"), m)
        if len(km) == 1:
            (kmm, kmc), = km.items()
            if kmm in x and (x[kmm] / kmc).denominator == 1:
                x = {a: b for a, b in x.items() if a != kmm}
        return fn_atom("mod", [x, m])
    return fn_atom(name, args)


def slope_in_d(p):
    """Asymptotic slope in d of p as a polynomial in (L, iL) - or raise Undecidable.
    slope(d)=1, slope(R(x))=slope(x) for rounding functions, slope(bounded fn)=0,
    slope(x % m)=0."""
    total = {}
    for m, c in p.items():
        d_pow = 0
        coeff = const(c)
        slopes = []  # factors that depend on d
        for a, pw in m:
            if a == "d":
                d_pow += pw
            elif isinstance(a, tuple) and a[0] == "fn":
                name, args = a[1], [_thaw(fa) for fa in a[3]]
                dep = any(depends_on_d(x) for x in args)
                if not dep:
                    coeff = mul(coeff, {((a, pw),): Fraction(1)})
                    continue
                if pw != 1:
                    raise Undecidable("power of a d-dependent function")
                if name in EQUIVARIANT:
                    slopes.append(slope_in_d(args[0]))
                elif name in BOUNDED or name == "mod":
                    if name == "copysign" and depends_on_d(args[0]):
                        raise Undecidable("copysign with d-dependent magnitude")
                    slopes.append({})
                else:
                    raise Undecidable(f"growth of {name}() unknown")
            elif a == "k":
                raise Undecidable("k in growth analysis")
            else:
                coeff = mul(coeff, {((a, pw),): Fraction(1)})
        if d_pow + len(slopes) == 0:
            continue  # d-free term: slope 0
        if d_pow + len(slopes) > 1:
            raise Undecidable("non-linear in d")
        s = const(1) if d_pow == 1 else slopes[0]
        total = add(total, mul(coeff, s))
    return total


def depends_on_d(p):
    for m in p:
        for a, _ in m:
            if a == "d":
                return True
            if isinstance(a, tuple) and a[0] == "fn" and any(depends_on_d(_thaw(fa)) for fa in a[3]):
                return True
    return False


def zero_rounding(p):
    """Replace every rounding-function atom by 0 (the value it has on |d| < L/2 for R(d/L))."""
    out = {}
    for m, c in p.items():
        if any(isinstance(a, tuple) and a[0] == "fn" and a[1] in EQUIVARIANT for a, _ in m):
            continue
        out[m] = c
    return out


def show(p):
    if not p:
        return "0"
    parts = []
    for m, c in sorted(p.items(), key=lambda x: repr(x)):
        fs = []
        for a, pw in m:
            if isinstance(a, tuple):
                s = f"{a[1]}({', '.join(show(_thaw(x)) for x in a[3])})"
            else:
                s = a
            fs.append(s if pw == 1 else f"{s}^{pw}")
        parts.append((str(c) if not fs or c != 1 else "") + ("*" if fs and c != 1 else "") + "*".join(fs))
    return " + ".join(parts)


def _floored_remainder(x, m):
    """x % m = x - floor(x / m) * m (Python / numpy.mod: result has the sign of the divisor)."""
    try:
        q = mul(x, inverse(m))
    except Undecidable:
        return apply_fn("mod", [x, m])
    return add(x, mul(apply_fn("floor", [q]), m), -1)


class Translator:
    """AST -> poly, given an environment name -> poly (scalars: 'd', 'L', 'iL')."""

    def __init__(self, env):
        self.env = env

    def tr(self, e):
        if isinstance(e, ast.Constant) and isinstance(e.value, (int, float)) and not isinstance(e.value, bool):
            return const(Fraction(str(e.value)))
        if isinstance(e, ast.Name):
            if e.id in self.env:
                return self.env[e.id]
            raise Undecidable(f"name {e.id} is not one of the distance / box-length symbols")
        if isinstance(e, ast.Subscript):
            # V[i] of a vector symbol is that symbol's scalar
            return self.tr(e.value)
        if isinstance(e, ast.UnaryOp) and isinstance(e.op, ast.USub):
            return mul(const(-1), self.tr(e.operand))
        if isinstance(e, ast.UnaryOp) and isinstance(e.op, ast.UAdd):
            return self.tr(e.operand)
        if isinstance(e, ast.BinOp):
            a, b = self.tr(e.left), self.tr(e.right)
            if isinstance(e.op, ast.Add):
                return add(a, b)
            if isinstance(e.op, ast.Sub):
                return add(a, b, -1)
            if isinstance(e.op, ast.Mult):
                return mul(a, b)
            if isinstance(e.op, ast.Div):
                return mul(a, inverse(b))
            if isinstance(e.op, ast.Mod):
                return _floored_remainder(a, b)
            raise Undecidable(f"operator {type(e.op).__name__}")
        if isinstance(e, ast.Call):
            name = e.func.attr if isinstance(e.func, ast.Attribute) else (e.func.id if isinstance(e.func, ast.Name) else None)
            if name is None:
                raise Undecidable("call of a computed function")
            if name in ("mod", "remainder") and len(e.args) == 2:
                return _floored_remainder(self.tr(e.args[0]), self.tr(e.args[1]))
            if name in ("array", "asarray", "float", "float64") and e.args:
                return self.tr(e.args[0])
            if name in ("copy", "astype") and isinstance(e.func, ast.Attribute):
                return self.tr(e.func.value)
            args = [self.tr(a) for a in e.args]
            return apply_fn(name, args)
        raise Undecidable(f"expression form {type(e).__name__}")
