"""Statement-level control-flow graph with branch nodes, dominators, queries.

Node kinds
  entry, exit (normal return / fall off the end), raise (exceptional exit)
  stmt        a simple statement (ast = the statement)
  test        evaluation of an if/while/assert condition (ast = the expression)
  branch      a taken edge of a test: carries `facts` = [(expr, truth)] known
              to hold when control passes through it
  loop        head of a for loop (ast = the For statement)
  with        evaluation of the with-items (ast = the With statement)
  withexit    leaving a with block (normal or exceptional copy)
  except      entry of an exception handler (ast = the ExceptHandler)

Exception edges (label 'exc'): from every statement inside a `try` body that
can raise (contains a call, subscript, attribute, await, raise or assert) to
the handlers of the innermost try (and outward when no catch-all handler
exists).  With may_raise=True, the same kind of statement outside any try
gets an edge to the raise exit.  `finally` bodies are copied per way of
leaving (normal, exception, return, break, continue).
"""

from __future__ import annotations

import ast

from .loader import FUNC, AnalysisError


class N:
    __slots__ = ("id", "kind", "ast", "facts", "owner", "copy")

    def __init__(self, id_, kind, node=None, facts=None, owner=None, copy=""):
        self.id = id_
        self.kind = kind
        self.ast = node
        self.facts = facts or []
        self.owner = owner
        self.copy = copy

    @property
    def line(self):
        return getattr(self.ast, "lineno", 0) if self.ast is not None else 0

    def __repr__(self):
        return f"<{self.id}:{self.kind}@{self.line}>"


def facts_of(test, taken):
    """Atomic facts implied by `test` evaluating to `taken`."""
    if isinstance(test, ast.UnaryOp) and isinstance(test.op, ast.Not):
        return facts_of(test.operand, not taken)
    if isinstance(test, ast.BoolOp):
        if isinstance(test.op, ast.And) and taken:
            return [f for v in test.values for f in facts_of(v, True)]
        if isinstance(test.op, ast.Or) and not taken:
            return [f for v in test.values for f in facts_of(v, False)]
    return [(test, taken)]


_CATCH_ALL = {"Exception", "BaseException"}


def _is_logging_stmt(node) -> bool:
    """logger.<level>(...) / logging.<level>(...) / print(...) as a statement: observability only.
    It is modelled as not raising, so that adding or removing a log line inside a try block does
    not change the exception paths the rules see."""
    if not (isinstance(node, ast.Expr) and isinstance(node.value, ast.Call)):
        return False
    f = node.value.func
    if isinstance(f, ast.Name) and f.id == "print":
        return True
    if isinstance(f, ast.Attribute) and f.attr in ("debug", "info", "warning", "error", "critical", "exception", "log"):
        base = f.value
        while isinstance(base, ast.Attribute):
            base = base.value
        return isinstance(base, ast.Name) and base.id in ("logger", "logging", "log", "LOGGER")
    return False


def _can_raise(node) -> bool:
    if isinstance(node, (ast.Raise, ast.Assert)):
        return True
    if _is_logging_stmt(node):
        return False
    for n in ast.walk(node):
        if isinstance(n, (ast.Call, ast.Subscript, ast.Await, ast.Attribute, ast.BinOp, ast.Yield, ast.YieldFrom)):
            return True
    return False


class _Ctx:
    def __init__(self):
        self.loops = []  # (continue_target_id, break_collector, finally_depth)
        self.trys = []  # list of dict(handlers=[N], catch_all=bool, fin=finalbody or None)
        self.fins = []  # pending finally bodies (outermost first)


class CFG:
    def __init__(self, func, may_raise=False):
        self.func = func
        self.may_raise = may_raise
        self.nodes: list[N] = []
        self.succ: dict[int, list] = {}
        self.pred: dict[int, list] = {}
        self.at: dict[int, list] = {}
        self.entry = self._new("entry")
        self.exit = self._new("exit")
        self.raise_ = self._new("raise")
        ctx = _Ctx()
        ends = self._block(func.body, [self.entry.id], ctx)
        for e in ends:
            self._edge(e, self.exit.id)
        self._dom = None
        self._pdom = None

    # ----------------------------------------------------------- construction
    def _new(self, kind, node=None, facts=None, owner=None, copy=""):
        n = N(len(self.nodes), kind, node, facts, owner, copy)
        self.nodes.append(n)
        self.succ[n.id] = []
        self.pred[n.id] = []
        if node is not None:
            self.at.setdefault(id(node), []).append(n)
        return n

    def _edge(self, a, b, label=""):
        if (b, label) not in self.succ[a]:
            self.succ[a].append((b, label))
            self.pred[b].append((a, label))

    def _exc_targets(self, ctx, from_handler_depth=None):
        """Where an exception raised at the current point may go."""
        targets = []
        depth = len(ctx.trys) if from_handler_depth is None else from_handler_depth
        i = depth - 1
        while i >= 0:
            t = ctx.trys[i]
            if t.get("in_handlers"):
                # raising inside a handler/finally of this try: skip its handlers
                if t["fin"] is not None and not t.get("in_finally"):
                    targets.append(("fin", i))
                    return targets
                i -= 1
                continue
            for h in t["handlers"]:
                targets.append(("h", h))
            if t["catch_all"]:
                return targets
            if t["fin"] is not None:
                targets.append(("fin", i))
                return targets
            i -= 1
        targets.append(("raise", None))
        return targets

    def _raise_from(self, nid, ctx):
        for kind, tgt in self._exc_targets(ctx):
            if kind == "h":
                self._edge(nid, tgt.id, "exc")
            elif kind == "raise":
                self._edge(nid, self.raise_.id, "exc")
            else:  # unwinding through a finally: copy it, then continue outward
                t = ctx.trys[tgt]
                saved = ctx.trys
                ctx.trys = saved[:tgt] + [dict(t, in_handlers=True, in_finally=True)]
                ends = self._block(t["fin"], [nid], ctx, copy="exc", first_label="exc")
                for e in ends:
                    self._raise_from_outer(e, ctx, tgt)
                ctx.trys = saved

    def _raise_from_outer(self, nid, ctx, depth):
        saved = ctx.trys
        ctx.trys = saved[:depth]
        self._raise_from(nid, ctx)
        ctx.trys = saved

    def _maybe_exc(self, n, ctx):
        if n.ast is None:
            return
        in_try = any(not t.get("in_handlers") for t in ctx.trys) or any(
            t["fin"] is not None and not t.get("in_finally") for t in ctx.trys
        )
        if (in_try or self.may_raise) and _can_raise(n.ast):
            self._raise_from(n.id, ctx)

    def _run_finallies(self, preds, ctx, upto, copy):
        """Copy pending finally bodies (innermost first) down to depth `upto`."""
        cur = preds
        for i in range(len(ctx.trys) - 1, upto - 1, -1):
            t = ctx.trys[i]
            if t["fin"] is not None and not t.get("in_finally"):
                saved = ctx.trys
                ctx.trys = saved[:i] + [dict(t, in_handlers=True, in_finally=True)]
                cur = self._block(t["fin"], cur, ctx, copy=copy)
                ctx.trys = saved
        return cur

    def _block(self, stmts, preds, ctx, copy="", first_label=""):
        cur = list(preds)
        label = first_label
        for st in stmts:
            if not cur:
                break  # unreachable code after return/raise/break
            cur = self._stmt(st, cur, ctx, copy, label)
            label = ""
        return cur

    def _connect(self, preds, n, label=""):
        for p in preds:
            if isinstance(p, tuple):
                self._edge(p[0], n.id, p[1])
            else:
                self._edge(p, n.id, label)

    def _test(self, expr, owner, preds, ctx, copy, label=""):
        t = self._new("test", expr, owner=owner, copy=copy)
        self._connect(preds, t, label)
        self._maybe_exc(t, ctx)
        bt = self._new("branch", expr, facts_of(expr, True), owner=owner, copy=copy)
        bf = self._new("branch", expr, facts_of(expr, False), owner=owner, copy=copy)
        # do not register branch nodes under the expression
        self.at[id(expr)] = [x for x in self.at[id(expr)] if x.kind == "test"]
        const = None
        if isinstance(expr, ast.Constant):
            const = bool(expr.value)
        if const is not False:
            self._edge(t.id, bt.id, "T")
        if const is not True:
            self._edge(t.id, bf.id, "F")
        return t, bt, bf

    def _stmt(self, st, preds, ctx, copy, label=""):
        if isinstance(st, ast.If):
            t, bt, bf = self._test(st.test, st, preds, ctx, copy, label)
            a = self._block(st.body, [bt.id], ctx, copy)
            b = self._block(st.orelse, [bf.id], ctx, copy) if st.orelse else [bf.id]
            return a + b
        if isinstance(st, ast.While):
            t, bt, bf = self._test(st.test, st, preds, ctx, copy, label)
            breaks = []
            ctx.loops.append((t.id, breaks, len(ctx.trys)))
            body_end = self._block(st.body, [bt.id], ctx, copy)
            ctx.loops.pop()
            for e in body_end:
                self._edge(e, t.id)
            after = self._block(st.orelse, [bf.id], ctx, copy) if st.orelse else [bf.id]
            return after + breaks
        if isinstance(st, (ast.For, ast.AsyncFor)):
            h = self._new("loop", st, copy=copy)
            self._connect(preds, h, label)
            self._maybe_exc(h, ctx)
            bt = self._new("branch", None, owner=st, copy=copy)
            bf = self._new("branch", None, owner=st, copy=copy)
            self._edge(h.id, bt.id, "T")
            self._edge(h.id, bf.id, "F")
            breaks = []
            ctx.loops.append((h.id, breaks, len(ctx.trys)))
            body_end = self._block(st.body, [bt.id], ctx, copy)
            ctx.loops.pop()
            for e in body_end:
                self._edge(e, h.id)
            after = self._block(st.orelse, [bf.id], ctx, copy) if st.orelse else [bf.id]
            return after + breaks
        if isinstance(st, (ast.With, ast.AsyncWith)):
            w = self._new("with", st, copy=copy)
            self._connect(preds, w, label)
            self._maybe_exc(w, ctx)
            # model __exit__ as a finally-like block without statements
            ctx.trys.append({"handlers": [], "catch_all": False, "fin": [], "with": st})
            body_end = self._block(st.body, [w.id], ctx, copy)
            ctx.trys.pop()
            x = self._new("withexit", None, owner=st, copy=copy)
            for e in body_end:
                self._edge(e, x.id)
            return [x.id] if body_end else []
        if isinstance(st, ast.Try) or st.__class__.__name__ == "TryStar":
            handlers = [self._new("except", h, copy=copy) for h in st.handlers]
            catch_all = False
            for h in st.handlers:
                if h.type is None:
                    catch_all = True
                else:
                    names = [h.type] if not isinstance(h.type, ast.Tuple) else h.type.elts
                    for nm in names:
                        nn = nm.attr if isinstance(nm, ast.Attribute) else getattr(nm, "id", "")
                        if nn in _CATCH_ALL:
                            catch_all = True
            fin = st.finalbody if st.finalbody else None
            rec = {"handlers": handlers, "catch_all": catch_all, "fin": fin}
            ctx.trys.append(rec)
            body_end = self._block(st.body, preds, ctx, copy, label)
            # else-clause runs outside the protection of the handlers
            rec2 = dict(rec, in_handlers=True)
            ctx.trys[-1] = rec2
            if st.orelse:
                body_end = self._block(st.orelse, body_end, ctx, copy)
            ends = list(body_end)
            for hn, h in zip(handlers, st.handlers):
                ends += self._block(h.body, [hn.id], ctx, copy)
            ctx.trys.pop()
            if fin is not None:
                ctx.trys.append(dict(rec, in_handlers=True, in_finally=True))
                ends = self._block(fin, ends, ctx, copy=copy or "normal") if ends else []
                ctx.trys.pop()
            return ends
        # ------------------------------------------------ simple statements
        if isinstance(st, ast.Assert):
            t, bt, bf = self._test(st.test, st, preds, ctx, copy, label)
            r = self._new("stmt", st, copy=copy)  # the raise of AssertionError
            self.at[id(st)] = []  # the Assert statement itself maps to its test
            self.at[id(st)].append(t)
            self._edge(bf.id, r.id)
            self._raise_from(r.id, ctx)
            return [bt.id]
        n = self._new("stmt", st, copy=copy)
        self._connect(preds, n, label)
        if isinstance(st, ast.Return):
            self._maybe_exc(n, ctx)
            ends = self._run_finallies([n.id], ctx, 0, "return")
            for e in ends:
                self._edge(e, self.exit.id)
            return []
        if isinstance(st, ast.Raise):
            self._raise_from(n.id, ctx)
            return []
        if isinstance(st, ast.Break):
            if not ctx.loops:
                raise AnalysisError("break outside loop")
            tgt, breaks, depth = ctx.loops[-1]
            ends = self._run_finallies([n.id], ctx, depth, "break")
            breaks.extend(ends)
            return []
        if isinstance(st, ast.Continue):
            tgt, breaks, depth = ctx.loops[-1]
            ends = self._run_finallies([n.id], ctx, depth, "continue")
            for e in ends:
                self._edge(e, tgt)
            return []
        self._maybe_exc(n, ctx)
        return [n.id]

    # ---------------------------------------------------------------- lookup
    def nodes_of(self, node):
        """CFG nodes in which `node` (statement or sub-expression) is evaluated."""
        n = node
        while n is not None:
            got = self.at.get(id(n))
            if got:
                return got
            if n is self.func:
                break
            n = getattr(n, "_parent", None)
        return []

    def node_of(self, node):
        got = self.nodes_of(node)
        if not got:
            raise AnalysisError(
                f"no CFG node for {ast.dump(node)[:60]} (unreachable code?)"
            )
        return got[0]

    # ------------------------------------------------------------ dominators
    def _compute_dom(self, start, succ, pred):
        ids = [n.id for n in self.nodes]
        reach = set()
        todo = [start]
        while todo:
            x = todo.pop()
            if x in reach:
                continue
            reach.add(x)
            todo.extend(s for s, _ in succ[x])
        full = set(reach)
        dom = {i: set(full) for i in reach}
        dom[start] = {start}
        changed = True
        order = sorted(reach)
        while changed:
            changed = False
            for i in order:
                if i == start:
                    continue
                ps = [p for p, _ in pred[i] if p in reach]
                if not ps:
                    continue
                new = set.intersection(*(dom[p] for p in ps)) | {i}
                if new != dom[i]:
                    dom[i] = new
                    changed = True
        return dom

    @property
    def dom(self):
        if self._dom is None:
            self._dom = self._compute_dom(self.entry.id, self.succ, self.pred)
        return self._dom

    @property
    def pdom(self):
        """Post-dominators with respect to the normal exit."""
        if self._pdom is None:
            self._pdom = self._compute_dom(self.exit.id, self.pred, self.succ)
        return self._pdom

    def dominates(self, a: N, b: N) -> bool:
        return b.id in self.dom and a.id in self.dom[b.id]

    def postdominates(self, a: N, b: N) -> bool:
        """a is on every path from b to the normal exit."""
        return b.id in self.pdom and a.id in self.pdom[b.id]

    def reachable(self, a: N, avoid=(), labels_excluded=()):
        """Nodes reachable from a (excluding a unless on a cycle)."""
        avoid = {x.id if isinstance(x, N) else x for x in avoid}
        seen = set()
        todo = [s for s, l in self.succ[a.id] if l not in labels_excluded]
        while todo:
            x = todo.pop()
            if x in seen or x in avoid:
                continue
            seen.add(x)
            todo.extend(s for s, l in self.succ[x] if l not in labels_excluded)
        return seen

    def reaches(self, a: N, b: N, avoid=(), labels_excluded=()) -> bool:
        return b.id in self.reachable(a, avoid, labels_excluded)

    def is_reachable(self, n: N) -> bool:
        return n.id in self.dom

    def guards(self, n: N):
        """Facts (expr, truth, branch node) of every branch node dominating n."""
        out = []
        if n.id not in self.dom:
            return out
        for d in sorted(self.dom[n.id]):
            dn = self.nodes[d]
            if dn.kind == "branch" and dn.id != n.id:
                for e, t in dn.facts:
                    out.append((e, t, dn))
        return out

    def path(self, a: N, b: N, avoid=()):
        """One shortest path a..b (list of nodes) avoiding nodes, or None."""
        avoid = {x.id if isinstance(x, N) else x for x in avoid}
        prev = {a.id: None}
        todo = [a.id]
        while todo:
            x = todo.pop(0)
            if x == b.id and x != a.id:
                break
            for s, _ in self.succ[x]:
                if s in prev or s in avoid:
                    continue
                prev[s] = x
                todo.append(s)
        if b.id not in prev:
            return None
        out = []
        x = b.id
        while x is not None:
            out.append(self.nodes[x])
            x = prev[x]
        return list(reversed(out))

    def describe_path(self, p):
        return " -> ".join(
            f"{n.kind}@{n.line}" for n in p if n.kind not in ("branch", "withexit") or True
        )

    def in_loop(self, n: N) -> bool:
        return n.id in self.reachable(n)


_cache: dict = {}


def cfg_of(func, may_raise=False) -> CFG:
    key = (id(func), may_raise)
    if key not in _cache:
        _cache[key] = (func, CFG(func, may_raise))
    return _cache[key][1]
