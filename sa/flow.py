"""Access paths, reaching definitions and provenance queries on a CFG.

An *access path* is a name followed by attribute reads and constant
subscripts: ``self.locked``, ``md_items['picked']``, ``cfg['a']['b']``.
A definition of path p kills p and every path that extends p.
Aliasing between different roots is not modelled (rules that need it say so).
"""

from __future__ import annotations

import ast
from dataclasses import dataclass

from .cfg import CFG, N, cfg_of
from .loader import FUNC, walk_local


def path_of(e):
    """Access path string of an expression, or None."""
    if isinstance(e, ast.Name):
        return e.id
    if isinstance(e, ast.Attribute):
        b = path_of(e.value)
        return None if b is None else f"{b}.{e.attr}"
    if isinstance(e, ast.Subscript):
        b = path_of(e.value)
        if b is None:
            return None
        k = e.slice
        if isinstance(k, ast.Constant) and isinstance(k.value, (str, int)):
            return f"{b}[{k.value!r}]"
        if (
            isinstance(k, ast.UnaryOp)
            and isinstance(k.op, ast.USub)
            and isinstance(k.operand, ast.Constant)
        ):
            return f"{b}[{-k.operand.value!r}]"
        return None
    if isinstance(e, ast.Starred):
        return path_of(e.value)
    return None


def root_of(e):
    while isinstance(e, (ast.Attribute, ast.Subscript, ast.Starred)):
        e = e.value
    if isinstance(e, ast.Call):
        return root_of(e.func)
    return e.id if isinstance(e, ast.Name) else None


def extends(q: str, p: str) -> bool:
    """q == p or q is p followed by .attr / [key]."""
    return q == p or (q.startswith(p) and q[len(p)] in ".[")


@dataclass
class Def:
    id: int
    path: str
    at: N
    value: object  # ast expr or None
    kind: str  # assign, aug, param, iter, unpack, with, except, import, del, walrus, def
    index: tuple = ()
    stmt: object = None

    def __hash__(self):
        return self.id

    def __eq__(self, o):
        return isinstance(o, Def) and o.id == self.id


MUTATORS = {
    "append", "extend", "insert", "pop", "remove", "clear", "update",
    "setdefault", "popitem", "sort", "reverse", "fill", "add", "discard",
    "popleft", "appendleft", "resize", "put", "itemset",
}


class Flow:
    def __init__(self, func, may_raise=False):
        self.func = func
        self.cfg: CFG = cfg_of(func, may_raise)
        self.defs: list[Def] = []
        self.gen: dict[int, list[Def]] = {}
        self._collect()
        self._solve()

    # ------------------------------------------------------------- collect
    def _add(self, n: N, path, value, kind, index=(), stmt=None):
        if path is None:
            return
        d = Def(len(self.defs), path, n, value, kind, index, stmt)
        self.defs.append(d)
        self.gen.setdefault(n.id, []).append(d)

    def _target(self, n, tgt, value, kind, index=(), stmt=None):
        if isinstance(tgt, (ast.Tuple, ast.List)):
            if (
                isinstance(value, (ast.Tuple, ast.List))
                and len(value.elts) == len(tgt.elts)
                and not any(isinstance(x, ast.Starred) for x in tgt.elts)
                and kind == "assign"
            ):
                for t, v in zip(tgt.elts, value.elts):
                    self._target(n, t, v, kind, index, stmt)
            else:
                for i, t in enumerate(tgt.elts):
                    k = "unpack" if kind in ("assign", "unpack") else kind
                    self._target(n, t, value, k, index + (i,), stmt)
            return
        if isinstance(tgt, ast.Starred):
            tgt = tgt.value
        p = path_of(tgt)
        if p is None and isinstance(tgt, ast.Subscript):
            # store through a non-constant subscript: weak def of the base[*]
            b = path_of(tgt.value)
            if b is not None:
                self._add(n, b + "[*]", value, kind if kind != "assign" else "item", index, stmt)
            return
        self._add(n, p, value, kind, index, stmt)

    def _collect(self):
        f = self.func
        args = f.args
        allargs = args.posonlyargs + args.args + args.kwonlyargs
        if args.vararg:
            allargs = allargs + [args.vararg]
        if args.kwarg:
            allargs = allargs + [args.kwarg]
        for a in allargs:
            self._add(self.cfg.entry, a.arg, a, "param")
        for n in self.cfg.nodes:
            st = n.ast
            if st is None:
                continue
            if n.kind == "stmt":
                if isinstance(st, ast.Assign):
                    for t in st.targets:
                        self._target(n, t, st.value, "assign", stmt=st)
                elif isinstance(st, ast.AnnAssign) and st.value is not None:
                    self._target(n, st.target, st.value, "assign", stmt=st)
                elif isinstance(st, ast.AugAssign):
                    self._target(n, st.target, st, "aug", stmt=st)
                elif isinstance(st, ast.Delete):
                    for t in st.targets:
                        self._target(n, t, None, "del", stmt=st)
                elif isinstance(st, (ast.Import, ast.ImportFrom)):
                    for al in st.names:
                        self._add(n, (al.asname or al.name).split(".")[0], None, "import", stmt=st)
                elif isinstance(st, FUNC + (ast.ClassDef,)):
                    self._add(n, st.name, None, "def", stmt=st)
            elif n.kind == "loop":
                self._target(n, st.target, st.iter, "iter", stmt=st)
            elif n.kind == "with":
                for it in st.items:
                    if it.optional_vars is not None:
                        self._target(n, it.optional_vars, it.context_expr, "with", stmt=st)
            elif n.kind == "except":
                if st.name:
                    self._add(n, st.name, st.type, "except", stmt=st)
            # walrus anywhere in the node's expression
            if n.kind in ("stmt", "test", "loop", "with"):
                for sub in walk_local(st) if not isinstance(st, FUNC) else []:
                    if isinstance(sub, ast.NamedExpr):
                        self._add(n, sub.target.id, sub.value, "walrus", stmt=st)

    # --------------------------------------------------------------- solve
    def _solve(self):
        cfg = self.cfg
        IN = {n.id: {} for n in cfg.nodes}
        OUT = {n.id: {} for n in cfg.nodes}

        def transfer(nid, state):
            gens = self.gen.get(nid)
            if not gens:
                return state
            out = dict(state)
            for d in gens:
                if d.path.endswith("[*]") or d.kind == "aug" and False:
                    out[d.path] = out.get(d.path, frozenset()) | {d.id}
                    continue
                for q in [q for q in out if extends(q, d.path)]:
                    del out[q]
                out[d.path] = frozenset({d.id})
            return out

        work = [n.id for n in cfg.nodes]
        OUT[cfg.entry.id] = transfer(cfg.entry.id, {})
        inwork = set(work)
        while work:
            nid = work.pop(0)
            inwork.discard(nid)
            preds = [p for p, _ in cfg.pred[nid]]
            if preds:
                merged: dict = {}
                keys = set()
                for p in preds:
                    keys.update(OUT[p])
                for k in keys:
                    acc = frozenset()
                    for p in preds:
                        st = OUT[p]
                        if k in st:
                            acc |= st[k]
                        elif not k.endswith("[*]"):
                            # this predecessor defines only a prefix of k (the
                            # object was rebound on that path): keep those defs
                            q = k
                            while True:
                                cut = max(q.rfind("."), q.rfind("["))
                                if cut <= 0:
                                    break
                                q = q[:cut]
                                if q in st:
                                    acc |= st[q]
                                    break
                    merged[k] = acc
                IN[nid] = merged
            new = transfer(nid, IN[nid])
            if new != OUT[nid]:
                OUT[nid] = new
                for s, _ in cfg.succ[nid]:
                    if s not in inwork:
                        work.append(s)
                        inwork.add(s)
        self.IN = IN
        self.OUT = OUT

    # --------------------------------------------------------------- query
    def rd(self, path: str, n: N, after=False):
        """Reaching definitions of `path` at n: list of (Def, suffix).

        suffix is the part of `path` below the defined path (e.g. reading
        d['a']['b'] when d['a'] was defined gives suffix "['b']").  Also
        returns weak item stores base[*] that may define path.
        """
        state = (self.OUT if after else self.IN)[n.id]
        out = []
        # exact or prefix definitions, longest prefix first
        p = path
        while True:
            if p in state:
                for did in sorted(state[p]):
                    d = self.defs[did]
                    out.append((d, path[len(d.path):] if path.startswith(d.path) else path[len(p):]))
                break
            cut = max(p.rfind("."), p.rfind("["))
            if cut <= 0:
                break
            p = p[:cut]
        # weak stores through non-constant subscripts
        q = path
        while True:
            cut = q.rfind("[")
            if cut <= 0:
                break
            q = q[:cut]
            w = q + "[*]"
            if w in state:
                for did in sorted(state[w]):
                    out.append((self.defs[did], path[len(q):]))
        return out

    def defs_of(self, path: str):
        """All definitions (anywhere in the function) of path or an extension."""
        return [d for d in self.defs if extends(d.path, path)]

    def sources(self, expr, n: N = None, _seen=None):
        """Value-equal provenance: follow copies back to non-path expressions.

        Returns a list of (kind, node, at) where kind is one of
        expr (a non-path expression: call, literal, operator ...), param,
        free (a path with no reaching definition in this function), iter,
        unpack, with, aug, item, other.  Suffixes are kept for free/param.
        """
        if n is None:
            n = self.cfg.node_of(expr)
        if _seen is None:
            _seen = set()
        out = []
        p = path_of(expr)
        if p is None:
            if isinstance(expr, ast.IfExp):
                return self.sources(expr.body, n, _seen) + self.sources(expr.orelse, n, _seen)
            if isinstance(expr, ast.NamedExpr):
                return self.sources(expr.value, n, _seen)
            return [("expr", expr, n, "")]
        rds = self.rd(p, n)
        if not rds:
            return [("free", expr, n, p)]
        for d, suffix in rds:
            key = (d.id, suffix)
            if key in _seen:
                continue
            _seen.add(key)
            if d.kind in ("assign", "walrus") and d.value is not None and not suffix and not d.index:
                out += self.sources(d.value, d.at, _seen)
            elif d.kind == "param":
                out.append(("param", d.value, d.at, d.path + suffix))
            else:
                out.append((d.kind if not suffix else "sub:" + d.kind, d, d.at, suffix))
        return out

    def deps(self, expr, n: N = None, _seen=None, stop=None):
        """Taint-style dependence: every atom the value may depend on.

        Returns a set of (kind, key) with kind in
          param:<name>, free:<path>, const:<repr>, call:<dotted>, and the
          ast nodes are collected in self.last_nodes for reporting.
        `stop(expr)` may return True to treat an expression as an atom.
        """
        if n is None:
            n = self.cfg.node_of(expr)
        if _seen is None:
            _seen = set()
            self.last_nodes = []
        out = set()

        def visit(e, at):
            if stop is not None and stop(e):
                out.add(("atom", ast.unparse(e)))
                self.last_nodes.append(e)
                return
            p = path_of(e)
            if p is not None:
                rds = self.rd(p, at)
                if not rds:
                    out.add(("free", p))
                    self.last_nodes.append(e)
                    # the path also depends on its prefixes' definitions: none
                    return
                def handle(d, suffix):
                    if (d.id, suffix) in _seen:
                        return
                    _seen.add((d.id, suffix))
                    if d.kind == "param":
                        out.add(("param", d.path + suffix))
                        self.last_nodes.append(e)
                    elif d.kind == "aug":
                        visit(d.value.value, d.at)
                        # the previous value(s), through chains of augmented assignments
                        for d2, s2 in self.rd(d.path, d.at):
                            handle(d2, s2)
                    elif d.value is not None and isinstance(d.value, ast.expr):
                        visit(d.value, d.at)
                    else:
                        out.add((d.kind, d.path))

                for d, suffix in rds:
                    handle(d, suffix)
                if isinstance(e, ast.Subscript) and not isinstance(e.slice, ast.Constant):
                    visit(e.slice, at)
                return
            if isinstance(e, ast.Constant):
                out.add(("const", repr(e.value)))
                return
            if isinstance(e, ast.Call):
                nm = ""
                from .loader import dotted

                nm = dotted(e.func)
                out.add(("call", nm or ast.unparse(e.func)))
                self.last_nodes.append(e)
                if isinstance(e.func, ast.Attribute):
                    visit(e.func.value, at)
                for a in e.args:
                    visit(a, at)
                for k in e.keywords:
                    visit(k.value, at)
                return
            if isinstance(e, (ast.ListComp, ast.SetComp, ast.GeneratorExp, ast.DictComp)):
                bound = set()
                for g in e.generators:
                    for t in ast.walk(g.target):
                        if isinstance(t, ast.Name):
                            bound.add(t.id)
                    visit(g.iter, at)
                    for c in g.ifs:
                        visit_bound(c, at, bound)
                if isinstance(e, ast.DictComp):
                    visit_bound(e.key, at, bound)
                    visit_bound(e.value, at, bound)
                else:
                    visit_bound(e.elt, at, bound)
                return
            if isinstance(e, ast.Lambda):
                return
            for c in ast.iter_child_nodes(e):
                if isinstance(c, ast.expr):
                    visit(c, at)

        def visit_bound(e, at, bound):
            for sub in ast.walk(e):
                if isinstance(sub, ast.Name) and sub.id in bound:
                    continue
            # conservative: visit but names bound by the comprehension resolve
            # to 'free' atoms, which we drop afterwards
            before = set(out)
            visit(e, at)
            for item in list(out - before):
                if item[0] == "free" and item[1].split(".")[0].split("[")[0] in bound:
                    out.discard(item)

        visit(expr, n)
        return out


_flows: dict = {}


def flow_of(func, may_raise=False) -> Flow:
    key = (id(func), may_raise)
    if key not in _flows:
        _flows[key] = (func, Flow(func, may_raise))
    return _flows[key][1]


def stores_in(func):
    """Every store target in func: (target expr, stmt, kind)."""
    out = []
    for n in walk_local(func):
        if isinstance(n, ast.Assign):
            for t in n.targets:
                for tt in _flatten(t):
                    out.append((tt, n, "assign"))
        elif isinstance(n, ast.AugAssign):
            out.append((n.target, n, "aug"))
        elif isinstance(n, ast.AnnAssign) and n.value is not None:
            out.append((n.target, n, "assign"))
        elif isinstance(n, ast.Delete):
            for t in n.targets:
                out.append((t, n, "del"))
        elif isinstance(n, (ast.For, ast.AsyncFor)):
            for tt in _flatten(n.target):
                out.append((tt, n, "iter"))
    return out


def _flatten(t):
    if isinstance(t, (ast.Tuple, ast.List)):
        for x in t.elts:
            yield from _flatten(x)
    elif isinstance(t, ast.Starred):
        yield from _flatten(t.value)
    else:
        yield t


def mutating_calls(func):
    """Calls of known mutator methods: (receiver expr, call, method name)."""
    out = []
    for n in walk_local(func):
        if (
            isinstance(n, ast.Call)
            and isinstance(n.func, ast.Attribute)
            and n.func.attr in MUTATORS
        ):
            out.append((n.func.value, n, n.func.attr))
    return out


def deref(fl, e, at, depth=4):
    """Look through temporaries: while e is a local name with exactly one reaching definition
    that is a plain assignment `name = <expr>`, continue with <expr>. Returns (expr, node where
    it is evaluated). Rules that inspect the *shape* of an argument use this so that
    `t = g(x); f(t)` and `f(g(x))` are the same thing to them."""
    while depth > 0 and isinstance(e, ast.Name):
        try:
            defs = [d for d, sfx in fl.rd(e.id, at) if not sfx]
        except Exception:
            break
        if len(defs) == 1 and defs[0].kind == "unpack" and isinstance(getattr(defs[0], "value", None), (ast.Tuple, ast.List)):
            # `a, b = x, y` is two plain assignments
            d = defs[0]
            idx = tuple(getattr(d, "index", ()) or ())
            elts = d.value.elts
            if len(idx) == 1 and isinstance(idx[0], int) and 0 <= idx[0] < len(elts) and not any(isinstance(x, ast.Starred) for x in elts):
                e, at = elts[idx[0]], d.at
                depth -= 1
                continue
            break
        if len(defs) != 1 or defs[0].kind != "assign" or not isinstance(getattr(defs[0], "value", None), ast.AST):
            break
        d = defs[0]
        if getattr(d, "index", ()) not in ((), None):
            break
        e, at = d.value, d.at
        depth -= 1
    return e, at
