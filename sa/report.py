"""Findings, known findings, evidence, exit codes."""

from __future__ import annotations

import ast
import json
import os
import time

from .loader import AnalysisError, Tree, loc, qual, short, src

HERE = os.path.dirname(os.path.abspath(__file__))
VERIF = os.path.dirname(HERE)
KNOWN_FILE = os.path.join(VERIF, "known_findings.json")


def construct_key(node_or_text) -> str:
    if isinstance(node_or_text, str):
        return " ".join(node_or_text.split())
    return " ".join(src(node_or_text).split())


class Finding:
    def __init__(self, prop, rule, node, message, construct=None, rel=None, func=None, detail=None):
        self.prop = prop
        self.rule = rule
        self.node = node
        self.message = message
        self.rel = rel or (node._mod.rel if node is not None and hasattr(node, "_mod") else "?")
        self.func = func or (qual(node) if node is not None else "?")
        if node is not None and isinstance(node, (ast.FunctionDef, ast.AsyncFunctionDef)) and func is None:
            self.func = getattr(node, "_fq", self.func)
        self.construct = construct_key(construct if construct is not None else node)
        self.line = getattr(node, "lineno", 0) if node is not None else 0
        self.detail = detail or {}

    @property
    def key(self):
        return f"{self.rule} :: {self.rel} :: {self.func} :: {self.construct}"

    def to_json(self):
        return {
            "property": self.prop,
            "rule": self.rule,
            "key": self.key,
            "file": self.rel,
            "line": self.line,
            "function": self.func,
            "construct": self.construct,
            "message": self.message,
            "detail": self.detail,
        }


class Ctx:
    """One run of one property's rules over one tree."""

    def __init__(self, prop: str, tree: Tree, tier="quick", quiet=False):
        self.prop = prop
        self.tree = tree
        self.tier = tier
        self.quiet = quiet
        self.instances = []  # dicts
        self.findings: list[Finding] = []
        self.notes: list[str] = []
        self.floors: dict[str, int] = {}
        self.counts: dict[str, int] = {}
        self.rules: dict[str, str] = {}
        self.unresolved: list[str] = []
        self.deferred: list[str] = []

    # rule registration (documentation goes to the evidence)
    def rule(self, rid: str, text: str, floor: int = 1):
        self.rules[rid] = text
        self.floors[rid] = floor
        self.counts.setdefault(rid, 0)

    def ok(self, rid, node, what, nontrivial=True):
        self.counts[rid] = self.counts.get(rid, 0) + 1
        self.instances.append(
            {
                "rule": rid,
                "site": loc(node) if node is not None else "-",
                "function": qual(node) if node is not None else "-",
                "construct": short(node, 90) if node is not None else "-",
                "obligation": what,
                "verdict": "holds",
                "nontrivial": nontrivial,
            }
        )

    def bad(self, rid, node, message, construct=None, detail=None, func=None, rel=None):
        self.counts[rid] = self.counts.get(rid, 0) + 1
        f = Finding(self.prop, rid, node, message, construct, rel=rel, func=func, detail=detail)
        # de-duplicate identical keys (e.g. finally copies)
        if any(g.key == f.key for g in self.findings):
            return f
        self.findings.append(f)
        self.instances.append(
            {
                "rule": rid,
                "site": f"{f.rel}:{f.line}",
                "function": f.func,
                "construct": f.construct[:90],
                "obligation": message,
                "verdict": "VIOLATED",
                "nontrivial": True,
            }
        )
        return f

    def note(self, msg):
        self.notes.append(msg)

    def attempt(self, fn, *args):
        """Run one rule; a cannot-decide of this rule must not hide findings of others."""
        try:
            return fn(*args)
        except AnalysisError as exc:
            self.deferred.append(str(exc))
            return None

    def check_floors(self):
        problems = list(self.deferred)
        for rid, fl in self.floors.items():
            if self.counts.get(rid, 0) < fl:
                problems.append(
                    f"rule {rid}: {self.counts.get(rid, 0)} instance(s) found, "
                    f"floor confirmed by reading is {fl} - the anchor pattern no "
                    "longer matches the code (cannot decide)"
                )
        self.problems = problems
        if problems and not self.findings:
            raise AnalysisError("; ".join(problems))
        for p in problems:
            self.note("cannot decide (reported together with the violations above): " + p)


def load_known():
    if not os.path.exists(KNOWN_FILE):
        return {"known": [], "fixed": []}
    with open(KNOWN_FILE) as fh:
        return json.load(fh)


def split_known(prop, findings):
    """(new violations, known findings that fired, known entries that did not)."""
    kf = load_known()
    known = {k["key"]: k for k in kf.get("known", []) if k.get("property") == prop}
    new, hit = [], []
    for f in findings:
        if f.key in known:
            hit.append((f, known[f.key]))
        else:
            new.append(f)
    hitkeys = {f.key for f, _ in hit}
    stale = [k for key, k in known.items() if key not in hitkeys]
    return new, hit, stale


def write_evidence(prop, tier, ctx: Ctx, new, hit, stale, wall, extra=None, explanation=""):
    os.makedirs(os.path.join(VERIF, "evidence"), exist_ok=True)
    inst = ctx.instances
    distinct = {
        (i["rule"], i["site"].split(":")[0], i["function"], i["construct"])
        for i in inst
        if i["nontrivial"]
    }
    samples = []
    seen_rules = set()
    for i in inst:  # at least one sample per rule, then fill up
        if i["rule"] not in seen_rules:
            seen_rules.add(i["rule"])
            samples.append(i)
    for i in inst:
        if len(samples) >= 60:
            break
        if i not in samples:
            samples.append(i)
    cov = {
        "explanation": explanation,
        "evaluations": len(inst),
        "distinct_nontrivial": len(distinct),
        "rule": (
            "one evaluation = one rule instance (a store, call site, return, "
            "loop, function or table row matched by a rule on the current "
            "tree); distinct = different (rule, file, function, construct); "
            "non-trivial = the rule had an obligation to discharge there"
        ),
        "samples": samples,
        "rules": ctx.rules,
        "instances_per_rule": ctx.counts,
        "instance_floors": ctx.floors,
        "files_analysed": ctx.tree.digest(),
        "root": ctx.tree.root,
        "known_findings_reported": [k["key"] for _, k in hit],
        "known_findings_not_firing": [k["key"] for k in stale],
        "notes": ctx.notes,
        "unresolved": ctx.unresolved,
        "exhaustive": True,
    }
    if extra:
        cov.update(extra)
    ev = {
        "property_id": prop,
        "tier": tier,
        "seed": int(os.environ.get("VERIF_SEED", "0") or 0),
        "level": "other",
        "coverage": cov,
        "assumptions": extra.get("assumptions", []) if extra else [],
        "wall_s": round(wall, 3),
        "violations": len(new),
    }
    cov.pop("assumptions", None)
    path = os.path.join(VERIF, "evidence", f"{prop}.json")
    tmp = path + ".tmp"
    with open(tmp, "w") as fh:
        json.dump(ev, fh, indent=1, default=str)
    os.replace(tmp, path)
    return path


def write_violations(prop, new):
    os.makedirs(os.path.join(VERIF, "out"), exist_ok=True)
    path = os.path.join(VERIF, "out", f"{prop}.violations.json")
    with open(path, "w") as fh:
        json.dump([f.to_json() for f in new], fh, indent=1)
    return path
