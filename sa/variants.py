"""Single-edit variants of the current tree, applied in memory.

A *breaking* variant must make the named rule report a new finding; a
*preserving* variant (behaviour unchanged) must leave the finding set as it
is.  Every variant source is compile()d - never executed.  Edits are exact
text replacements that must match exactly once in today's source; a variant
whose anchor text is gone is reported as stale (the tree was edited there),
not as a failure.
"""

from __future__ import annotations

import os
from dataclasses import dataclass, field


@dataclass
class V:
    name: str
    kind: str  # "break" | "keep"
    rel: str
    old: str
    new: str
    rule: str = ""
    also: list = field(default_factory=list)  # [(rel, old, new)]
    control: bool = False
    why: str = ""
    count: int = 1


def B(name, rel, old, new, rule, control=False, also=None, why="", count=1):
    return V(name, "break", rel, old, new, rule, also or [], control, why, count)


def K(name, rel, old, new, also=None, why="", count=1):
    return V(name, "keep", rel, old, new, "", also or [], False, why, count)


def apply(v: V, root: str):
    """Return overrides {rel: src} or None when stale."""
    overrides = {}
    for rel, old, new, count in [(v.rel, v.old, v.new, v.count)] + [
        (a[0], a[1], a[2], a[3] if len(a) > 3 else 1) for a in v.also
    ]:
        if rel in overrides:
            s = overrides[rel]
        else:
            p = os.path.join(root, rel)
            if not os.path.exists(p):
                return None
            with open(p, encoding="utf-8") as fh:
                s = fh.read()
        if s.count(old) != count:
            return None
        overrides[rel] = s.replace(old, new)
    for rel, s2 in overrides.items():
        try:
            compile(s2, rel, "exec")
        except SyntaxError as exc:
            raise AssertionError(f"variant {v.name}: does not compile: {exc}")
    return overrides
