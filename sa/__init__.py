"""Static analysis of infretis (ast only; never imports or runs the target).

Layout
------
loader.py    parse <root>/infretis/**/*.py, parent links, sha256, index
cfg.py       statement-level control-flow graph, dominators, path queries
flow.py      access paths, reaching definitions, provenance queries
report.py    findings, known findings, evidence, exit codes
rules/cNN.py one module per claimed property
selftest.py  breaking / preserving variants of the current tree (thorough)
"""
