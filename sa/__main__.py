"""CLI:  python -m sa check C07 [--tier quick|thorough] [--root /repo]
         python -m sa replay <violations.json>
         python -m sa variants C07          (list variants and outcomes)

Exit codes: 0 holds (known findings are printed), 1 violation(s) not listed
as known, 2 ANALYSIS-ERROR (cannot decide / checker self-test failed).
"""

from __future__ import annotations

import argparse
import importlib
import json
import os
import sys
import time
import traceback

from . import cfg as _cfg
from . import flow as _flow
from . import variants as _variants
from .loader import AnalysisError, Tree
from .report import (
    VERIF,
    Ctx,
    split_known,
    write_evidence,
    write_violations,
)

CLAIMED = [
    "C03", "C04", "C05", "C06", "C07", "C08", "C09", "C11", "C12", "C13",
    "C14", "C15", "C16", "C17", "C18", "C19", "C20",
]


def rules_module(prop):
    return importlib.import_module(f"sa.rules.{prop.lower()}")


def clear_caches():
    _cfg._cache.clear()
    _flow._flows.clear()


def analyse(prop, root, overrides=None, tier="quick"):
    """Run the property's rules once. Returns ctx (raises AnalysisError)."""
    tree = Tree(root, overrides)
    ctx = Ctx(prop, tree, tier)
    mod = rules_module(prop)
    mod.run(ctx)
    ctx.check_floors()
    return ctx


def run_variant(args):
    prop, root, v, base_keys = args
    try:
        ov = _variants.apply(v, root)
    except AssertionError as exc:
        return (v.name, v.kind, "broken-variant", str(exc), [])
    if ov is None:
        return (v.name, v.kind, "stale", "anchor text not found exactly once", [])
    try:
        ctx = analyse(prop, root, ov)
    except AnalysisError as exc:
        return (v.name, v.kind, "analysis-error", str(exc), [])
    except Exception as exc:  # internal error of the checker on the variant
        return (v.name, v.kind, "analysis-error", "internal: " + repr(exc), [])
    keys = {f.key for f in ctx.findings}
    newk = sorted(keys - base_keys)
    if not newk and getattr(ctx, "problems", None):
        return (v.name, v.kind, "analysis-error", "; ".join(ctx.problems), [])
    if v.kind == "break":
        hit = [k for k in newk if k.startswith(v.rule + " ::")]
        if hit:
            return (v.name, v.kind, "fired", hit[0], newk)
        return (v.name, v.kind, "MISSED", f"expected {v.rule}; new findings: {newk}", newk)
    if newk:
        return (v.name, v.kind, "FALSE-ALARM", newk[0], newk)
    return (v.name, v.kind, "silent", "", [])


def run_reformat(args):
    """Whole-tree preserving variant: every module replaced by ast.unparse(ast.parse(src))
    (all comments, blank lines, line breaks, quoting and parenthesisation changed)."""
    prop, root, base_keys = args
    import ast as _ast
    base = Tree(root)
    ov = {}
    for rel, m in base.modules.items():
        try:
            ov[rel] = _ast.unparse(_ast.parse(m.src)) + "\n"
            compile(ov[rel], rel, "exec")
        except Exception as exc:  # pragma: no cover
            return ("whole-tree-reformat", "keep", "broken-variant", f"{rel}: {exc}", [])
    try:
        ctx = analyse(prop, root, ov)
    except AnalysisError as exc:
        return ("whole-tree-reformat", "keep", "analysis-error", str(exc), [])
    except Exception as exc:
        return ("whole-tree-reformat", "keep", "analysis-error", "internal: " + repr(exc), [])
    newk = sorted({f.key for f in ctx.findings} - base_keys)
    if newk:
        return ("whole-tree-reformat", "keep", "FALSE-ALARM", newk[0], newk)
    return ("whole-tree-reformat", "keep", "silent", "", [])


def _rename_locals(src):
    """Alpha-rename every local variable of every function (suffix _r): parameters, attributes,
    globals and names of nested functions' parameters keep their names."""
    import ast as _ast
    tree = _ast.parse(src)

    def process(fn):
        a = fn.args
        params = {x.arg for x in a.posonlyargs + a.args + a.kwonlyargs}
        if a.vararg:
            params.add(a.vararg.arg)
        if a.kwarg:
            params.add(a.kwarg.arg)
        glob, local, nested = set(), set(), set()
        for n in _ast.walk(fn):
            if isinstance(n, (_ast.Global, _ast.Nonlocal)):
                glob |= set(n.names)
            if isinstance(n, _ast.Name) and isinstance(n.ctx, (_ast.Store, _ast.Del)):
                local.add(n.id)
            if isinstance(n, (_ast.FunctionDef, _ast.AsyncFunctionDef, _ast.Lambda)) and n is not fn:
                b = n.args
                nested |= {x.arg for x in b.posonlyargs + b.args + b.kwonlyargs}
        local -= params | glob | nested | {"self", "cls", "_"}
        for n in _ast.walk(fn):
            if isinstance(n, _ast.Name) and n.id in local:
                n.id = n.id + "_r"

    for node in _ast.walk(tree):
        if isinstance(node, _ast.ClassDef):
            for st in node.body:
                if isinstance(st, (_ast.FunctionDef, _ast.AsyncFunctionDef)):
                    process(st)
    for st in tree.body:
        if isinstance(st, (_ast.FunctionDef, _ast.AsyncFunctionDef)):
            process(st)
    out = _ast.unparse(tree) + "\n"
    compile(out, "<renamed>", "exec")
    return out


def run_rename(args):
    """Whole-tree preserving variant: every local variable renamed. Findings are compared by
    (rule, file, function) because the construct text contains the renamed identifiers."""
    prop, root, base_sig = args
    base = Tree(root)
    try:
        ov = {rel: _rename_locals(m.src) for rel, m in base.modules.items()}
    except Exception as exc:  # pragma: no cover
        return ("whole-tree-rename-locals", "keep", "broken-variant", repr(exc), [])
    try:
        ctx = analyse(prop, root, ov)
    except AnalysisError as exc:
        return ("whole-tree-rename-locals", "keep", "analysis-error", str(exc), [])
    except Exception as exc:
        return ("whole-tree-rename-locals", "keep", "analysis-error", "internal: " + repr(exc), [])
    new = sorted({(f.rule, f.rel, f.func) for f in ctx.findings} - base_sig)
    if new:
        return ("whole-tree-rename-locals", "keep", "FALSE-ALARM", " :: ".join(new[0]), [])
    if getattr(ctx, "problems", None):
        return ("whole-tree-rename-locals", "keep", "analysis-error", "; ".join(ctx.problems), [])
    return ("whole-tree-rename-locals", "keep", "silent", "", [])


def _flip_compares(src):
    """Every binary comparison written the other way round (`a < b` -> `b > a`, `x == 0` -> `0 == x`)."""
    import ast as _ast
    FL = {_ast.Lt: _ast.Gt, _ast.Gt: _ast.Lt, _ast.LtE: _ast.GtE, _ast.GtE: _ast.LtE, _ast.Eq: _ast.Eq, _ast.NotEq: _ast.NotEq}
    t = _ast.parse(src)
    for n in _ast.walk(t):
        if isinstance(n, _ast.Compare) and len(n.ops) == 1 and type(n.ops[0]) in FL:
            n.left, n.comparators, n.ops = n.comparators[0], [n.left], [FL[type(n.ops[0])]()]
    out = _ast.unparse(t) + "\n"
    compile(out, "<flipped>", "exec")
    return out


def run_flip(args):
    prop, root, base_sig = args
    base = Tree(root)
    try:
        ov = {rel: _flip_compares(m.src) for rel, m in base.modules.items()}
        ctx = analyse(prop, root, ov)
    except AnalysisError as exc:
        return ("whole-tree-flip-comparisons", "keep", "analysis-error", str(exc), [])
    except Exception as exc:
        return ("whole-tree-flip-comparisons", "keep", "analysis-error", "internal: " + repr(exc), [])
    new = sorted({(f.rule, f.rel, f.func) for f in ctx.findings} - base_sig)
    if new:
        return ("whole-tree-flip-comparisons", "keep", "FALSE-ALARM", " :: ".join(new[0]), [])
    if getattr(ctx, "problems", None):
        return ("whole-tree-flip-comparisons", "keep", "analysis-error", "; ".join(ctx.problems), [])
    return ("whole-tree-flip-comparisons", "keep", "silent", "", [])


def _invert_ifs(src):
    """`if c: A else: B` rewritten as `if not c: B else: A` everywhere (elif chains left alone)."""
    import ast as _ast
    t = _ast.parse(src)
    for n in _ast.walk(t):
        if isinstance(n, _ast.If) and n.orelse and not (len(n.orelse) == 1 and isinstance(n.orelse[0], _ast.If)):
            n.test = _ast.UnaryOp(op=_ast.Not(), operand=n.test)
            n.body, n.orelse = n.orelse, n.body
    _ast.fix_missing_locations(t)
    out = _ast.unparse(t) + "\n"
    compile(out, "<inverted>", "exec")
    return out


def _add_logging(src):
    """A logger.debug(...) statement inserted at the start of every block of every function."""
    import ast as _ast
    t = _ast.parse(src)
    for n in _ast.walk(t):
        for field in ("body", "orelse", "finalbody"):
            b = getattr(n, field, None)
            if isinstance(b, list) and b and isinstance(b[0], _ast.stmt) and not isinstance(n, (_ast.Module, _ast.ClassDef)):
                i = 1 if (isinstance(b[0], _ast.Expr) and isinstance(b[0].value, _ast.Constant) and isinstance(b[0].value.value, str)) else 0
                b.insert(i, _ast.parse("logger.debug('trace')").body[0])
    _ast.fix_missing_locations(t)
    out = _ast.unparse(t) + "\n"
    compile(out, "<logging>", "exec")
    return out


def _keywordise_factory(root):
    """Calls of repository functions: every positional argument after the first becomes a keyword
    argument (when all definitions of the callee's name agree on the parameter list)."""
    import ast as _ast
    sigs = {}
    for rel, m in Tree(root).modules.items():
        for q, f in m.funcs.items():
            ps = [a.arg for a in f.args.posonlyargs + f.args.args]
            is_method = "." in q and ps and ps[0] in ("self", "cls")
            sigs.setdefault(f.name, set()).add((tuple(ps[1:] if is_method else ps), bool(is_method), bool(f.args.posonlyargs or f.args.vararg)))

    def xf(src):
        t = _ast.parse(src)
        for c in _ast.walk(t):
            if not isinstance(c, _ast.Call) or any(isinstance(a, _ast.Starred) for a in c.args):
                continue
            nm = c.func.attr if isinstance(c.func, _ast.Attribute) else (c.func.id if isinstance(c.func, _ast.Name) else None)
            ss = sigs.get(nm)
            if not ss or len(ss) != 1 or nm.startswith("__"):
                continue
            ps, is_method, special = next(iter(ss))
            if special or is_method != isinstance(c.func, _ast.Attribute) or len(c.args) < 2 or len(c.args) > len(ps):
                continue
            new_kw = [_ast.keyword(arg=ps[i], value=a) for i, a in enumerate(c.args) if i >= 1]
            c.keywords = new_kw + c.keywords
            c.args = c.args[:1]
        _ast.fix_missing_locations(t)
        out = _ast.unparse(t) + "\n"
        compile(out, "<keywords>", "exec")
        return out

    return xf


_NOHOIST = {"super", "isinstance", "len", "enumerate", "zip", "range", "reversed", "iter", "next", "sorted", "list", "tuple", "set", "dict", "str", "int", "float", "print", "min", "max", "sum", "abs", "getattr", "hasattr"}


def _hoist_args(src):
    """`y = f(g(x), z)` rewritten as `_h1 = g(x); y = f(_h1, z)` for statement-level calls whose
    first argument is a call or a subscript (an "extract variable" refactoring everywhere)."""
    import ast as _ast
    t = _ast.parse(src)
    cnt = [0]

    def do_block(b):
        i = 0
        while i < len(b):
            st = b[i]
            call = st.value if isinstance(st, (_ast.Assign, _ast.Expr)) and isinstance(st.value, _ast.Call) else None
            if call is not None and call.args and isinstance(call.args[0], (_ast.Call, _ast.Subscript)) and not (isinstance(call.func, _ast.Name) and call.func.id in _NOHOIST):
                cnt[0] += 1
                nm = f"_h{cnt[0]}"
                b.insert(i, _ast.Assign(targets=[_ast.Name(id=nm, ctx=_ast.Store())], value=call.args[0]))
                call.args[0] = _ast.Name(id=nm, ctx=_ast.Load())
                i += 1
            i += 1

    for n in _ast.walk(t):
        if isinstance(n, (_ast.FunctionDef, _ast.AsyncFunctionDef, _ast.For, _ast.While, _ast.If, _ast.With, _ast.Try)):
            for field in ("body", "orelse", "finalbody"):
                b = getattr(n, field, None)
                if isinstance(b, list) and b and isinstance(b[0], _ast.stmt):
                    do_block(b)
    _ast.fix_missing_locations(t)
    out = _ast.unparse(t) + "\n"
    compile(out, "<hoisted>", "exec")
    return out


def run_xform(args):
    prop, root, base_sig, name, fn = args
    base = Tree(root)
    try:
        ov = {rel: fn(m.src) for rel, m in base.modules.items()}
        ctx = analyse(prop, root, ov)
    except AnalysisError as exc:
        return (name, "keep", "analysis-error", str(exc), [])
    except Exception as exc:
        return (name, "keep", "analysis-error", "internal: " + repr(exc), [])
    new = sorted({(f.rule, f.rel, f.func) for f in ctx.findings} - base_sig)
    if new:
        return (name, "keep", "FALSE-ALARM", " :: ".join(new[0]), [])
    if getattr(ctx, "problems", None):
        return (name, "keep", "analysis-error", "; ".join(ctx.problems), [])
    return (name, "keep", "silent", "", [])


def run_variants(prop, root, base_keys, only_controls):
    mod = rules_module(prop)
    vs = [v for v in getattr(mod, "VARIANTS", []) if (v.control or not only_controls)]
    jobs = [(prop, root, v, base_keys) for v in vs]
    if not only_controls:
        base_sig = {tuple(k.split(" :: ")[:3]) for k in base_keys}
        extra = [run_reformat((prop, root, base_keys)), run_rename((prop, root, base_sig)), run_flip((prop, root, base_sig)),
                 run_xform((prop, root, base_sig, "whole-tree-invert-ifs", _invert_ifs)),
                 run_xform((prop, root, base_sig, "whole-tree-add-logging", _add_logging)),
                 run_xform((prop, root, base_sig, "whole-tree-keyword-arguments", _keywordise_factory(root))),
                 run_xform((prop, root, base_sig, "whole-tree-extract-variable", _hoist_args))]
    else:
        extra = []
    return extra + _run_variant_jobs(jobs)


def _run_variant_jobs(jobs):
    if not jobs:
        return []
    if len(jobs) < 3:
        return [run_variant(j) for j in jobs]
    import multiprocessing as mp

    with mp.get_context("fork").Pool(min(16, len(jobs))) as pool:
        return pool.map(run_variant, jobs, chunksize=1)


def check(prop, tier, root):
    t0 = time.time()
    mod = rules_module(prop)
    ctx = analyse(prop, root, tier=tier)
    new, hit, stale = split_known(prop, ctx.findings)
    base_keys = {f.key for f in ctx.findings}

    print(f"== {prop} [{tier}] root={root}")
    print(
        f"analysed: {len(ctx.tree.consulted)} module(s), {len(ctx.rules)} rule(s), "
        f"{len(ctx.instances)} rule instance(s)"
    )
    for rid in ctx.rules:
        print(f"  {rid}: {ctx.counts.get(rid, 0)} instance(s) (floor {ctx.floors[rid]}) - {ctx.rules[rid]}")
    for n in ctx.notes:
        print(f"  note: {n}")

    vres = run_variants(prop, root, base_keys, only_controls=(tier == "quick"))
    selftest_fail = []
    for name, kind, outcome, info, _ in vres:
        if outcome in ("MISSED", "FALSE-ALARM", "broken-variant") or (
            outcome == "analysis-error" and True
        ):
            selftest_fail.append((name, kind, outcome, info))
    nfired = sum(1 for r in vres if r[2] == "fired")
    nsilent = sum(1 for r in vres if r[2] == "silent")
    nstale = sum(1 for r in vres if r[2] == "stale")
    label = "positive controls" if tier == "quick" else "self-test variants"
    print(
        f"{label}: {len(vres)} run, {nfired} breaking fired, {nsilent} preserving silent, "
        f"{nstale} stale, {len(selftest_fail)} failed"
    )
    for name, kind, outcome, info in selftest_fail:
        print(f"  SELFTEST-FAIL {name} ({kind}): {outcome}: {info}")

    for f, k in hit:
        print(f"KNOWN-FINDING: property={prop} {k.get('what', f.message)} [{f.key}]")
    for k in stale:
        print(f"note: known finding no longer fires: {k['key']}")

    extra = {
        "selftest": {
            "tier_scope": label,
            "run": len(vres),
            "breaking_fired": nfired,
            "preserving_silent": nsilent,
            "stale": nstale,
            "failed": [list(x) for x in selftest_fail],
            "outcomes": [
                {"variant": r[0], "kind": r[1], "outcome": r[2], "info": r[3][:160]}
                for r in vres
            ],
        },
        "assumptions": getattr(mod, "ASSUMPTIONS", []),
        "does_not_decide": getattr(mod, "NOT_DECIDED", ""),
    }
    wall = time.time() - t0
    write_evidence(
        prop, tier, ctx, new, hit, stale, wall, extra,
        explanation=getattr(mod, "EXPLANATION", ""),
    )
    if new:
        path = write_violations(prop, new)
        for f in new:
            print(f"  {f.rel}:{f.line}: [{f.rule}] {f.func}: {f.message}")
            print(f"      construct: {f.construct[:200]}")
            for dk, dv in f.detail.items():
                print(f"      {dk}: {dv}")
        print(f"VIOLATION property={prop} replay={path}")
        return 1
    if getattr(ctx, "problems", None):
        # only listed (known) findings fired: a rule that could not decide is not hidden by them
        print(f"ANALYSIS-ERROR property={prop}: " + "; ".join(ctx.problems))
        return 2
    if selftest_fail:
        print(
            f"ANALYSIS-ERROR property={prop}: checker self-test failed "
            "(a rule did not fire on its control / fired on a preserving variant)"
        )
        return 2
    print(f"OK property={prop}: all rule instances hold ({wall:.2f}s)")
    return 0


def replay(path, root):
    with open(path) as fh:
        recs = json.load(fh)
    if not recs:
        print("nothing to replay")
        return 0
    prop = recs[0]["property"]
    ctx = analyse(prop, root)
    keys = {f.key: f for f in ctx.findings}
    rc = 0
    for r in recs:
        f = keys.get(r["key"])
        if f is None:
            print(f"no longer reported: {r['key']}")
            continue
        rc = 1
        print(f"REPRODUCED {f.rel}:{f.line} [{f.rule}] {f.func}: {f.message}")
        print(f"    construct: {f.construct}")
        for dk, dv in f.detail.items():
            print(f"    {dk}: {dv}")
    return rc


def main(argv=None):
    ap = argparse.ArgumentParser(prog="sa")
    sub = ap.add_subparsers(dest="cmd", required=True)
    c = sub.add_parser("check")
    c.add_argument("prop")
    c.add_argument("--tier", default=os.environ.get("VERIF_TIER", "quick"))
    c.add_argument("--root", default=os.environ.get("VERIF_ROOT", "/repo"))
    r = sub.add_parser("replay")
    r.add_argument("path")
    r.add_argument("--root", default=os.environ.get("VERIF_ROOT", "/repo"))
    a = sub.add_parser("all")
    a.add_argument("--tier", default="quick")
    a.add_argument("--root", default=os.environ.get("VERIF_ROOT", "/repo"))
    args = ap.parse_args(argv)
    try:
        if args.cmd == "check":
            tier = args.tier if args.tier in ("quick", "thorough") else "quick"
            return check(args.prop.upper(), tier, args.root)
        if args.cmd == "replay":
            return replay(args.path, args.root)
        if args.cmd == "all":
            worst = 0
            for p in CLAIMED:
                try:
                    rc = check(p, args.tier, args.root)
                except AnalysisError as exc:
                    print(f"ANALYSIS-ERROR property={p}: {exc}")
                    rc = 2
                except ModuleNotFoundError:
                    continue
                worst = max(worst, rc)
            return worst
    except AnalysisError as exc:
        print(f"ANALYSIS-ERROR: {exc}")
        return 2
    except Exception:  # never let a traceback look like a violation
        traceback.print_exc()
        print("ANALYSIS-ERROR: internal error of the checker (traceback above)")
        return 2
    return 0


if __name__ == "__main__":
    sys.exit(main())
