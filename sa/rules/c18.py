"""C18 - invalid configurations are rejected up front.

Validation coverage table extracted from check_config's raise guards
(locals resolved to configuration access paths, integer comparisons
normalised), must-validate-before-use by dominance, normalisation that is
idempotent by shape.
"""

from __future__ import annotations

import ast

from ..cfg import cfg_of
from ..flow import deref, flow_of, path_of
from ..loader import FUNC, AnalysisError, dotted, enclosing_stmt, last_name, loc, short, walk_local
from ..util import REPEX, SCHED, SETUP, keys_chain, kwarg
from ..variants import B, K

EXPLANATION = (
    "(R-18.1) the locals of check_config are resolved to configuration access "
    "paths and every `raise TOMLConfigError` is summarised as the set of "
    "normalised atoms guarding it; one clause per item of the property "
    "statement must be present, with integer comparisons normalised so that an "
    "off-by-one is a different clause, and numeric options must be tested for "
    "being set with `is not False/None`, never by truthiness; (R-18.2) every "
    "`return config` of setup_config is dominated by check_config(config) "
    "executed after the last normalising store, check_config swallows no "
    "configuration error, and the scheduler only runs on setup_config's "
    "result; (R-18.3) every defaulting statement of setup_config has the "
    "shape `v = cfg.get(k, d); cfg[k] = v` or is guarded by the absence of the "
    "key it writes."
)
NOT_DECIDED = "that every accepted configuration initialises (needs paths on disk and engines); fixed-point behaviour beyond the shape rule"
ASSUMPTIONS = ["TOML values have the types the code expects (lists of numbers, strings)"]

SYMS = {
    "['simulation']['interfaces']": "I",
    "['runner']['workers']": "W",
    "['simulation']['shooting_moves']": "M",
    "['simulation']['tis_set']['interface_cap']": "CAP",
    "['simulation']['tis_set']['quantis']": "Q",
    "['simulation']['tis_set']['lambda_minus_one']": "LMO",
    "['simulation']['ensemble_engines']": "ENG",
}


class _Canon:
    def __init__(self, f):
        self.f = f
        self.fl = flow_of(f)
        self.cfg = self.fl.cfg

    def sym(self, e, at, depth=0):
        """Canonical text of an expression with locals replaced by config symbols."""
        if depth > 8:
            return ast.unparse(e)
        base, ks = keys_chain(e)
        if base is not None and base != "config" and ks:
            # a local that aliases a section of the configuration:  tis_set = config["simulation"]["tis_set"]
            if not hasattr(self, "_env"):
                from .shared import _cfg_env
                self._env = _cfg_env(self.f)
            if base in self._env:
                ks = list(self._env[base]) + ks
                base = "config"
        if base == "config" and ks:
            key = "".join(f"[{k!r}]" for k in ks if not k.startswith("."))
            if key in SYMS:
                return SYMS[key]
        if isinstance(e, ast.Name):
            srcs = self.fl.sources(e, at) if self.cfg.nodes_of(e) or True else []
            vals = set()
            for kind, node, sat, extra in srcs:
                if kind == "expr":
                    vals.add(self.sym(node, sat, depth + 1))
                elif kind in ("param", "free") and extra.startswith("config["):
                    key = extra[len("config"):]
                    vals.add(SYMS.get(key, extra))
                elif kind == "iter":
                    vals.add(f"each({self.sym(node.value, node.at, depth + 1)})")
                else:
                    vals.add(e.id)
            if len(vals) == 1:
                return vals.pop()
            return e.id
        if isinstance(e, ast.Call):
            fn = dotted(e.func) or ast.unparse(e.func)
            args = ", ".join(self.sym(a, at, depth + 1) for a in e.args)
            if isinstance(e.func, ast.Attribute) and e.func.attr == "keys":
                return self.sym(e.func.value, at, depth + 1)
            return f"{fn}({args})"
        if isinstance(e, ast.Subscript):
            return f"{self.sym(e.value, at, depth + 1)}[{ast.unparse(e.slice)}]"
        if isinstance(e, ast.BinOp):
            op = {ast.Add: "+", ast.Sub: "-", ast.Mult: "*"}.get(type(e.op), "?")
            return f"({self.sym(e.left, at, depth + 1)} {op} {self.sym(e.right, at, depth + 1)})"
        if isinstance(e, ast.Constant):
            return repr(e.value)
        if isinstance(e, ast.Attribute):
            return f"{self.sym(e.value, at, depth + 1)}.{e.attr}"
        return ast.unparse(e)

    def lin(self, e, at, depth=0):
        """Integer linear form over canonical symbols, or None."""
        if isinstance(e, ast.Constant) and isinstance(e.value, int) and not isinstance(e.value, bool):
            return {1: e.value}
        if isinstance(e, ast.BinOp) and isinstance(e.op, (ast.Add, ast.Sub)):
            a, b = self.lin(e.left, at, depth + 1), self.lin(e.right, at, depth + 1)
            if a is None or b is None:
                return None
            out = dict(a)
            sg = 1 if isinstance(e.op, ast.Add) else -1
            for k, v in b.items():
                out[k] = out.get(k, 0) + sg * v
            return out
        if isinstance(e, ast.Name):
            srcs = self.fl.sources(e, at)
            if len(srcs) == 1 and srcs[0][0] == "expr" and depth < 6:
                inner = srcs[0][1]
                if isinstance(inner, (ast.BinOp, ast.Constant)):
                    return self.lin(inner, srcs[0][2], depth + 1)
        s = self.sym(e, at)
        if s.startswith("len(") or s in ("W",):
            return {s: 1}
        return None

    def atom(self, e, truth, at):
        """Canonical string of one guard atom."""
        if isinstance(e, ast.Compare) and len(e.ops) == 1:
            op = e.ops[0]
            l, r = e.left, e.comparators[0]
            la, ra = self.lin(l, at), self.lin(r, at)
            ops = {ast.Gt: ">", ast.GtE: ">=", ast.Lt: "<", ast.LtE: "<=", ast.Eq: "==", ast.NotEq: "!=", ast.Is: "is", ast.IsNot: "is not", ast.In: "in", ast.NotIn: "not in"}
            o = ops.get(type(op), "?")
            if not truth:
                o = {">": "<=", ">=": "<", "<": ">=", "<=": ">", "==": "!=", "!=": "==", "is": "is not", "is not": "is", "in": "not in", "not in": "in"}[o]
            if la is not None and ra is not None and o in (">", ">=", "<", "<="):
                D = dict(la)
                for k, v in ra.items():
                    D[k] = D.get(k, 0) - v
                if o in ("<", "<="):
                    D = {k: -v for k, v in D.items()}
                    o = ">" if o == "<" else ">="
                if o == ">":
                    D[1] = D.get(1, 0) - 1
                terms = sorted((k, v) for k, v in D.items() if k != 1 and v != 0)
                txt = " ".join(f"{v:+d}*{k}" for k, v in terms) + f" {D.get(1, 0):+d} >= 0"
                return "int: " + txt
            ls, rs = self.sym(l, at), self.sym(r, at)
            if o in ("==", "!=") and rs > ls:
                ls, rs = rs, ls
            if o in ("<", "<=") and la is None:
                # a < b  ==  b > a  (real-valued operands: keep operator family, fixed orientation for caps)
                pass
            return f"{ls} {o} {rs}"
        return ("" if truth else "not ") + "truthy(" + self.sym(e, at) + ")"


REQUIRED = [
    ("sorted", ["sorted(I) != I"], "unsorted interfaces"),
    ("distinct", ["len(set(I)) != len(I)"], "duplicate interfaces"),
    ("at least two", ["int: -1*len(I) +1 >= 0"], "fewer than two interfaces"),
    ("worker bound", ["int: +1*W -1*len(I) +0 >= 0"], "more workers than ensembles minus one"),
    ("enough moves", ["int: +1*len(I) -1*len(M) -1 >= 0"], "fewer shooting moves than ensembles"),
    ("cap <= last", ["CAP > I[-1]", "CAP is not False"], "interface cap above the last interface"),
    ("cap >= first", ["CAP < I[0]", "CAP is not False"], "interface cap below the first interface"),
    ("cap leaves wf room", ["CAP <= each(enumerate(I[:-1]))", "CAP is not False", "M[idx + 1] == 'wf'"], "interface cap leaving a wire-fencing ensemble no room"),
    ("engine defined", ["each(unique_engines) not in config"], "undefined engine"),
    ("lambda_-1 < lambda_0", ["LMO >= I[0]", "LMO is not False"], "lambda_minus_one not below the first interface"),
    ("quantis excludes lambda_-1", ["truthy(Q)", "LMO is not False"], "quantis together with lambda_minus_one"),
]


def r181(ctx):
    rid = "R-18.1"
    tree = ctx.tree
    f = tree.func(SETUP, "check_config")
    C = _Canon(f)
    cfg = C.cfg
    clauses = []
    for r in [n for n in walk_local(f) if isinstance(n, ast.Raise)]:
        exc = r.exc
        if not (isinstance(exc, ast.Call) and last_name(exc) == "TOMLConfigError"):
            continue
        rn = cfg.node_of(r)
        atoms = set()
        # only the conditions of the if-statements that syntactically enclose the raise
        enclosing = set()
        par = getattr(r, "_parent", None)
        while par is not None and par is not f:
            if isinstance(par, ast.If):
                enclosing.add(id(par.test))
            par = getattr(par, "_parent", None)
        for e, t, bn in cfg.guards(rn):
            if id(bn.ast) not in enclosing:
                # a guard clause (`if not c: continue` / `return` before the raise) contributes its
                # condition; an earlier validation clause (`if a: raise ...`) does not
                ifn = getattr(bn.ast, "_parent", None)
                while ifn is not None and not isinstance(ifn, ast.If):
                    ifn = getattr(ifn, "_parent", None)
                skip_body = (ifn.body if ifn is not None else [])
                is_guard_clause = bool(skip_body) and isinstance(skip_body[-1], (ast.Continue, ast.Pass)) and not any(isinstance(x, ast.Raise) for s_ in skip_body for x in ast.walk(s_))
                if not is_guard_clause:
                    continue
            tn = [x for x in cfg.nodes if x.kind == "test" and x.ast is bn.ast]
            at = tn[0] if tn else rn
            a = C.atom(e, t, at)
            # canonicalise the wf-room clause: the loop variable compared with the cap
            atoms.add(a)
        # loops whose variable is compared: add the iteration space
        clauses.append((r, atoms))
    if len(clauses) < 8:
        raise AnalysisError(f"R-18.1: only {len(clauses)} raise TOMLConfigError found in check_config")

    def matches(req, atoms):
        for need in req:
            if need == "CAP <= each(enumerate(I[:-1]))":
                if not any(a.startswith("CAP <= ") and "I[:-1]" in a for a in atoms):
                    return False
            elif need == "M[idx + 1] == 'wf'":
                if not any(a.startswith("M[") and a.endswith("== 'wf'") and "+ 1" in a for a in atoms):
                    return False
            elif need == "each(unique_engines) not in config":
                if not any(a.endswith("not in config") for a in atoms):
                    return False
            elif need not in atoms:
                return False
        return True

    used = set()
    for name, req, what in REQUIRED:
        hit = [(r, a) for r, a in clauses if matches(req, a)]
        if hit:
            used.add(id(hit[0][0]))
            ctx.ok(rid, hit[0][0], f"clause '{name}' present: rejects {what} under {sorted(hit[0][1])}")
            continue
        # closest clause for the message: shares the main operand
        main = req[0].split()[0] if not req[0].startswith("int:") else None
        near = []
        for r, a in clauses:
            for x in a:
                if main and (x.startswith(main + " ") or f"truthy({main})" == x) or (not main and x.startswith("int:") and set(k for k in req[0].split() if "*" in k and k[3:] ) and any(tok[3:] in x for tok in req[0].split() if "*" in tok)):
                    near.append((r, sorted(a)))
                    break
        truthy = [n for n in near if any(x.startswith("truthy(CAP)") or x.startswith("truthy(LMO)") for x in n[1])] if main in ("CAP", "LMO") else []
        if truthy and main in ("CAP", "LMO"):
            ctx.bad(rid, truthy[0][0],
                    f"clause '{name}' ({what}) tests whether the numeric option is set by truthiness: a value of 0.0 skips the check (the sibling option lambda_minus_one is tested with `is not False`)",
                    construct=f"{name}: " + " and ".join(truthy[0][1]))
        else:
            ctx.bad(rid, near[0][0] if near else f,
                    f"check_config has no clause rejecting {what} (required guard: {' and '.join(req)}); closest: {near[0][1] if near else 'none'}",
                    construct=f"missing clause: {name}")
    # the error type must not be swallowed inside check_config
    for t in [n for n in walk_local(f) if isinstance(n, ast.Try)]:
        for h in t.handlers:
            hn = ast.unparse(h.type) if h.type is not None else "<bare>"
            if h.type is None or "TOMLConfigError" in hn or hn in ("Exception", "BaseException"):
                ctx.bad(rid, h, "check_config catches the configuration error it raises: an invalid configuration would be accepted")


def r182(ctx):
    rid = "R-18.2"
    tree = ctx.tree
    f = tree.func(SETUP, "setup_config")
    fl = flow_of(f)
    cfg = fl.cfg
    checks = [c for c in walk_local(f) if isinstance(c, ast.Call) and last_name(c) == "check_config"]
    rets = [r for r in walk_local(f) if isinstance(r, ast.Return) and r.value is not None and not (isinstance(r.value, ast.Constant) and r.value.value is None)]
    if not rets:
        raise AnalysisError("R-18.2: no `return config` in setup_config")
    for r in rets:
        rn = cfg.node_of(r)
        aliases = {path_of(r.value)}
        todo = [(r.value, rn)]
        while todo:
            ex, at0 = todo.pop()
            p0 = path_of(ex)
            if p0 is None:
                continue
            for d, sfx in fl.rd(p0, at0):
                if d.kind == "assign" and isinstance(d.value, ast.Name) and d.value.id not in aliases:
                    aliases.add(d.value.id)
                    todo.append((d.value, d.at))
        doms = [c for c in checks if cfg.dominates(cfg.node_of(c), rn) and c.args and path_of(c.args[0]) in aliases]
        if not doms:
            ctx.bad(rid, r, "setup_config can return a configuration that has not passed check_config")
            continue
        cn = cfg.node_of(doms[-1])
        # no normalising store between the check and the return
        late = [d for d in fl.defs if any(d.path.startswith((a or "config") + "[") for a in aliases) and d.kind in ("assign", "item", "aug") and cfg.reaches(cn, d.at) and cfg.reaches(d.at, rn)]
        if late:
            ctx.bad(rid, late[0].stmt, "the configuration is modified after check_config and before it is returned: what is validated is not what is used")
        else:
            ctx.ok(rid, r, "`return config` dominated by check_config(config); no store to config in between")
        # exceptions of check_config are not swallowed here
        n = doms[-1]
        par = getattr(n, "_parent", None)
        while par is not None and par is not f:
            if isinstance(par, ast.Try) and any(h.type is None or "TOMLConfigError" in ast.unparse(h.type) or ast.unparse(h.type) in ("Exception", "BaseException") for h in par.handlers):
                ctx.bad(rid, par, "setup_config catches the configuration error of check_config")
            par = getattr(par, "_parent", None)
    # the scheduler only runs on setup_config's value
    binmod = "infretis/bin.py"
    g = tree.func(binmod, "internalrun")
    gfl = flow_of(g)
    for c in [c for c in walk_local(g) if isinstance(c, ast.Call) and last_name(c) == "scheduler"]:
        srcs = gfl.sources(c.args[0], gfl.cfg.node_of(c)) if c.args else []
        if srcs and all(k == "expr" and isinstance(n, ast.Call) and last_name(n) == "setup_config" for k, n, _, _ in srcs):
            ctx.ok(rid, c, "scheduler(config) receives the value returned by setup_config")
        else:
            ctx.bad(rid, c, "scheduler is started with a configuration that did not come from setup_config (unvalidated)")
    for m, q, h in tree.all_funcs():
        if h is g or m.rel.startswith("infretis/tools/"):
            continue
        for c in [c for c in walk_local(h) if isinstance(c, ast.Call) and isinstance(c.func, ast.Name) and c.func.id == "scheduler"]:
            ctx.bad(rid, c, f"scheduler is also called from {q}, bypassing setup_config")


def r183(ctx):
    """Re-reading a restart file the program wrote is a fixed point of setup_config's
    normalisation: on the restart path every store outside [current] only fills in a missing
    default (shared rule, resolved through configuration provenance, not through local names)."""
    from .shared import RuleProxy, restart_preserves_settings
    restart_preserves_settings(RuleProxy(ctx, "R-18.3"), "R-18.3", " (setup_config is not idempotent on its own output)")


def r186(ctx):
    """Iteration-space completeness of the 'engine defined' clause: the list whose elements are
    tested against the configuration's sections is built from *every* name in every ensemble's
    engine list - the collecting loops are not left early and a name is skipped only when it is
    already in the list."""
    rid = "R-18.6"
    tree = ctx.tree
    f = tree.func(SETUP, "check_config")
    fl = flow_of(f)
    cfg = fl.cfg
    # the clause: for K in U: if K not in config(.keys()): raise
    U = None
    for L in [x for x in walk_local(f) if isinstance(x, ast.For) and isinstance(x.iter, ast.Name) and isinstance(x.target, ast.Name)]:
        for r in [y for y in ast.walk(L) if isinstance(y, ast.Raise)]:
            for e, t, _ in cfg.guards(cfg.node_of(r)):
                if isinstance(e, ast.Compare) and len(e.ops) == 1 and isinstance(e.ops[0], (ast.NotIn, ast.In)) and isinstance(e.left, ast.Name) and e.left.id == L.target.id and "config" in ast.unparse(e.comparators[0]):
                    U = L.iter.id
    if U is None:
        raise AnalysisError("R-18.6: the loop that tests every engine name against the configuration was not found")
    apps = [c for c in walk_local(f) if isinstance(c, ast.Call) and isinstance(c.func, ast.Attribute) and c.func.attr in ("append", "add") and isinstance(c.func.value, ast.Name) and c.func.value.id == U and c.args]
    if not apps:
        # a comprehension / set built in one expression visits every element by construction
        defs = [d for d in fl.defs if d.path == U and d.kind == "assign" and d.value is not None]
        if defs and all(isinstance(d.value, (ast.ListComp, ast.SetComp, ast.Call)) and "ensemble_engines" in ast.unparse(d.value) for d in defs):
            ctx.ok(rid, defs[0].stmt, f"`{U}` is built in one expression over ensemble_engines: every name is collected")
            return
        raise AnalysisError(f"R-18.6: no statement that adds names to `{U}` found")
    for c in apps:
        loops = []
        n = getattr(c, "_parent", None)
        while n is not None and n is not f:
            if isinstance(n, ast.For):
                loops.append(n)
            n = getattr(n, "_parent", None)
        if len(loops) < 2:
            raise AnalysisError("R-18.6: the collecting statement is not inside a loop over the ensembles and their engine lists")
        inner, outer = loops[0], loops[1]
        src, _ = deref(fl, outer.iter, cfg.node_of(outer))
        ok_space = "ensemble_engines" in ast.unparse(src) and isinstance(inner.iter, ast.Name) and isinstance(outer.target, ast.Name) and inner.iter.id == outer.target.id \
            and isinstance(inner.target, ast.Name) and isinstance(c.args[0], ast.Name) and c.args[0].id == inner.target.id
        if not ok_space:
            ctx.bad(rid, c, f"`{U}` is not filled from every element of every list in simulation.ensemble_engines", construct=short(c, 60))
            continue
        early = [x for x in ast.walk(outer) if isinstance(x, (ast.Break, ast.Return))]
        facts = [(e, t) for e, t, bn in cfg.guards(cfg.node_of(c)) if any(bn.ast is y for y in ast.walk(outer))]
        other = []
        for e, t in facts:
            mem = isinstance(e, ast.Compare) and len(e.ops) == 1 and isinstance(e.ops[0], (ast.In, ast.NotIn)) and isinstance(e.left, ast.Name) and e.left.id == inner.target.id \
                and isinstance(e.comparators[0], ast.Name) and e.comparators[0].id == U and (t == isinstance(e.ops[0], ast.NotIn))
            if not mem:
                other.append(short(e, 40))
        if early:
            ctx.bad(rid, early[0], f"the loops that collect the engine names leave early (`{short(early[0], 20)}`): names listed after that point in simulation.ensemble_engines are never tested against the configuration's engine sections, so an undefined engine is accepted and fails later with a KeyError", construct="engine collection loop left early")
        elif other:
            ctx.bad(rid, c, f"an engine name is collected only under {other}: names for which that does not hold are never validated", construct="engine collection guard")
        else:
            ctx.ok(rid, c, "every name of every ensemble's engine list is collected (skipped only when already collected) and tested against the configuration")


def r189(ctx):
    """Initialisation demands no more of a configuration than check_config guarantees. check_config
    rejects only *fewer* shooting moves than interfaces (surplus moves are legal and occur in the
    shipped examples), so nothing on the initialisation path may require the two lists to be
    equally long: no `zip(..., strict=True)` (nor an equality assert) between a list of the
    ensembles / interfaces and the list of moves."""
    rid = "R-18.9"
    tree = ctx.tree
    cc = tree.func(SETUP, "check_config")
    equal_enforced = any(isinstance(x, ast.Compare) and len(x.ops) == 1 and isinstance(x.ops[0], (ast.NotEq, ast.Eq)) and "shooting_moves" in ast.unparse(x) and "interfaces" in ast.unparse(x) and "len(" in ast.unparse(x) for x in walk_local(cc))
    n = 0
    for rel in (REPEX, SETUP, SCHED, "infretis/core/tis.py"):
        for m, q, f in tree.all_funcs([rel]):
            fl = None
            for c in walk_local(f):
                if not (isinstance(c, ast.Call) and last_name(c) == "zip"):
                    continue
                n += 1
                strict = any(k.arg == "strict" and isinstance(k.value, ast.Constant) and k.value.value is True for k in c.keywords)
                if not strict:
                    continue
                fl = fl or flow_of(f)
                txts = []
                for a in c.args:
                    t = ast.unparse(a)
                    if isinstance(a, ast.Name):
                        try:
                            a2, _ = deref(fl, a, fl.cfg.node_of(enclosing_stmt(c)))
                            t += " " + ast.unparse(a2)
                        except Exception:
                            pass
                    txts.append(t)
                moves = [t for t in txts if "mc_moves" in t or "shooting_moves" in t]
                others = [t for t in txts if t not in moves]
                if moves and others and not equal_enforced:
                    ctx.bad(rid, c, f"{q} pairs `{short(c.args[0], 30)}` with the list of moves by `zip(..., strict=True)`: check_config accepts configurations with more shooting moves than interfaces, and those now raise ValueError during initialisation (zip() argument is longer) - an accepted configuration does not initialise", construct=f"{q}: strict zip with the list of moves")
                else:
                    ctx.ok(rid, c, f"{q}: strict zip over lists whose equal length is guaranteed")
    if n == 0:
        raise AnalysisError("R-18.9: no zip() found on the initialisation path (cannot decide)")
    ctx.ok(rid, cc, f"{n} zip() calls on the scheduler / initialisation path examined; equality of moves and interfaces enforced by check_config: {equal_enforced}")


def r1810(ctx):
    """check_config itself never dies with an IndexError: every element access of the interface /
    move lists is dominated by the clause that rejects a list too short for it."""
    import re
    rid = "R-18.10"
    f = ctx.tree.func(SETUP, "check_config")
    C = _Canon(f)
    cfg = C.cfg
    # validation clauses: `if <test>: ... raise TOMLConfigError` -> fact on the fall-through edge
    facts = []  # (test node, If, kind, value)
    for st in [n for n in walk_local(f) if isinstance(n, ast.If)]:
        if not (st.body and isinstance(st.body[-1], ast.Raise)) or st.orelse:
            continue
        tn = cfg.node_of(st.test)
        a = C.atom(st.test, True, tn)
        m = re.fullmatch(r"int: -1\*len\(I\) ([+-]\d+) >= 0", a)
        if m:  # raise when k - len(I) >= 0, i.e. afterwards len(I) >= k + 1
            facts.append((tn, st, "minI", int(m.group(1)) + 1))
        m = re.fullmatch(r"int: \+1\*len\(I\) -1\*len\(M\) ([+-]\d+) >= 0", a)
        if m:  # raise when len(I) - len(M) + k >= 0, i.e. afterwards len(M) >= len(I) + k + 1
            facts.append((tn, st, "MminusI", int(m.group(1)) + 1))

    def inside(node, st):
        p_ = node
        while p_ is not None and p_ is not f:
            if p_ is st:
                return True
            p_ = getattr(p_, "_parent", None)
        return False

    def holds(kind, need, use, un):
        for tn, st, k, v in facts:
            if k == kind and v >= need and not inside(use, st) and cfg.dominates(tn, un):
                return st
        return None

    n = 0
    for sub in [x for x in walk_local(f) if isinstance(x, ast.Subscript) and not isinstance(x.slice, ast.Slice) and isinstance(x.ctx, ast.Load)]:
        un = cfg.node_of(sub)
        base = C.sym(sub.value, un)
        if base not in ("I", "M"):
            continue
        n += 1
        idx = sub.slice
        if isinstance(idx, ast.UnaryOp) and isinstance(idx.op, ast.USub) and isinstance(idx.operand, ast.Constant):
            c = -idx.operand.value
        elif isinstance(idx, ast.Constant) and isinstance(idx.value, int):
            c = idx.value
        else:
            c = None
        what = {"I": "interfaces", "M": "shooting_moves"}[base]
        if c is not None:
            need = c + 1 if c >= 0 else -c
            if base == "I":
                g = holds("minI", need, sub, un)
            else:
                # len(M) >= len(I) + d and len(I) >= m  ->  len(M) >= m + d
                g = None
                for tn, st, k, v in facts:
                    if k == "MminusI" and not inside(sub, st) and cfg.dominates(tn, un):
                        for tn2, st2, k2, v2 in facts:
                            if k2 == "minI" and v2 + v >= need and not inside(sub, st2) and cfg.dominates(tn2, un):
                                g = st
            if g is not None:
                ctx.ok(rid, sub, f"`{short(sub, 30)}` is evaluated only after the clause `{short(g.test, 40)}` rejected a list too short for it")
            else:
                ctx.bad(rid, sub, f"check_config evaluates `{short(sub, 30)}` on a path on which no clause has yet rejected a {what} list with fewer than {need} element(s): such a configuration dies with a bare IndexError inside the validator instead of a configuration error",
                        construct=f"check_config: {short(sub, 30)} before the length clause")
            continue
        # index = enumerate counter over the interfaces (+ constant)
        off, var = 0, idx
        if isinstance(idx, ast.BinOp) and isinstance(idx.op, (ast.Add, ast.Sub)) and isinstance(idx.right, ast.Constant) and isinstance(idx.right.value, int):
            off = idx.right.value if isinstance(idx.op, ast.Add) else -idx.right.value
            var = idx.left
        top = None  # index <= len(I) + top
        if isinstance(var, ast.Name):
            p_ = getattr(sub, "_parent", None)
            while p_ is not None and p_ is not f:
                if isinstance(p_, ast.For) and isinstance(p_.iter, ast.Call) and last_name(p_.iter) == "enumerate" and p_.iter.args and not p_.iter.args[1:] and not p_.iter.keywords \
                        and isinstance(p_.target, ast.Tuple) and isinstance(p_.target.elts[0], ast.Name) and p_.target.elts[0].id == var.id:
                    it = C.sym(p_.iter.args[0], cfg.node_of(p_))
                    if it == "I":
                        top = -1 + off
                    elif it == "I[:-1]":
                        top = -2 + off
                    break
                if isinstance(p_, ast.For) and isinstance(p_.iter, ast.Call) and last_name(p_.iter) == "range" and len(p_.iter.args) == 1 and isinstance(p_.target, ast.Name) and p_.target.id == var.id:
                    lf = C.lin(p_.iter.args[0], cfg.node_of(p_))
                    if lf is not None and set(lf) <= {"len(I)", 1} and lf.get("len(I)") == 1:
                        top = lf.get(1, 0) - 1 + off
                    break
                p_ = getattr(p_, "_parent", None)
        if top is None:
            ctx.bad(rid, sub, f"check_config indexes {what} with `{short(idx, 30)}`, which the analysis cannot bound by the number of interfaces (cannot decide that the access is in range for every configuration that reaches it)", construct=f"check_config: {short(sub, 30)} unbounded")
            continue
        # index <= len(I) + top  must be  <= len(base) - 1
        if base == "I":
            g = f if top <= -1 else None
            gtxt = "the loop bound"
        else:
            g = holds("MminusI", top + 1, sub, un)
            gtxt = f"the clause `{short(g.test, 40)}`" if g is not None else ""
        if g is not None:
            ctx.ok(rid, sub, f"`{short(sub, 30)}` (index at most len(interfaces){top:+d}) is in range by {gtxt}, which dominates it")
        else:
            ctx.bad(rid, sub, f"check_config evaluates `{short(sub, 30)}` (index up to len(interfaces){top:+d}) on a path on which the clause rejecting fewer shooting moves than ensembles has not run: a configuration with too few moves dies with a bare IndexError inside the validator instead of a configuration error",
                    construct=f"check_config: {short(sub, 30)} before the move-count clause")
    if n == 0:
        raise AnalysisError("R-18.10: no element access of the interface / move lists found in check_config")


def r1811(ctx):
    """check_config looks an engine section up (`config[<engine name>]`) only for names it has already
    found defined: either the name of the current iteration of the validating loop (after its raise), or
    any name once the validating loop has completed. A look-up of *another* name inside the validating
    loop reaches names not validated yet: an undefined engine listed after a gromacs engine dies with a
    bare KeyError instead of a configuration error."""
    rid = "R-18.11"
    f = ctx.tree.func(SETUP, "check_config")
    cfg = cfg_of(f)
    fl = flow_of(f)
    # the collection of engine names and the loop that validates them
    vloops = []
    for lp in [x for x in walk_local(f) if isinstance(x, ast.For) and isinstance(x.target, ast.Name)]:
        for st in ast.walk(lp):
            if isinstance(st, ast.If) and st.body and isinstance(st.body[-1], ast.Raise) and isinstance(st.test, ast.Compare) and len(st.test.ops) == 1 and isinstance(st.test.ops[0], ast.NotIn) \
                    and isinstance(st.test.left, ast.Name) and st.test.left.id == lp.target.id and ast.unparse(st.test.comparators[0]).replace(".keys()", "") == "config":
                vloops.append((lp, st))
    if len(vloops) != 1:
        raise AnalysisError(f"R-18.11: {len(vloops)} loops validating the engine names found (expected 1)")
    V, vif = vloops[0]
    names_src = ast.unparse(V.iter)
    n = 0
    for sub in [x for x in walk_local(f) if isinstance(x, ast.Subscript) and isinstance(x.value, ast.Name) and x.value.id == "config" and isinstance(x.slice, ast.Name)]:
        key = sub.slice.id
        # the loop that binds the key
        binder = None
        p_ = getattr(sub, "_parent", None)
        while p_ is not None and p_ is not f:
            if isinstance(p_, ast.For) and isinstance(p_.target, ast.Name) and p_.target.id == key:
                binder = p_
                break
            p_ = getattr(p_, "_parent", None)
        if binder is None or ast.unparse(binder.iter) != names_src:
            continue
        n += 1
        un = cfg.node_of(sub)
        inV = any(sub is x for x in ast.walk(V))
        if binder is V and cfg.dominates(cfg.node_of(vif.test), un) and not any(sub is x for x in ast.walk(vif)):
            ctx.ok(rid, sub, f"`{short(sub, 30)}`: the name of the current iteration, after its definedness test")
        elif not inV and cfg.dominates(cfg.node_of(V), un):
            ctx.ok(rid, sub, f"`{short(sub, 30)}` is evaluated after the loop that validates every engine name")
        else:
            ctx.bad(rid, sub, f"check_config evaluates `{short(sub, 30)}` for an engine name that has not passed the definedness test yet (the look-up sits inside the validating loop and ranges over all names): an undefined engine listed after the current one dies with a bare KeyError instead of a configuration error",
                    construct=f"check_config: {short(sub, 30)} before every engine name is validated")
    if n == 0:
        raise AnalysisError("R-18.11: no engine-section look-up found in check_config")


def run(ctx):
    ctx.rule("R-18.11", "engine sections are looked up only for names already found defined: the current name after its test, or any name after the validating loop", floor=2)
    ctx.attempt(r1811, ctx)
    ctx.rule("R-18.10", "the validator itself does not fail: every element access of the interface / move lists in check_config is dominated by the clause that rejects a list too short for it (a bad configuration gets a configuration error, not an IndexError)", floor=4)
    ctx.attempt(r1810, ctx)
    ctx.rule("R-18.5", "every configuration key is validated and used under the same section path", floor=20)
    ctx.rule("R-18.4", "no `for` variable of the configuration checks is read after its loop has ended", floor=3)
    ctx.rule("R-18.1", "one rejection clause per item of the property statement, integer comparisons normalised, numeric options tested with `is not False`", floor=11)
    ctx.rule("R-18.2", "every returned configuration passed check_config last; scheduler only runs on setup_config's result", floor=2)
    ctx.rule("R-18.3", "normalising stores of setup_config are idempotent by shape", floor=5)
    ctx.rule("R-18.7", "an accepted configuration reaches the weight function whole: calc_cv_vector receives interfaces, moves, lambda_minus_one and cap from the configuration at every call site, each in its own parameter (shared with C06 R-6.8)", floor=4)
    from .shared import callsite_config_agreement
    ctx.attempt(callsite_config_agreement, ctx, "R-18.7", "calc_cv_vector", ["interfaces", "moves", "lambda_minus_one", "cap"], " (an accepted configuration with interface_cap initialises with weights computed against the last interface: the initial paths are weighted differently from every later path, silently)")
    ctx.rule("R-18.8", "a restart file is accepted only when every path it names as live is stored on disk: the restart branch of setup_config refuses (returns None) when any traj.txt of current.active is missing (shared with C08 R-8.4)", floor=2)
    from . import c08 as _c08
    from .shared import RuleProxy as _RP18
    ctx.attempt(_c08.r84, _RP18(ctx, "R-18.8", " (an accepted restart configuration then dies in load_paths_from_disk with an AssertionError instead of being refused up front)"))
    ctx.rule("R-18.9", "initialisation requires no more than check_config guarantees: no strict zip / equal-length demand between ensembles and the list of moves (surplus moves are accepted)", floor=1)
    ctx.attempt(r189, ctx)
    ctx.attempt(r181, ctx)
    ctx.attempt(r182, ctx)
    ctx.attempt(r183, ctx)
    ctx.rule("R-18.6", "the engine-defined clause covers every name of every ensemble's engine list (collection loops not left early)", floor=1)
    ctx.attempt(r186, ctx)
    from .shared import stale_loop_variable, config_section_agreement
    ctx.attempt(config_section_agreement, ctx, "R-18.5", " - the setting is validated in one section and used from another")
    ctx.attempt(stale_loop_variable, ctx, "R-18.4", [SETUP], None, " (a clause would validate only the last element)")


VARIANTS = [
    B("c18-gromacs-check-inside-the-defined-loop", SETUP, "            raise TOMLConfigError(f\"Engine '{key1}' not defined!\")\n\n    # gromacs check\n    for key1 in unique_engines:\n        if config[key1][\"class\"] == \"gromacs\":", "            raise TOMLConfigError(f\"Engine '{key1}' not defined!\")\n\n        # gromacs check\n        if config[key1][\"class\"] == \"gromacs\":", "R-18.11", control=True, why="seeded C18_p"),
    B("c18-move-count-clause-after-the-wf-loop", SETUP, "    if n_ens > n_sh_moves:\n        raise TOMLConfigError(\n            f\"N_interfaces {n_ens} > N_shooting_moves {n_sh_moves}!\"\n        )\n\n", "", "R-18.10", control=True, also=[(SETUP, "    # engine checks\n    unique_engines = []", "    if n_ens > n_sh_moves:\n        raise TOMLConfigError(\n            f\"N_interfaces {n_ens} > N_shooting_moves {n_sh_moves}!\"\n        )\n\n    # engine checks\n    unique_engines = []")], why="seeded C18_n"),
    B("c18-interface-count-clause-after-first-use", SETUP, "    if n_ens < 2:\n        raise TOMLConfigError(\"Define at least 2 interfaces!\")\n\n", "", "R-18.10", also=[(SETUP, "    if n_workers > n_ens - 1:", "    if n_ens < 2:\n        raise TOMLConfigError(\"Define at least 2 interfaces!\")\n\n    if n_workers > n_ens - 1:")], why="pre-fix order (fixed by 4a1e4aa)"),
    K("c18-keep-move-count-clause-first", SETUP, "    if n_ens > n_sh_moves:\n        raise TOMLConfigError(\n            f\"N_interfaces {n_ens} > N_shooting_moves {n_sh_moves}!\"\n        )\n\n", "", also=[(SETUP, "    if n_workers > n_ens - 1:", "    if n_sh_moves < n_ens:\n        raise TOMLConfigError(\n            f\"N_interfaces {n_ens} > N_shooting_moves {n_sh_moves}!\"\n        )\n\n    if n_workers > n_ens - 1:")], why="moved up and respelled: still dominates the loop"),
    B("c18-ensembles-zipped-strictly-with-moves", REPEX, "        for i, ens_intf in enumerate(ens_intfs):", "        for i, (ens_intf, mc_move) in enumerate(zip(ens_intfs, self.mc_moves, strict=True)):", "R-18.9", control=True, why="seeded C18_m"),
    K("c18-keep-ensembles-zipped-with-moves", REPEX, "        for i, ens_intf in enumerate(ens_intfs):", "        for i, (ens_intf, mc_move) in enumerate(zip(ens_intfs, self.mc_moves)):"),
    B("c18-restart-refused-only-when-all-paths-missing", SETUP, '        for act in config["current"]["active"]:\n            store_p = os.path.join(load_dir, str(act), "traj.txt")\n            if not os.path.isfile(store_p):\n                return None\n', '        stored = [os.path.isfile(os.path.join(load_dir, str(act), "traj.txt")) for act in config["current"]["active"]]\n        if not any(stored):\n            return None\n', "R-18.8", control=True, why="seeded C18_k"),
    K("c18-keep-restart-refused-when-any-path-missing", SETUP, '        for act in config["current"]["active"]:\n            store_p = os.path.join(load_dir, str(act), "traj.txt")\n            if not os.path.isfile(store_p):\n                return None\n', '        stored = [os.path.isfile(os.path.join(load_dir, str(act), "traj.txt")) for act in config["current"]["active"]]\n        if not all(stored):\n            return None\n'),
    B("c18-cap-lands-on-lambda-minus-one", REPEX, "                lambda_minus_one=self.config[\"simulation\"][\"tis_set\"][\n                    \"lambda_minus_one\"\n                ],\n                cap=self.cap,", "                lambda_minus_one=self.cap,", "R-18.7", control=True, why="seeded C18_j"),
    B("c18-engine-collection-breaks", SETUP, "            if engine not in unique_engines:\n                unique_engines.append(engine)", "            if engine in unique_engines:\n                break\n            unique_engines.append(engine)", "R-18.6", control=True, why="seeded C18_g"),
    K("c18-keep-engine-collection-continue", SETUP, "            if engine not in unique_engines:\n                unique_engines.append(engine)", "            if engine in unique_engines:\n                continue\n            unique_engines.append(engine)"),
    B("c18-cap-checked-in-wrong-section", SETUP, 'intf_cap = config["simulation"]["tis_set"].get("interface_cap", False)', 'intf_cap = config["simulation"].get("interface_cap", False)', "R-18.5", control=True),
    B("c18-wf-clause-after-loop", SETUP, "        for idx, intf_i in enumerate(intf[:-1]):\n            if sh_moves[idx + 1] == \"wf\" and intf_cap <= intf_i:\n                raise TOMLConfigError(\n                    f\"Interface_cap {intf_cap} leaves no room for the 'wf' \"\n                    f\"ensemble with interface {intf_i}\"\n                )", "        for idx, intf_i in enumerate(intf[:-1]):\n            pass\n        if sh_moves[idx + 1] == \"wf\" and intf_cap <= intf_i:\n            raise TOMLConfigError(\n                f\"Interface_cap {intf_cap} leaves no room for the 'wf' \"\n                f\"ensemble with interface {intf_i}\"\n            )", "R-18.4", control=True),
    B("c18-unsorted-accepted", SETUP, '        raise TOMLConfigError("Your interfaces are not sorted!")', '        logger.info("Your interfaces are not sorted!")', "R-18.1", control=True),
    B("c18-duplicates-accepted", SETUP, "    if len(set(intf)) != len(intf):", "    if len(set(intf)) > len(intf):", "R-18.1"),
    B("c18-one-interface-accepted", SETUP, "    if n_ens < 2:", "    if n_ens < 1:", "R-18.1"),
    B("c18-worker-bound-off-by-one", SETUP, "    if n_workers > n_ens - 1:", "    if n_workers > n_ens:", "R-18.1", control=True),
    B("c18-moves-off-by-one", SETUP, "    if n_ens > n_sh_moves:", "    if n_ens > n_sh_moves + 1:", "R-18.1"),
    B("c18-cap-truthiness", SETUP, "    if intf_cap is not False and intf_cap > intf[-1]:", "    if intf_cap and intf_cap > intf[-1]:", "R-18.1", control=True, why="pre-fix F18.2"),
    B("c18-cap-wf-room-dropped", SETUP, '            if sh_moves[idx + 1] == "wf" and intf_cap <= intf_i:', '            if sh_moves[idx + 1] == "wf" and intf_cap <= intf[0]:', "R-18.1", why="pre-fix F18.1 (clause not relating the cap to each wf interface)"),
    B("c18-cap-wf-room-strict", SETUP, '            if sh_moves[idx + 1] == "wf" and intf_cap <= intf_i:', '            if sh_moves[idx + 1] == "wf" and intf_cap < intf_i:', "R-18.1"),
    B("c18-quantis-lambda-truthiness", SETUP, "    if quantis and lambda_minus_one is not False:", "    if quantis and lambda_minus_one:", "R-18.1", why="pre-fix F18.3"),
    B("c18-lambda-equal-accepted", SETUP, "    if lambda_minus_one is not False and lambda_minus_one >= intf[0]:", "    if lambda_minus_one is not False and lambda_minus_one > intf[0]:", "R-18.1"),
    B("c18-engine-undefined-accepted", SETUP, "        if key1 not in config.keys():\n            raise TOMLConfigError(f\"Engine '{key1}' not defined!\")", "        if key1 not in config.keys():\n            logger.info(f\"Engine '{key1}' not defined!\")", "R-18.1"),
    B("c18-error-swallowed", SETUP, "    if n_ens < 2:\n        raise TOMLConfigError(\"Define at least 2 interfaces!\")", "    try:\n        if n_ens < 2:\n            raise TOMLConfigError(\"Define at least 2 interfaces!\")\n    except TOMLConfigError:\n        pass", "R-18.1"),
    B("c18-return-unchecked", SETUP, "    check_config(config)\n\n    return config", "    return config", "R-18.2", control=True),
    B("c18-normalise-after-check", SETUP, "    check_config(config)\n\n    return config", "    check_config(config)\n    config[\"runner\"][\"workers\"] = int(config[\"runner\"][\"workers\"]) + 0\n    return config", "R-18.2"),
    B("c18-scheduler-bypass", "infretis/bin.py", "    config = setup_config(input_file)\n    if config is None:\n        return\n    scheduler(config)", "    import tomli\n    with open(input_file, \"rb\") as rfile:\n        config = tomli.load(rfile)\n    scheduler(config)", "R-18.2"),
    B("c18-seed-overwritten", SETUP, '    if "seed" not in config["simulation"].keys():\n        config["simulation"]["seed"] = 0', '    config["simulation"]["seed"] = 0', "R-18.3", control=True),
    K("c18-keep-worker-bound-ge", SETUP, "    if n_workers > n_ens - 1:", "    if n_workers >= n_ens:"),
    K("c18-keep-two-reversed", SETUP, "    if n_ens < 2:", "    if 2 > n_ens:"),
    K("c18-keep-sorted-swapped", SETUP, "    if sorted(intf) != intf:", "    if intf != sorted(intf):"),
    K("c18-keep-inline-len", SETUP, "    if n_ens > n_sh_moves:", "    if len(intf) > len(sh_moves):"),
    K("c18-keep-check-result-local", SETUP, "    check_config(config)\n\n    return config", "    check_config(config)\n    result = config\n    return result"),
]
