"""C08 - a crash at any point leaves a restartable, consistent state.

Effect-order analysis of the commit protocol: the order and atomicity of
durable file-system effects on every path through one Monte Carlo step, and
what may be deleted.
"""

from __future__ import annotations

import ast

from ..cfg import cfg_of
from ..flow import deref, flow_of, path_of
from ..loader import FUNC, AnalysisError, const_fold, dotted, last_name, loc, short, walk_local, enclosing_stmt
from ..util import FORMATTER, PATH, REPEX, SETUP, is_self_attr, kwarg, last_key, oriented
from ..variants import B, K

EXPLANATION = (
    "Effect-order analysis on the CFG of REPEX_state.treat_output / write_toml "
    "/ pick / pick_lock, PathStorage.output, setup_config and load_path: "
    "(R-8.1) a newly numbered path is materialised on disk before the commit "
    "that names it; (R-8.2) restart.toml is replaced atomically (temporary "
    "name + os.replace after the dump) and is the file setup_config reads; "
    "(R-8.3) every deletion operand comes from an entry popped from the "
    "retirement FIFO, insertion follows deletion, initial paths are never "
    "queued; (R-8.4) a restart refuses an incomplete tree; (R-8.5) every "
    "durable effect before the commit is idempotent under re-execution or "
    "reconciled at restart; (R-8.6) every job issuer records its job in the "
    "in-flight list exactly once."
)
NOT_DECIDED = "behaviour of the file system itself; what a half-written MD trajectory file contains"
ASSUMPTIONS = [
    "os.replace is atomic on the target file system (POSIX rename)",
    "files opened with mode 'w' are rewritten completely when the step is re-executed",
]

REMOVERS = {"os.remove", "os.unlink", "os.rmdir", "shutil.rmtree", "os.removedirs"}


def _calls(f, pred):
    return [c for c in walk_local(f) if isinstance(c, ast.Call) and pred(c)]


def r81(ctx):
    rid = "R-8.1"
    tree = ctx.tree
    f = tree.func(REPEX, "REPEX_state.treat_output")
    fl = flow_of(f)
    cfg = fl.cfg
    numbering = [d for d in fl.defs if d.path.endswith(".path_number") and d.kind == "assign"]
    commits = _calls(f, lambda c: is_self_attr(c.func, "write_toml"))
    stores = _calls(f, lambda c: dotted(c.func).endswith("pstore.output"))
    if not commits:
        ctx.bad(rid, f, "treat_output never commits (no write_toml call): a completed step is lost on a crash")
        return
    if not numbering:
        raise AnalysisError("R-8.1: no path_number store found in treat_output")
    cn = [cfg.node_of(c) for c in commits]
    sn = [cfg.node_of(c) for c in stores]
    for d in numbering:
        bad = False
        for c in cn:
            if cfg.reaches(d.at, c, avoid=sn):
                bad = True
        if bad or not stores:
            ctx.bad(rid, d.stmt, "a newly numbered path can reach the commit (write_toml) without having been written to disk (pstore.output): the restart file would name a path that does not exist")
        else:
            ctx.ok(rid, d.stmt, "every path from numbering to write_toml passes pstore.output")
    # the commit is the last durable effect of the step: nothing numbered after it
    for c in cn:
        r = cfg.reachable(c)
        late = [d for d in numbering if d.at.id in r]
        late_store = [s for s in sn if s.id in r]
        if late or late_store:
            ctx.bad(rid, commits[0], "the commit precedes the storing of a path in the same step (write_toml hoisted above the store loop)")
        else:
            ctx.ok(rid, commits[0], "write_toml is after the store loop")
    # inside PathStorage.output: directories, txt files and moves all precede return
    g = tree.func(FORMATTER, "PathStorage.output")
    gc = cfg_of(g)
    for name in ("make_dirs", "output_path_files", "_move_path"):
        cs = _calls(g, lambda c: last_name(c) == name)
        if not cs:
            ctx.bad(rid, g, f"PathStorage.output does not call {name}: the stored path is incomplete when the commit names it")
            continue
        nodes = [gc.node_of(c) for c in cs]
        if gc.reaches(gc.entry, gc.exit, avoid=nodes):
            ctx.bad(rid, cs[0], f"PathStorage.output can return without {name}")
        else:
            ctx.ok(rid, cs[0], f"PathStorage.output: {name} on every path to return")


def _final_restart_name(tree):
    f = tree.func(SETUP, "setup_config")
    names = [a.arg for a in f.args.args]
    defaults = f.args.defaults
    for a, dflt in zip(names[len(names) - len(defaults):], defaults):
        if a == "re_inp" and isinstance(dflt, ast.Constant):
            return dflt.value
    raise AnalysisError("R-8.2: default of setup_config(re_inp=...) not found")


def _fold_local(e, fl, at, consts):
    try:
        return const_fold(e, consts)
    except ValueError:
        pass
    vals = set()
    for kind, node, _a, _x in fl.sources(e, at):
        if kind != "expr":
            return None
        try:
            vals.add(const_fold(node, consts))
        except ValueError:
            return None
    return vals.pop() if len(vals) == 1 else None


def _norm(p):
    return p[2:] if isinstance(p, str) and p.startswith("./") else p


def r82(ctx):
    rid = "R-8.2"
    tree = ctx.tree
    final = _final_restart_name(tree)
    f = tree.func(REPEX, "REPEX_state.write_toml")
    fl = flow_of(f)
    cfg = fl.cfg
    dumps = _calls(f, lambda c: dotted(c.func) in ("tomli_w.dump", "tomli_w.dumps", "toml.dump"))
    if not dumps:
        raise AnalysisError("R-8.2: no tomli_w.dump in write_toml")
    consts = f._mod.consts
    for dmp in dumps:
        # the file object: second argument, bound by `with open(P, mode) as f`
        fobj = dmp.args[1] if len(dmp.args) > 1 else None
        opened = None
        for kind, node, at, extra in fl.sources(fobj, cfg.node_of(dmp)) if fobj is not None else []:
            if kind == "with" and isinstance(node.value, ast.Call) and dotted(node.value.func) == "open":
                opened = node.value
            if kind == "expr" and isinstance(node, ast.Call) and dotted(node.func) == "open":
                opened = node
        if opened is None:
            ctx.bad(rid, dmp, "cannot resolve the file the restart state is dumped to")
            continue
        pname = _fold_local(opened.args[0], fl, cfg.node_of(opened), consts)
        if pname is None:
            ctx.bad(rid, opened, "name of the file the restart state is written to is not a constant the analysis can follow")
            continue
        if _norm(pname) == _norm(final):
            ctx.bad(
                rid, opened,
                f"the restart file {final!r} is opened for writing in place (truncated before the new state is written): "
                "a crash during the dump leaves an empty/partial restart file and no older copy",
                construct=f"open({pname!r}, 'wb') -> tomli_w.dump",
            )
            continue
        # must be moved over the final name after the dump on every normal path
        reps = _calls(f, lambda c: dotted(c.func) in ("os.replace", "os.rename", "shutil.move"))
        good = []
        for rp in reps:
            if len(rp.args) < 2:
                continue
            a0 = _fold_local(rp.args[0], fl, cfg.node_of(rp), consts)
            a1 = _fold_local(rp.args[1], fl, cfg.node_of(rp), consts)
            if _norm(a0) == _norm(pname) and _norm(a1) == _norm(final):
                good.append(rp)
        dn = cfg.node_of(dmp)
        if not good:
            ctx.bad(rid, dmp, f"the state is dumped to {pname!r} but never moved over {final!r} (the file setup_config reads)")
            continue
        gn = [cfg.node_of(g) for g in good]
        if cfg.reaches(dn, cfg.exit, avoid=gn):
            ctx.bad(rid, dmp, f"write_toml can return after the dump without replacing {final!r}")
        elif any(cfg.reaches(g, dn) for g in gn):
            ctx.bad(rid, good[0], "the rename precedes the dump: the final name receives an incomplete file")
        elif dotted(good[0].func) == "shutil.move":
            ctx.bad(rid, good[0], "shutil.move is not atomic across file systems; use os.replace")
        else:
            # the replace must come after the file is closed (outside the with block)
            w = enclosing_stmt(dmp)
            inside = False
            n = good[0]
            while n is not None:
                if isinstance(n, ast.With) and any(isinstance(i.context_expr, ast.Call) and i.context_expr is opened for i in n.items):
                    inside = True
                n = getattr(n, "_parent", None)
            if inside:
                ctx.bad(rid, good[0], "the temporary file is renamed while still open (unflushed data)")
            else:
                ctx.ok(rid, dmp, f"dump to {pname!r}, then os.replace over {final!r} on every normal path (file setup_config reads by default)")
    # the final name is never absent: write_toml has no effect that takes the file away from its final name
    # (remove / unlink / rename of the final name to something else) - the only effect on it is the replace
    nrm = 0
    for c in _calls(f, lambda c: dotted(c.func) in REMOVERS or dotted(c.func) in ("os.replace", "os.rename", "shutil.move") or (isinstance(c.func, ast.Attribute) and c.func.attr in ("unlink", "rename", "replace") and not c.args[1:2] and dotted(c.func.value) not in ("os", "shutil", "str"))):
        if not c.args and not isinstance(c.func, ast.Attribute):
            continue
        tgt = c.args[0] if c.args and dotted(c.func).split(".")[0] in ("os", "shutil") else (c.func.value if isinstance(c.func, ast.Attribute) else None)
        if isinstance(tgt, ast.Call) and last_name(tgt) in ("Path", "PurePath") and tgt.args:
            tgt = tgt.args[0]
        name = _fold_local(tgt, fl, cfg.node_of(c), consts) if tgt is not None else None
        nrm += 1
        if name is not None and _norm(name) == _norm(final):
            ctx.bad(rid, c, f"write_toml takes {final!r} away from its final name before the new file is in place ({short(c, 60)}): "
                    "between this effect and the rename no restart file exists - a crash there cannot be restarted from what is on disk",
                    construct=f"{dotted(c.func) or short(c.func, 30)}({final!r}) in write_toml")
        elif name is None and dotted(c.func) in REMOVERS:
            ctx.bad(rid, c, f"write_toml removes a file whose name the analysis cannot follow ({short(c, 60)}); it must not be {final!r}", construct=short(c, 60))
    if nrm:
        ctx.ok(rid, f, f"{nrm} rename/remove effect(s) in write_toml examined: none takes {final!r} away from its final name")


def r83(ctx):
    rid = "R-8.3"
    tree = ctx.tree
    f = tree.func(REPEX, "REPEX_state.treat_output")
    fl = flow_of(f)
    cfg = fl.cfg
    rem = _calls(f, lambda c: dotted(c.func) in REMOVERS)
    if len(rem) < 1:
        ctx.ok(rid, f, "no deletion in treat_output", nontrivial=False)
        return
    fifo = "self.pn_olds"
    loops = [n for n in walk_local(f) if isinstance(n, ast.For) and "picked" in ast.unparse(n.iter)]
    head = cfg.node_of(loops[0]) if loops else None
    inserts = [d for d in fl.defs if d.path.startswith(fifo + "[") and d.kind in ("assign", "item")]
    for c in rem:
        at = cfg.node_of(c)
        deps = fl.deps(c.args[0], at)
        data = {(k, key) for k, key in deps if k in ("free", "param")}
        allowed = lambda key: key == fifo or key.startswith("self.config") or key in ("os", "os.path")
        foreign = sorted(key for k, key in data if not allowed(key))
        from_fifo = any(key == fifo for k, key in data) and any(k == "call" and key == "next" for k, key in deps)
        if foreign or not from_fifo:
            ctx.bad(rid, c, "deletion operand does not come (only) from an entry taken from the head of the retirement FIFO self.pn_olds: "
                    f"it depends on {foreign or sorted(data)} - a live path or the path named by the on-disk restart file could lose files",
                    construct=short(c, 80))
            continue
        # guards
        lag = any(t and _is_lag_guard(e, fifo, fl, at) for e, t, _ in cfg.guards(at))
        init = any(t and _is_initial_guard(e, fl, at) for e, t, _ in cfg.guards(at))
        if not lag:
            ctx.bad(rid, c, "deletion is not guarded by the lag test on the FIFO length (len(self.pn_olds) > self.n - 2)")
        elif not init:
            ctx.bad(rid, c, "deletion is not guarded by `pn_old > self.n - 2`: the initial paths could be queued/deleted")
        else:
            ctx.ok(rid, c, "operand from the FIFO head only; guarded by lag test and initial-path test")
    # the entry deleted is the one popped
    pops = _calls(f, lambda c: isinstance(c.func, ast.Attribute) and c.func.attr in ("pop", "popitem") and path_of(c.func.value) == fifo)
    if not pops:
        ctx.bad(rid, rem[0], "the deleted entry is never removed from the retirement FIFO: its files would be deleted again")
    # insertion after deletion in the same iteration
    if not inserts:
        ctx.bad(rid, f, "replaced paths are never queued for deletion (delete_old has no effect) or are deleted immediately")
    for d in inserts:
        avoid = [head] if head is not None else []
        r = cfg.reachable(d.at, avoid=avoid)
        if any(cfg.node_of(c).id in r for c in rem):
            ctx.bad(rid, d.stmt, "the just-replaced path is queued before the deletion block of the same iteration: it can be deleted in the step in which the on-disk restart file still names it")
        else:
            facts = cfg.guards(d.at)
            renum = [cfg.node_of(st) for st in walk_local(f) if isinstance(st, ast.Assign) and any(isinstance(t_, ast.Attribute) and t_.attr == "path_number" for t_ in st.targets)]
            if not any(t and _is_initial_guard(e, fl, d.at) for e, t, _ in facts):
                ctx.bad(rid, d.stmt, "queueing for deletion is not guarded by `pn_old > self.n - 2`: initial paths would be deleted later")
            elif renum and not any(cfg.dominates(rn, d.at) for rn in renum):
                ctx.bad(rid, d.stmt, "the old path is queued for deletion also when the move was rejected (the store is not dominated by the assignment of a new path number, i.e. not inside the branch that replaces the path): a rejected, still-live path enters the FIFO with its own files and loses them n - 1 entries later while restart.toml still lists it", construct="delete queue filled outside the replacement branch")
            else:
                # what is queued must be the replaced path's own files
                v = d.value
                vs = ast.unparse(v) if v is not None else ""
                if "traj_data[pn_old]" not in vs.replace(" ", "") and "pn_old" not in vs:
                    ctx.bad(rid, d.stmt, "the entry queued for deletion is not the replaced path's file set")
                else:
                    ctx.ok(rid, d.stmt, "replaced path queued after the deletion block, under the initial-path guard")
    # _move_path's os.remove only removes an existing destination inside the new path's own directory
    g = tree.func(FORMATTER, "PathStorage._move_path")
    gfl = flow_of(g)
    for c in _calls(g, lambda c: dotted(c.func) in REMOVERS):
        deps = gfl.deps(c.args[0], gfl.cfg.node_of(c))
        if any(k == "param" and key == "target_dir" for k, key in deps) or any("source" in key for k, key in deps if k in ("free", "unpack", "iter")):
            srcs = gfl.sources(c.args[0], gfl.cfg.node_of(c))
            ctx.ok(rid, c, "_move_path removes only an existing *destination* (under target_dir) before moving onto it")
        else:
            ctx.bad(rid, c, "_move_path removes a file that is not a destination under the new path's own directory")


def _gt_n_minus_2(o, fl=None, at=None):
    """(lhs, op, rhs) says  lhs > self.n - 2  (equivalently >= self.n - 1)?  A local that holds
    the pure expression `self.n - 2` is looked through."""
    if o is None:
        return False
    rhs = o[2]
    if fl is not None and at is not None and isinstance(rhs, ast.Name):
        rhs = deref(fl, rhs, at)[0]
    r = ast.unparse(rhs).replace(" ", "")
    return (isinstance(o[1], ast.Gt) and r == "self.n-2") or (isinstance(o[1], ast.GtE) and r == "self.n-1")


def _is_replaced_number(x, fl, at):
    """Is x the number of the path being replaced (the value stored under the 'pn_old' key of the
    picked entry)? Resolved through provenance; the local's own name does not matter."""
    if not isinstance(x, ast.Name):
        return False
    for kind, node, sat, extra in fl.sources(x, at):
        t = (str(extra) if extra else "") + (ast.unparse(node) if isinstance(node, ast.AST) else "")
        if "pn_old" in t.replace('"', "'"):
            return True
        if hasattr(node, "value") and isinstance(getattr(node, "value", None), ast.AST) and "'pn_old'" in ast.unparse(node.value).replace('"', "'"):
            return True
    return False


def _is_initial_guard(e, fl=None, at=None):
    """<replaced path's number> > self.n - 2  (or >= self.n - 1), in either orientation."""
    if fl is None:
        return _gt_n_minus_2(oriented(e, lambda x: isinstance(x, ast.Name)))
    return _gt_n_minus_2(oriented(e, lambda x: _is_replaced_number(x, fl, at)), fl, at)


def _is_lag_guard(e, fifo, fl=None, at=None):
    """len(<fifo>) > self.n - 2 (or >= self.n - 1), in either orientation."""
    return _gt_n_minus_2(oriented(e, lambda x: isinstance(x, ast.Call) and dotted(x.func) == "len" and x.args and path_of(x.args[0]) == fifo), fl, at)


def r84(ctx):
    rid = "R-8.4"
    tree = ctx.tree
    f = tree.func(SETUP, "setup_config")
    fl = flow_of(f)
    cfg = fl.cfg
    rets = [n for n in walk_local(f) if isinstance(n, ast.Return) and n.value is not None and not (isinstance(n.value, ast.Constant) and n.value.value is None)]
    # branch: "current" in config
    bts = [n for n in cfg.nodes if n.kind == "branch" and any(t and isinstance(e, ast.Compare) and isinstance(e.ops[0], ast.In) and isinstance(e.left, ast.Constant) and e.left.value == "current" for e, t in n.facts)]
    if not bts or not rets:
        raise AnalysisError("R-8.4: restart branch or `return config` not found in setup_config")
    from .shared import _cfg_chain as _cfg_chain_, _cfg_env as _cfg_env_
    _env_ = _cfg_env_(f)  # aliases such as  curr = config["current"]
    loops = []
    for n in walk_local(f):
        if isinstance(n, ast.For) and (_cfg_chain_(n.iter, _env_) == ["current", "active"] or "['current']['active']" in ast.unparse(n.iter).replace('"', "'")):
            # body must test isfile(.../traj.txt) and return None on failure
            okbody = False
            for t in [x for x in walk_local(n) if isinstance(x, ast.If)]:
                tx = ast.unparse(t.test)
                if "os.path.isfile" in tx and any(isinstance(s, ast.Return) and (s.value is None or (isinstance(s.value, ast.Constant) and s.value.value is None)) or isinstance(s, ast.Raise) for s in t.body):
                    call = [c for c in ast.walk(t.test) if isinstance(c, ast.Call) and dotted(c.func) == "os.path.isfile"][0]
                    deps = fl.deps(call.args[0], cfg.node_of(t.test))
                    tgt = n.target.id if isinstance(n.target, ast.Name) else None
                    if ("const", "'traj.txt'") in deps and isinstance(t.test, ast.UnaryOp):
                        okbody = True
            if okbody:
                loops.append(n)
    # the same gate as one test over all paths: `if not all(isfile(.../traj.txt) for act in current.active): return None`
    gates = []
    for t in [x for x in walk_local(f) if isinstance(x, ast.If)]:
        tst = t.test
        if not (isinstance(tst, ast.UnaryOp) and isinstance(tst.op, ast.Not) and isinstance(tst.operand, ast.Call) and last_name(tst.operand) == "all" and len(tst.operand.args) == 1):
            continue
        if not any(isinstance(s_, ast.Return) and (s_.value is None or (isinstance(s_.value, ast.Constant) and s_.value.value is None)) or isinstance(s_, ast.Raise) for s_ in t.body):
            continue
        comp = tst.operand.args[0]
        if isinstance(comp, ast.Name):
            comp, _ = deref(fl, comp, cfg.node_of(tst))
        if isinstance(comp, (ast.ListComp, ast.GeneratorExp)) and len(comp.generators) == 1 and not comp.generators[0].ifs:
            it = comp.generators[0].iter
            if (_cfg_chain_(it, _env_) == ["current", "active"] or "['current']['active']" in ast.unparse(it).replace('"', "'")) and "isfile" in ast.unparse(comp.elt) and "traj.txt" in ast.unparse(comp.elt) and not any(isinstance(x, ast.UnaryOp) and isinstance(x.op, ast.Not) for x in ast.walk(comp.elt)):
                gates.append(tst)
    if not loops and not gates:
        ctx.bad(rid, f, "setup_config's restart branch does not test that <load_dir>/<path>/traj.txt exists for every active path: a restart with a missing path starts and fails later")
    ln = [cfg.node_of(l) for l in loops] + [cfg.node_of(g_) for g_ in gates]
    loops = loops + gates
    for bt in bts if loops else []:
        for r in rets:
            if cfg.reaches(bt, cfg.node_of(r), avoid=ln):
                ctx.bad(rid, r, "a restart can return a configuration without having checked that every active path is on disk")
            else:
                ctx.ok(rid, r, "restart branch: every active path's traj.txt is checked before a configuration is returned")
    g = tree.func(PATH, "load_path")
    gc = cfg_of(g)
    asserts = [n for n in walk_local(g) if isinstance(n, ast.Assert) and "os.path.isfile" in ast.unparse(n.test)]
    want = {"trajtxt": False, "ordertxt": False, "config": False}
    gfl = flow_of(g)
    for a in asserts:
        arg = ast.unparse(a.test)
        # the asserted name by its role: what it was built from (".../traj.txt", ".../order.txt"), or the
        # loop variable over the referenced trajectory files
        for c in [c for c in ast.walk(a.test) if isinstance(c, ast.Call) and dotted(c.func) == "os.path.isfile" and c.args]:
            e, _ = deref(gfl, c.args[0], gfl.cfg.node_of(a))
            txt = ast.unparse(e)
            if "traj.txt" in txt:
                want["trajtxt"] = True
            elif "order.txt" in txt:
                want["ordertxt"] = True
            elif isinstance(c.args[0], ast.Name) and any(isinstance(l, ast.For) and c.args[0].id in {x.id for x in ast.walk(l.target) if isinstance(x, ast.Name)} for l in walk_local(g)):
                want["config"] = True
        for k in want:
            if k in arg:
                want[k] = True
    missing = [k for k, v in want.items() if not v]
    if missing:
        ctx.bad(rid, g, f"load_path does not assert the presence of {missing} (traj.txt / order.txt / each referenced trajectory file)")
    else:
        ctx.ok(rid, g, "load_path asserts traj.txt, order.txt and every referenced trajectory file")


def r85(ctx):
    rid = "R-8.5"
    tree = ctx.tree
    f = tree.func(REPEX, "REPEX_state.treat_output")
    # functions reachable from treat_output (self methods and module functions of repex.py)
    mod = tree.mod(REPEX)
    cls = tree.cls(REPEX, "REPEX_state")
    methods = {s.name: s for s in cls.body if isinstance(s, FUNC)}
    modfuncs = {q: fn for q, fn in mod.funcs.items() if "." not in q}
    seen, todo = [], [f]
    while todo:
        g = todo.pop()
        if g in seen:
            continue
        seen.append(g)
        for c in walk_local(g):
            if isinstance(c, ast.Call):
                if is_self_attr(c.func) and c.func.attr in methods:
                    todo.append(methods[c.func.attr])
                elif isinstance(c.func, ast.Name) and c.func.id in modfuncs:
                    todo.append(modfuncs[c.func.id])
    restart_readers = [
        tree.func(SETUP, "setup_config"), tree.func(SETUP, "setup_internal"),
        tree.func(REPEX, "REPEX_state.__init__"), tree.func(REPEX, "REPEX_state.load_paths"),
        tree.func(PATH, "load_paths_from_disk"),
    ]
    n = 0
    for g in seen:
        for c in _calls(g, lambda c: dotted(c.func) == "open"):
            mode = kwarg(c, "mode", 1)
            mv = mode.value if isinstance(mode, ast.Constant) else None
            if mv is None or "r" in mv and "+" not in mv:
                continue
            target = ast.unparse(c.args[0])
            n += 1
            if "a" in mv:
                # append: not idempotent; needs reconciliation at restart
                attr = target.split(".")[-1]
                read = False
                for rf in restart_readers:
                    for c2 in _calls(rf, lambda c: dotted(c.func) == "open"):
                        m2 = kwarg(c2, "mode", 1)
                        if attr in ast.unparse(c2.args[0]) and (m2 is None or (isinstance(m2, ast.Constant) and "r" in m2.value)):
                            read = True
                if read:
                    ctx.ok(rid, c, f"append to {target} is reconciled by a reader on the restart path")
                else:
                    ctx.bad(rid, c,
                            f"{getattr(g, '_fq', g.name)} appends to {target} before the commit and nothing on the restart path reads that file: "
                            "after a crash between the append and write_toml the re-issued job appends a second row for the same path "
                            "('every replaced path appears exactly once in the data file' fails)",
                            construct=f"open({target}, 'a') before write_toml; no reader on the restart path")
            else:
                ctx.ok(rid, c, f"{target} opened with mode {mv!r}: rewritten completely when the step is re-executed")
    # the stored path's txt files are rewritten ("w") and moved files replace an existing destination
    g = tree.func(FORMATTER, "PathStorage.output_path_files")
    for c in _calls(g, lambda c: dotted(c.func) == "open"):
        mode = kwarg(c, "mode", 1)
        if isinstance(mode, ast.Constant) and mode.value.startswith("w"):
            ctx.ok(rid, c, "path txt files are opened 'w': re-storing the same path number overwrites them")
        else:
            ctx.bad(rid, c, "path txt files are not opened with mode 'w': re-executing a step after a crash does not overwrite the half-stored path")


def r86(ctx):
    rid = "R-8.6"
    tree = ctx.tree
    prep = tree.func(REPEX, "REPEX_state.prep_md_items")
    cls = tree.cls(REPEX, "REPEX_state")
    methods = {s.name: s for s in cls.body if isinstance(s, FUNC)}
    issuers = set()
    for n in walk_local(prep):
        if isinstance(n, ast.Assign) and any(last_key(t) == "picked" for t in n.targets):
            v = n.value
            if isinstance(v, ast.Call) and is_self_attr(v.func) and v.func.attr in methods:
                issuers.add(v.func.attr)
    if len(issuers) < 2:
        raise AnalysisError(f"R-8.6: expected two job issuers feeding md_items['picked'], found {sorted(issuers)}")
    for name in sorted(issuers):
        f = methods[name]
        cfg = cfg_of(f)
        appends = [c for c in walk_local(f) if isinstance(c, ast.Call) and isinstance(c.func, ast.Attribute) and c.func.attr == "append" and path_of(c.func.value) == "self.locked"]
        acquires = [c for c in walk_local(f) if isinstance(c, ast.Call) and is_self_attr(c.func) and c.func.attr in ("lock", "pick_traj_ens")]
        for r in [n for n in walk_local(f) if isinstance(n, ast.Return)]:
            v = r.value
            if isinstance(v, ast.Call) and is_self_attr(v.func) and v.func.attr in issuers:
                ctx.ok(rid, r, f"{name}: delegates to issuer {v.func.attr}")
                continue
            rn = cfg.node_of(r)
            acq_before = [a for a in acquires if cfg.reaches(cfg.node_of(a), rn)]
            if not acq_before:
                ctx.ok(rid, r, f"{name}: returns without having acquired anything", nontrivial=False)
                continue
            doms = [a for a in appends if cfg.dominates(cfg.node_of(a), rn)]
            in_loop = [a for a in doms if cfg.in_loop(cfg.node_of(a))]
            extra = [a for a in appends if a not in doms and cfg.reaches(cfg.node_of(a), rn)]
            if extra and doms:
                ctx.bad(rid, extra[0], f"{name}: the job can be appended to self.locked more than once (a second append lies on some path to the return)")
            elif len(doms) == 1 and not in_loop:
                a = doms[0]
                arg = a.args[0] if a.args else None
                if isinstance(arg, ast.Tuple) and len(arg.elts) == 2:
                    ctx.ok(rid, r, f"{name}: the issued job is appended to self.locked exactly once as (ensembles, path numbers)")
                else:
                    ctx.bad(rid, a, "the in-flight record entry is not an (ensemble numbers, path numbers) pair as write_toml serialises it")
            elif not doms:
                ctx.bad(rid, r,
                        f"{name} acquires ensembles and returns a job that is never appended to the in-flight record self.locked: "
                        "after the next commit restart.toml omits a running job, and a second crash loses it",
                        construct=f"{name}: return {short(v, 40)} without self.locked.append")
            else:
                ctx.bad(rid, r, f"{name}: the job is appended to self.locked {len(doms)} times / inside a loop")


# ------------------------------------------------------------------ R-8.7
class _Units:
    """Ensemble-index units: REL (0: offset removed - keys of `picked`, entries of
    self.locked) versus ROW (1: row/column of the state matrix = REL + _offset,
    the form stored in restart.toml).  parity(expr) in {0, 1, None (unknown)}."""

    def __init__(self, f):
        self.f = f
        self.fl = flow_of(f)
        self.busy = set()

    @staticmethod
    def merge(a, b):
        if a is None:
            return b
        if b is None or a == b:
            return a
        return "mixed"

    def parity(self, e, at, env=None, depth=0):
        env = env or {}
        if depth > 14 or e is None:
            return None
        P = lambda x, a=at, en=env: self.parity(x, a, en, depth + 1)
        if is_self_attr(e, "_offset"):
            return 1
        if isinstance(e, ast.Constant):
            return None
        if isinstance(e, ast.BinOp) and isinstance(e.op, (ast.Add, ast.Sub)):
            if is_self_attr(e.right, "_offset"):
                a = P(e.left)
                a = 0 if a is None else a
                return a + 1 if isinstance(e.op, ast.Add) else a - 1 if isinstance(a, int) else a
            if is_self_attr(e.left, "_offset") and isinstance(e.op, ast.Add):
                a = P(e.right)
                return (0 if a is None else a) + 1
            a, b = P(e.left), P(e.right)
            if b is None:
                return a
            if a is None:
                return b
            return None
        if isinstance(e, ast.Call):
            fn = dotted(e.func)
            if fn in ("int", "list", "tuple", "sorted", "np.int64", "float") and e.args:
                return P(e.args[0])
            return None
        if isinstance(e, (ast.Tuple, ast.List)):
            k = None
            for x in e.elts:
                k = self.merge(k, P(x))
            return k
        if isinstance(e, (ast.ListComp, ast.GeneratorExp)):
            env2 = dict(env)
            for g in e.generators:
                it = self.parity(g.iter, at, env2, depth + 1)
                for t in ast.walk(g.target):
                    if isinstance(t, ast.Name):
                        env2[t.id] = it
            return self.parity(e.elt, at, env2, depth + 1)
        if isinstance(e, ast.Subscript):
            base = e.value
            bp = path_of(base)
            if bp in ("self.locked0",) or (bp and bp.endswith("['current']['locked']")):
                return 1
            if bp == "self.locked":
                return 0
            # tup[0] where tup iterates one of the records
            if isinstance(e.slice, ast.Constant) and e.slice.value == 0:
                return P(base)
            if isinstance(e.slice, ast.Constant) and e.slice.value == 1:
                return None
            return P(base)
        if isinstance(e, ast.Attribute):
            p = path_of(e)
            if p == "self.locked0":
                return 1
            if p == "self.locked":
                return 0
            return None
        if isinstance(e, ast.Name):
            if e.id in env:
                return env[e.id]
            key = (e.id, at.id)
            if key in self.busy:
                return None
            self.busy.add(key)
            k = None
            for d, sfx in self.fl.rd(e.id, at):
                kk = None
                if d.kind in ("assign", "walrus") and isinstance(d.value, ast.AST):
                    kk = self.parity(d.value, d.at, {}, depth + 1)
                elif d.kind == "aug" and isinstance(d.value, ast.AugAssign):
                    v = d.value
                    if is_self_attr(v.value, "_offset"):
                        prev = None
                        for d2, _ in self.fl.rd(e.id, d.at):
                            if d2.kind == "assign":
                                prev = self.merge(prev, self.parity(d2.value, d2.at, {}, depth + 1))
                        prev = 0 if prev is None else prev
                        kk = prev + (1 if isinstance(v.op, ast.Add) else -1) if isinstance(prev, int) else prev
                elif d.kind == "iter":
                    it = d.value
                    if isinstance(it, ast.Call) and dotted(it.func) == "zip" and d.index and d.index[0] < len(it.args):
                        kk = self.parity(it.args[d.index[0]], d.at, {}, depth + 1)
                    elif isinstance(it, ast.Call) and dotted(it.func) == "enumerate" and d.index == (1,):
                        kk = self.parity(it.args[0], d.at, {}, depth + 1)
                    elif not d.index:
                        kk = self.parity(it, d.at, {}, depth + 1)
                elif d.kind == "unpack" and isinstance(d.value, ast.Call):
                    fn = dotted(d.value.func)
                    if fn.endswith("divmod"):
                        kk = 1
                    elif fn == "self.locked0.pop" and d.index == (0,):
                        kk = 1
                k = self.merge(k, kk)
            # lists filled by append in this function
            for c in walk_local(self.f):
                if isinstance(c, ast.Call) and isinstance(c.func, ast.Attribute) and c.func.attr == "append" and path_of(c.func.value) == e.id and c.args:
                    if self.fl.cfg.nodes_of(c):
                        k = self.merge(k, self.parity(c.args[0], self.fl.cfg.node_of(c), {}, depth + 1))
            self.busy.discard(key)
            return k
        return None


def r87(ctx):
    rid = "R-8.7"
    tree = ctx.tree
    cls = tree.cls(REPEX, "REPEX_state")
    n = 0
    for f in [s for s in cls.body if isinstance(s, FUNC)]:
        U = None
        for c in walk_local(f):
            if not isinstance(c, ast.Call) or not isinstance(c.func, ast.Attribute):
                continue
            U = U or _Units(f)
            if not U.fl.cfg.nodes_of(c):
                continue
            at = U.fl.cfg.node_of(c)
            # (a) entries of the in-flight record are offset-removed
            if c.func.attr == "append" and path_of(c.func.value) == "self.locked" and c.args and isinstance(c.args[0], ast.Tuple) and c.args[0].elts:
                p = U.parity(c.args[0].elts[0], at)
                n += 1
                if p in (1, "mixed"):
                    ctx.bad(rid, c, f"{f.name}: the ensemble numbers appended to the in-flight record self.locked still include the [0-] offset (state-matrix rows); "
                            "write_toml adds the offset again, so after the next commit restart.toml names the running job one ensemble too high and a later restart re-issues it in the wrong ensemble",
                            construct=short(c, 80))
                else:
                    ctx.ok(rid, c, f"{f.name}: in-flight record entry uses offset-removed ensemble numbers (unit {p})")
            # (c) busy flags / swap are indexed by state-matrix rows
            if is_self_attr(c.func) and c.func.attr in ("lock", "unlock", "pick_traj_ens") and c.args:
                p = U.parity(c.args[0], at)
                if p is not None:
                    n += 1
                    if p == 0:
                        ctx.bad(rid, c, f"{f.name}: {c.func.attr}() is given an offset-removed ensemble number where a state-matrix row is expected: the wrong ensemble is flagged busy")
                    else:
                        ctx.ok(rid, c, f"{f.name}: {c.func.attr}() indexed by a state-matrix row (unit {p})")
        # (b) what write_toml stores under current.locked includes the offset
        if f.name == "write_toml":
            U = U or _Units(f)
            for d in U.fl.defs:
                if d.path.endswith("['current']['locked']") and d.kind == "assign":
                    p = U.parity(d.value, d.at)
                    n += 1
                    if p == 1:
                        ctx.ok(rid, d.stmt, "write_toml stores the in-flight ensembles as state-matrix rows (+_offset), the unit pick_lock reads back")
                    else:
                        ctx.bad(rid, d.stmt, f"write_toml stores the in-flight ensemble numbers without adding the [0-] offset (unit {p}) although pick_lock subtracts it when re-issuing: re-issued jobs run in the wrong ensemble")
    if n < 4:
        raise AnalysisError(f"R-8.7: only {n} unit obligations could be formed")


def r89(ctx, rid="R-8.9"):
    """Rows written on the per-step path are on disk before the commit: every `.write(` in the
    functions treat_output reaches before write_toml (and in write_toml / the path store) goes
    to a handle bound by a `with open(...)` of the same function (closed when the block ends),
    or is followed by flush()/close() of that handle in the same function."""
    tree = ctx.tree
    cls = tree.cls(REPEX, "REPEX_state")
    methods = {s.name: s for s in cls.body if isinstance(s, FUNC)}
    mod = tree.modules[REPEX]
    modfuncs = {q: f for q, f in mod.funcs.items() if "." not in q}
    # functions reachable from treat_output (self.m() and module functions of repex.py)
    seen, todo = {}, [methods["treat_output"]]
    while todo:
        f = todo.pop()
        if id(f) in seen:
            continue
        seen[id(f)] = f
        for c in [x for x in walk_local(f) if isinstance(x, ast.Call)]:
            if is_self_attr(c.func) and c.func.attr in methods:
                todo.append(methods[c.func.attr])
            elif isinstance(c.func, ast.Name) and c.func.id in modfuncs:
                todo.append(modfuncs[c.func.id])
    funcs = list(seen.values()) + [tree.func(FORMATTER, "PathStorage.output_path_files")]
    n = 0
    for f in funcs:
        withs = {}
        for w in [x for x in walk_local(f) if isinstance(x, ast.With)]:
            for it in w.items:
                if isinstance(it.context_expr, ast.Call) and dotted(it.context_expr.func) == "open" and isinstance(it.optional_vars, ast.Name):
                    withs[it.optional_vars.id] = w
        for c in [x for x in walk_local(f) if isinstance(x, ast.Call) and isinstance(x.func, ast.Attribute) and (x.func.attr in ("write", "writelines") or (x.func.attr == "dump" and len(x.args) >= 2))]:
            recv = c.args[1] if c.func.attr == "dump" else c.func.value
            rp = path_of(recv)
            if rp is None or rp.startswith("logger") or rp in ("sys.stdout", "sys.stderr"):
                continue
            n += 1
            q = getattr(f, "_fq", f.name)
            if isinstance(recv, ast.Name) and recv.id in withs and any(y is c for y in ast.walk(withs[recv.id])):
                ctx.ok(rid, c, f"{q}: `{rp}.write` inside `with open(...) as {rp}`: the file is closed (flushed) when the block ends")
                continue
            cfg = cfg_of(f)
            synced = [x for x in walk_local(f) if isinstance(x, ast.Call) and isinstance(x.func, ast.Attribute) and x.func.attr in ("flush", "close") and path_of(x.func.value) == rp]
            sync_nodes = {nd for s in synced for nd in cfg.nodes_of(s)}
            if synced and not any(cfg.reaches(cn, cfg.exit, avoid=sync_nodes, labels_excluded=("exc",)) for cn in cfg.nodes_of(c)):
                ctx.ok(rid, c, f"{q}: `{rp}.write` is followed by flush()/close() on every path")
            else:
                ctx.bad(rid, c, f"{q}: `{rp}.write(...)` goes to a file handle that is not closed or flushed before the step is committed (restart.toml is written while the row is still in the process's buffer): if the main process dies, restart.toml says the step happened but the data-file row of the replaced path is lost - after continuing, that path appears zero times in the data file",
                        construct=f"{q}: buffered write to {rp} before the commit")
    if n < 3:
        raise AnalysisError(f"{rid}: only {n} file writes found on the per-step path (expected >= 3)")


def r812(ctx, rid="R-8.12"):
    """restart.toml is written only from a re-sorted state. current.active is the slot order; a pick
    (swap) can leave a displaced path in a slot where its weight is zero until sort_trajstate() has
    run, and a restart from such a file dies in add_traj. Every call of write_toml() therefore has,
    on every path from a call that changes the slot order (swap / pick / pick_lock / pick_traj_ens /
    add_traj) in the same function, a sort_trajstate() in between."""
    tree = ctx.tree
    cls = tree.cls(REPEX, "REPEX_state")
    methods = {x.name: x for x in cls.body if isinstance(x, FUNC)}
    MOD = ("swap", "pick", "pick_lock", "pick_traj_ens", "add_traj")
    n = 0
    for name, f in methods.items():
        writes = [c for c in walk_local(f) if isinstance(c, ast.Call) and is_self_attr(c.func, "write_toml")]
        if not writes:
            continue
        cfg = cfg_of(f)
        mods = [c for c in walk_local(f) if isinstance(c, ast.Call) and is_self_attr(c.func) and c.func.attr in MOD]
        sorts = [cfg.node_of(c) for c in walk_local(f) if isinstance(c, ast.Call) and is_self_attr(c.func, "sort_trajstate")]
        for w in writes:
            n += 1
            wn = cfg.node_of(w)
            bad = [m for m in mods if cfg.reaches(cfg.node_of(m), wn, avoid=sorts, labels_excluded=("exc",)) and cfg.node_of(m).id != wn.id]
            if bad:
                ctx.bad(rid, w, f"REPEX_state.{name} writes restart.toml after `{short(bad[0], 40)}` without a sort_trajstate() in between: the slot order on disk can name a displaced path in an ensemble where its weight is zero, and a restart from that file dies in add_traj (assert valid[ens] != 0)", construct=f"{name}: write_toml after {bad[0].func.attr} without re-sort")
            else:
                ctx.ok(rid, w, f"REPEX_state.{name}: restart.toml is written from a re-sorted slot order")
    if n < 2:
        raise AnalysisError(f"{rid}: only {n} calls of write_toml found in REPEX_state")


def r813(ctx, rid="R-8.13"):
    """The in-flight record pairs ensembles and paths position by position. pick_lock() re-issues
    `zip(enss0, trajs0)` of a saved record, so every `self.locked.append((E, P))` must build P from
    the very sequence that is paired with E when the job is assembled: P is a comprehension over T
    with `zip(E, T)` building the job, or P is the Y of the `zip(X, Y)` loop that appends E's
    elements. A list collected in pick order (path picked first, partner second) differs from the
    ensemble order (-1, 0) when the swap was drawn from [0+]."""
    tree = ctx.tree
    cls = tree.cls(REPEX, "REPEX_state")
    n = 0
    methods_ = {x.name: x for x in cls.body if isinstance(x, FUNC)}
    for f in [x for x in cls.body if isinstance(x, FUNC)]:
        fl = None
        for c in walk_local(f):
            if not (isinstance(c, ast.Call) and isinstance(c.func, ast.Attribute) and c.func.attr == "append" and path_of(c.func.value) == "self.locked" and c.args):
                continue
            rec = c.args[0]
            if isinstance(rec, ast.Name):
                fl = fl or flow_of(f)
                rec, _ = deref(fl, rec, fl.cfg.node_of(c))
            if not (isinstance(rec, ast.Tuple) and len(rec.elts) == 2):
                raise AnalysisError(f"{rid}: the record appended to self.locked in {f.name} is not a pair (cannot decide)")
            n += 1
            e_, p_ = rec.elts

            def _elt(x):
                # entry[0] of a local pair is that pair's element
                if isinstance(x, ast.Subscript) and isinstance(x.value, ast.Name) and isinstance(x.slice, ast.Constant) and isinstance(x.slice.value, int):
                    fl_ = flow_of(f)
                    t_, _ = deref(fl_, x.value, fl_.cfg.node_of(c))
                    if isinstance(t_, ast.Tuple) and -len(t_.elts) <= x.slice.value < len(t_.elts):
                        return t_.elts[x.slice.value]
                return x

            e_, p_ = _elt(e_), _elt(p_)
            while isinstance(e_, ast.Call) and last_name(e_) in ("list", "tuple") and e_.args:
                e_ = e_.args[0]
            while isinstance(p_, ast.Call) and last_name(p_) in ("list", "tuple") and p_.args:
                p_ = p_.args[0]
            if not (isinstance(e_, ast.Name) and isinstance(p_, ast.Name)):
                raise AnalysisError(f"{rid}: the record appended in {f.name} is not (names of) an ensemble list and a path list (cannot decide)")
            zips = [z for z in walk_local(f) if isinstance(z, ast.Call) and last_name(z) == "zip" and len(z.args) == 2 and all(isinstance(a, ast.Name) for a in z.args)]
            # the job may be assembled by a helper that is handed the two sequences: zip(p, q) over its parameters
            for hc in walk_local(f):
                if isinstance(hc, ast.Call) and is_self_attr(hc.func) and hc.func.attr in methods_ and hc.func.attr != f.name:
                    g = methods_[hc.func.attr]
                    gp = [a.arg for a in g.args.args][1:]
                    for z in walk_local(g):
                        if isinstance(z, ast.Call) and last_name(z) == "zip" and len(z.args) == 2 and all(isinstance(a, ast.Name) and a.id in gp for a in z.args):
                            i0, i1 = gp.index(z.args[0].id), gp.index(z.args[1].id)
                            if max(i0, i1) < len(hc.args) and isinstance(hc.args[i0], ast.Name) and isinstance(hc.args[i1], ast.Name):
                                zips.append(ast.Call(func=ast.Name(id="zip", ctx=ast.Load()), args=[hc.args[i0], hc.args[i1]], keywords=[]))
            stores = [st for st in walk_local(f) if isinstance(st, ast.Assign) and any(isinstance(t, ast.Name) and t.id == p_.id for t in st.targets)]
            appends = [a for a in walk_local(f) if isinstance(a, ast.Call) and isinstance(a.func, ast.Attribute) and a.func.attr in ("append", "extend", "insert") and isinstance(a.func.value, ast.Name) and a.func.value.id == p_.id]
            svals = []
            for st in stores:
                v_ = st.value
                while isinstance(v_, ast.Call) and last_name(v_) in ("list", "tuple") and len(v_.args) == 1:
                    v_ = v_.args[0]
                svals.append(v_)
            ok = None
            why = ""
            # (a) P = [g(i) for i in T] (single store, never appended to), zip(E, T) builds the job
            if len(stores) == 1 and not appends and isinstance(svals[0], (ast.ListComp, ast.GeneratorExp)) and len(svals[0].generators) == 1 and isinstance(svals[0].generators[0].iter, ast.Name) and not svals[0].generators[0].ifs:
                T = svals[0].generators[0].iter.id
                if any(z.args[0].id == e_.id and z.args[1].id == T for z in zips):
                    ok, why = True, f"{p_.id} is derived element by element from `{T}`, which is zipped with `{e_.id}` when the job is assembled"
                else:
                    ok, why = False, f"{p_.id} is derived from `{T}`, which is not the sequence zipped with `{e_.id}`"
            # (b) P is the Y of the zip(X, Y) loop in which E's elements are appended
            elif not stores and not appends:
                for z in zips:
                    L = getattr(z, "_parent", None)
                    if z.args[1].id == p_.id and isinstance(L, ast.For) and any(isinstance(a, ast.Call) and isinstance(a.func, ast.Attribute) and a.func.attr == "append" and isinstance(a.func.value, ast.Name) and a.func.value.id == e_.id for a in ast.walk(L)):
                        ok, why = True, f"{p_.id} is the sequence the loop over zip({z.args[0].id}, {p_.id}) pairs with the ensembles it appends to `{e_.id}`"
                if ok is None:
                    ok, why = False, f"{p_.id} is not paired with `{e_.id}` by any zip of {f.name}"
            elif len(stores) == 1 and not appends and isinstance(svals[0], (ast.ListComp, ast.GeneratorExp)):
                ok, why = False, f"{p_.id} is derived from `{short(svals[0].generators[0].iter, 30)}`, a rearranged / filtered sequence, not from the sequence zipped with `{e_.id}`"
            elif appends or len(stores) > 1:
                # collected piecewise: must happen inside a loop over zip(E-source, ...) together with E
                inzip = [a for a in appends if any(isinstance(L, ast.For) and isinstance(L.iter, ast.Call) and last_name(L.iter) == "zip" for L in _enclosing_loops(a))]
                if appends and len(inzip) == len(appends) and len(stores) <= 1:
                    ok, why = True, f"{p_.id} is filled in the loop that also fills `{e_.id}`"
                else:
                    ok, why = False, f"`{p_.id}` is collected piece by piece in the order the paths were picked ({len(stores)} store(s), {len(appends)} append(s)), not from the sequence zipped with `{e_.id}`"
            if ok is None:
                raise AnalysisError(f"{rid}: how `{p_.id}` of the record appended in {f.name} is built is not one of the modelled forms (cannot decide)")
            if ok:
                ctx.ok(rid, c, f"{f.name}: {why}")
            else:
                ctx.bad(rid, c, f"REPEX_state.{f.name} records the in-flight job as ({short(rec.elts[0], 20)}, {p_.id}) but {why}: for a [0-]<->[0+] swap drawn from [0+] the saved record lists (plus path, minus path) against ensembles (-1, 0), and pick_lock() re-issues the job after a restart with the two paths attached to the wrong ensembles", construct=f"{f.name}: in-flight record not paired position by position")
    if n < 2:
        raise AnalysisError(f"{rid}: only {n} in-flight records appended in REPEX_state (expected pick and pick_lock)")


def _enclosing_loops(node):
    out = []
    p_ = getattr(node, "_parent", None)
    while p_ is not None and not isinstance(p_, FUNC):
        if isinstance(p_, (ast.For, ast.While)):
            out.append(p_)
        p_ = getattr(p_, "_parent", None)
    return out


def _r815(ctx):
    from . import c03 as _c03c
    from .shared import RuleProxy as _RP8b

    class _Quiet:
        tree = ctx.tree

        def ok(self, *a, **k):
            pass

        def bad(self, *a, **k):
            pass

        def note(self, *a, **k):
            pass

    acq_funcs, _rel = _c03c.r31_32(_Quiet())
    _c03c.r33(_RP8b(ctx, "R-8.15", " (after a restart the [0-] half of a re-issued zero swap is not held: when the job completes the release asserts and the main process dies, at every later restart again)"), acq_funcs)


def r816(ctx):
    """The restart file is never written while saved in-flight jobs still wait to be re-issued.
    After a restart the record read from restart.toml sits in `self.locked0` and is moved to
    `self.locked` job by job while the workers are started (initiate -> prep_md_items -> pick_lock);
    write_toml persists `self.locked` only. A commit from any method that runs in that phase writes
    a record that omits the jobs still waiting: a second crash then loses them."""
    from .c17 import _may_commit
    from ..util import SCHED
    rid = "R-8.16"
    tree = ctx.tree
    cls = tree.cls(REPEX, "REPEX_state")
    methods, commit = _may_commit(cls)
    for need in ("initiate", "prep_md_items", "write_toml"):
        if need not in methods:
            raise AnalysisError(f"R-8.16: REPEX_state.{need} not found")
    # the saved record must really be consumed in that phase (else the rule has no subject)
    calls = {n: {c.func.attr for c in walk_local(m) if isinstance(c, ast.Call) and isinstance(c.func, ast.Attribute) and isinstance(c.func.value, ast.Name) and c.func.value.id == "self"} for n, m in methods.items()}
    phase, work = {"initiate", "prep_md_items"}, ["initiate", "prep_md_items"]
    while work:
        for c in calls.get(work.pop(), ()):
            if c in methods and c not in phase:
                phase.add(c)
                work.append(c)
    consumers = [n for n in phase if any(isinstance(x, ast.Attribute) and x.attr == "locked0" for x in walk_local(methods[n]))]
    if not consumers:
        raise AnalysisError("R-8.16: no method of the start-up phase consumes self.locked0 (cannot decide)")
    n = 0
    for name in sorted(phase):
        if name == "write_toml":
            continue
        m = methods[name]
        for c in walk_local(m):
            if isinstance(c, ast.Call) and isinstance(c.func, ast.Attribute) and isinstance(c.func.value, ast.Name) and c.func.value.id == "self" and c.func.attr in commit and c.func.attr not in phase - {"write_toml"}:
                ctx.bad(rid, c, f"REPEX_state.{name} runs while the workers are being started and writes restart.toml (`{short(c, 40)}`): after a restart the jobs saved in `locked0` are moved to `locked` one by one in that phase ({', '.join(sorted(consumers))}), so the file written here lists none / only some of them - a second crash before the first completed step loses the jobs that were in flight",
                        construct=f"{name}: commit during the start-up phase")
                n += 1
    f = tree.func(SCHED, "scheduler")
    cfg = cfg_of(f)
    loops = [w for w in walk_local(f) if isinstance(w, ast.While) and any(isinstance(c, ast.Call) and isinstance(c.func, ast.Attribute) and c.func.attr == "initiate" for c in ast.walk(w.test))]
    if not loops:
        raise AnalysisError("R-8.16: the `while state.initiate()` loop of scheduler() was not found")
    w = loops[0]
    recv = next(c.func.value.id for c in ast.walk(w.test) if isinstance(c, ast.Call) and isinstance(c.func, ast.Attribute) and c.func.attr == "initiate" and isinstance(c.func.value, ast.Name))
    wn = cfg.node_of(w.test)
    for c in walk_local(f):
        if isinstance(c, ast.Call) and isinstance(c.func, ast.Attribute) and isinstance(c.func.value, ast.Name) and c.func.value.id == recv and c.func.attr in commit - phase:
            cn = cfg.node_of(c)
            inside = any(c in list(ast.walk(st)) for st in w.body)
            if inside or cfg.reaches(cn, wn):
                ctx.bad(rid, c, f"scheduler() writes restart.toml (`{short(c, 40)}`) before every worker has been started: jobs saved by the interrupted run are not yet back in the in-flight record", construct="scheduler: commit before the workers are started")
                n += 1
    if n == 0:
        ctx.ok(rid, methods["initiate"], f"no commit in the start-up phase ({len(phase)} methods reachable from initiate / prep_md_items; saved jobs are consumed in {', '.join(sorted(consumers))})")
        ctx.ok(rid, w, "scheduler(): no commit before or inside the start-up loop")


def r817(ctx):
    """The re-sort that precedes the commit ends only when *no* slot holds a path with zero weight:
    a swap can put the displaced path into a slot where *it* has zero weight, so the condition of the
    loop is recomputed from the weight matrix after every swap (a whole re-scan, or a test over
    self.state in the loop condition itself). Clearing only the flag of the slot just served ends the
    loop with the displaced path misplaced; the restart file then lists a path in an ensemble where its
    weight is zero and a restart from it dies in add_traj."""
    rid = "R-8.17"
    f = ctx.tree.func(REPEX, "REPEX_state.sort_trajstate")
    fl = flow_of(f)
    cfg = fl.cfg
    loops = [w for w in walk_local(f) if isinstance(w, ast.While) and any(isinstance(c, ast.Call) and is_self_attr(c.func, "swap") for st in w.body for c in ast.walk(st))]
    if not loops:
        raise AnalysisError("R-8.17: the swapping loop of sort_trajstate was not found")
    for w in loops:
        swaps = [c for st in w.body for c in ast.walk(st) if isinstance(c, ast.Call) and is_self_attr(c.func, "swap")]
        cond_names = {x.id for x in ast.walk(w.test) if isinstance(x, ast.Name)}
        reads_state = any(isinstance(x, ast.Attribute) and x.attr == "state" for x in ast.walk(w.test))
        if reads_state:
            ctx.ok(rid, w, "the loop condition itself reads the weight matrix")
            continue
        # flag variables of the condition: each swap must be followed (same iteration) by a whole
        # re-assignment of the flag variable from self.state
        head = cfg.node_of(w.test)
        okay = True
        for sw in swaps:
            sn = cfg.node_of(sw)
            redefs = [st for st in walk_local(f) if isinstance(st, ast.Assign) and any(isinstance(t, ast.Name) and t.id in cond_names for t in st.targets)
                      and any(isinstance(x, ast.Attribute) and x.attr == "state" for x in ast.walk(st.value)) and any(st is y or st in list(ast.walk(y)) for y in w.body)]
            rn = [cfg.node_of(st) for st in redefs]
            if not redefs or cfg.reaches(sn, head, avoid=rn):
                okay = False
                partial = [st for st in walk_local(f) if isinstance(st, ast.Assign) and any(isinstance(t, ast.Subscript) and isinstance(t.value, ast.Name) and t.value.id in cond_names for t in st.targets)]
                ctx.bad(rid, sw, f"sort_trajstate goes back to its loop condition after `{short(sw, 30)}` without recomputing the misplaced-path flags from the weight matrix" + (f" (only `{short(partial[0], 40)}`)" if partial else "") + ": the swap may have moved the displaced path into a slot where its own weight is zero, the loop ends with it there, treat_output commits a restart.toml that lists a path in an ensemble where its weight is zero - a restart from that file dies in add_traj (assert valid[ens] != 0)",
                        construct="sort_trajstate: flags not recomputed after swap")
        if okay:
            ctx.ok(rid, w, "after every swap the flags of the loop condition are recomputed from self.state before the condition is evaluated again")


def run(ctx):
    ctx.rule("R-8.17", "the committed slot order has no path in a slot where its weight is zero: the re-sort recomputes its loop condition from the weight matrix after every swap", floor=1)
    ctx.attempt(r817, ctx)
    ctx.rule("R-8.16", "restart.toml is not written while saved in-flight jobs wait to be re-issued: no committing call in the methods that run while the workers are started, nor in scheduler() up to the end of the start-up loop", floor=2)
    ctx.attempt(r816, ctx)
    ctx.rule("R-8.7", "one ensemble-index unit per store: self.locked entries offset-removed, restart.toml's locked and lock()/swap() indices in state-matrix rows", floor=4)
    ctx.rule("R-8.8", "the commit is final: nothing restart.toml serialises is modified after write_toml within the step", floor=1)
    ctx.rule("R-8.10", "every [current] key that write_toml maintains is stored on every path to the dump", floor=3)
    ctx.rule("R-8.9", "file writes of the per-step path reach the disk before the commit (handle bound by `with open`, or flushed/closed on every path)", floor=3)
    ctx.rule("R-8.1", "store before commit: numbered path reaches write_toml only through pstore.output; output() performs mkdir, txt files and moves on every path", floor=4)
    ctx.rule("R-8.2", "atomic commit: dump to a temporary name, os.replace over the file setup_config reads", floor=1)
    ctx.rule("R-8.3", "only retired paths are deleted: operands from the FIFO head, insertion after deletion, lag and initial-path guards", floor=5)
    ctx.rule("R-8.4", "restart refuses an incomplete tree (setup_config checks every active path; load_path asserts files)", floor=2)
    ctx.rule("R-8.5", "durable effects before the commit are idempotent under re-execution or reconciled at restart", floor=2)
    ctx.rule("R-8.6", "every job issuer appends the job it hands out to the in-flight record exactly once", floor=3)
    ctx.attempt(r81, ctx)
    ctx.attempt(r82, ctx)
    ctx.attempt(r83, ctx)
    ctx.attempt(r84, ctx)
    ctx.attempt(r85, ctx)
    ctx.attempt(r86, ctx)
    ctx.attempt(r87, ctx)
    ctx.attempt(r89, ctx)
    ctx.rule("R-8.12", "restart.toml is written only from a re-sorted slot order (no write after a pick / swap / insertion without sort_trajstate in between)", floor=2)
    ctx.attempt(r812, ctx)
    ctx.rule("R-8.13", "the in-flight record that restart.toml saves pairs ensembles and path numbers position by position (built from the sequence zipped with the ensembles when the job is assembled)", floor=2)
    ctx.attempt(r813, ctx)
    ctx.rule("R-8.15", "a re-issued job holds every ensemble it names: issuers acquire each ensemble they hand out on every path (shared with C03 R-3.3)", floor=6)
    ctx.attempt(_r815, ctx)
    ctx.rule("R-8.14", "a finished job leaves the in-flight record that restart.toml saves: one representation of path numbers at every filling site and at the membership test that removes the record (shared with C03 R-3.8)", floor=3)
    from . import c03 as _c03b
    from .shared import RuleProxy as _RP8
    _cls8 = ctx.tree.cls(REPEX, "REPEX_state")
    ctx.attempt(_c03b.r38, _RP8(ctx, "R-8.14", " (the record of a finished job is never removed: restart.toml keeps listing it and a later restart re-issues a completed job)"), {s_.name: s_ for s_ in _cls8.body if isinstance(s_, FUNC)})
    ctx.rule("R-8.11", "every completed step is committed: each normal path through treat_output writes restart.toml", floor=1)
    from .shared import commit_every_step
    ctx.attempt(commit_every_step, ctx, "R-8.11")
    from .shared import commit_refreshes_state
    ctx.attempt(commit_refreshes_state, ctx, "R-8.10", " - the file on disk then describes a mixture of two steps")
    from .shared import commit_is_final
    ctx.attempt(commit_is_final, ctx, "R-8.8")


VARIANTS = [
    B("c08-resort-clears-only-the-served-flag", REPEX, "            self.swap(ens_idx, trj_idx)\n            needstomove = [\n                self.state[idx][:-1][idx] == 0 for idx in range(self.n - 1)\n            ]\n", "            self.swap(ens_idx, trj_idx)\n            needstomove[ens_idx] = False\n", "R-8.17", control=True, why="seeded C08_p"),
    K("c08-keep-resort-flags-from-a-helper-expression", REPEX, "            self.swap(ens_idx, trj_idx)\n            needstomove = [\n                self.state[idx][:-1][idx] == 0 for idx in range(self.n - 1)\n            ]\n", "            self.swap(ens_idx, trj_idx)\n            needstomove = list(np.diag(self.state[:-1, :-1]) == 0)\n"),
    B("c08-restart-file-written-at-the-first-submission", REPEX, "            if self.screen > 0:\n                self.print_start()\n", "            if self.screen > 0:\n                self.print_start()\n            self.write_toml()\n", "R-8.16", control=True, why="seeded C08_o"),
    B("c08-restart-file-written-when-a-job-is-picked", REPEX, "    def prep_md_items(self, md_items):\n        \"\"\"Fill md_items with picked path and ens.\"\"\"\n", "    def prep_md_items(self, md_items):\n        \"\"\"Fill md_items with picked path and ens.\"\"\"\n        self.write_toml()\n", "R-8.16", why="sibling of C08_o"),
    K("c08-keep-commit-at-the-top-of-the-cycle", REPEX, "        self.cstep += 1\n\n        if self.printing() and self.cstep <= self.tsteps:", "        self.write_toml()\n        self.cstep += 1\n\n        if self.printing() and self.cstep <= self.tsteps:", why="loop() runs after every worker was started"),
    B("c08-old-restart-file-removed-before-the-rename", REPEX, '        os.replace("./restart.toml.tmp", "./restart.toml")\n', '        if os.path.isfile("./restart.toml"):\n            os.remove("./restart.toml")\n        os.rename("./restart.toml.tmp", "./restart.toml")\n', "R-8.2", control=True, why="seeded C08_n"),
    B("c08-old-restart-file-moved-aside-first", REPEX, '        os.replace("./restart.toml.tmp", "./restart.toml")\n', '        if os.path.isfile("./restart.toml"):\n            os.rename("./restart.toml", "./restart.toml.bak")\n        os.rename("./restart.toml.tmp", "./restart.toml")\n', "R-8.2", why="sibling of C08_n: the final name is absent between the two renames"),
    K("c08-keep-backup-copy-before-replace", REPEX, '        os.replace("./restart.toml.tmp", "./restart.toml")\n', '        if os.path.isfile("./restart.toml"):\n            shutil.copyfile("./restart.toml", "./restart.toml.bak")\n        os.replace("./restart.toml.tmp", "./restart.toml")\n', also=[(REPEX, "import os\n", "import os\nimport shutil\n")], why="a copy leaves the final name in place"),
    B("c08-reissue-locks-last-ensemble-only", REPEX, "            self.swap(traj_idx, ens)\n            self.lock(ens)\n", "            self.swap(traj_idx, ens)\n", "R-8.15", control=True, also=[(REPEX, "        # the re-issued job is in flight again: keep it in the record that\n", "        self.lock(ens)\n        # the re-issued job is in flight again: keep it in the record that\n")], why="seeded C08_m"),
    B("c08-delete-queue-filled-for-rejected-moves", REPEX, "                    # keep delete list:\n                    if len(self.pn_olds) <= self.n - 2:\n                        self.pn_olds[str(pn_old)] = {\n                            \"adress\": self.traj_data[pn_old][\"adress\"],\n                        }\n", "", "R-8.3", control=True, also=[(REPEX, "            pn_news.append(out_traj.path_number)\n", "            if self.config[\"output\"].get(\"delete_old\", False) and pn_old > self.n - 2:\n                if len(self.pn_olds) <= self.n - 2:\n                    self.pn_olds[str(pn_old)] = {\"adress\": self.traj_data[pn_old][\"adress\"]}\n            pn_news.append(out_traj.path_number)\n")], why="seeded C14_l"),
    B("c08-reissue-recorded-as-int", REPEX, "        self.locked.append((enss, trajs0))\n", "        self.locked.append((enss, [i.path_number for i in trajs]))\n", "R-8.14", control=True, why="seeded C08_l (= C06_e)"),
    B("c08-record-in-pick-order", REPEX, "        pat_nums = [str(i.path_number) for i in inp_trajs]\n", "        pat_nums = [str(traj.path_number)]\n        if len(inp_trajs) > 1:\n            pat_nums.append(str(other_traj.path_number))\n", "R-8.13", why="seeded C08_j"),
    B("c08-record-paths-reversed-source", REPEX, "        pat_nums = [str(i.path_number) for i in inp_trajs]\n", "        pat_nums = [str(i.path_number) for i in reversed(inp_trajs)]\n", "R-8.13", control=True, why="seeded C08_j (same effect: record not in ensemble order)"),
    K("c08-keep-record-generator", REPEX, "        pat_nums = [str(i.path_number) for i in inp_trajs]\n", "        pat_nums = list(str(t.path_number) for t in inp_trajs)\n"),
    B("c08-restart-written-after-pick", REPEX, "        for key in [\"moves\", \"trial_len\", \"trial_op\", \"generated\"]:\n            md_items[key] = []\n\n        return md_items", "        for key in [\"moves\", \"trial_len\", \"trial_op\", \"generated\"]:\n            md_items[key] = []\n        if self.toinitiate == -1:\n            self.write_toml()\n\n        return md_items", "R-8.12", control=True, why="seeded C08_i"),
    B("c08-commit-only-when-printing", REPEX, "            self.print_shooted(md_items, pn_news)\n        # save for possible restart\n        self.write_toml()", "            self.print_shooted(md_items, pn_news)\n            # save for possible restart\n            self.write_toml()", "R-8.11", control=True, why="seeded C06_g"),
    B("c08-active-stored-conditionally", REPEX, '        self.config["current"]["active"] = self.live_paths()\n        locked_ep = []', '        if self.locked:\n            self.config["current"]["active"] = self.live_paths()\n        locked_ep = []', "R-8.10", control=True),
    B("c08-data-rows-buffered-handle", REPEX, '    with open(state.data_file, "a") as fp:\n        for pn in pn_archive:', '    fp = state.__dict__.setdefault("_data_fp", open(state.data_file, "a"))\n    if True:\n        for pn in pn_archive:', "R-8.9", control=True, why="seeded C08_d (handle kept open between steps)"),
    K("c08-keep-data-rows-explicit-close", REPEX, '    with open(state.data_file, "a") as fp:\n        for pn in pn_archive:', '    fp = open(state.data_file, "a")\n    try:\n        for pn in pn_archive:', also=[(REPEX, '            traj_data.pop(pn)\n', '            traj_data.pop(pn)\n    finally:\n        fp.close()\n')]),
    B("c08-commit-before-store", REPEX, '        pn_news = []\n        md_items["md_end"] = time.time()\n        picked = md_items["picked"]\n        traj_num = self.config["current"]["traj_num"]\n',
      '        pn_news = []\n        md_items["md_end"] = time.time()\n        picked = md_items["picked"]\n        traj_num = self.config["current"]["traj_num"]\n        self.write_toml()\n', "R-8.1", control=True),
    B("c08-store-skipped-lazily", REPEX, "                out_traj = self.pstore.output(self.cstep, data)\n", "                if self.cstep % 2:\n                    out_traj = self.pstore.output(self.cstep, data)\n", "R-8.1"),
    B("c08-output-without-move", FORMATTER, "        path = self._move_path(path, traj_dir, self.keep_traj_fnames)\n        return path", "        if self.keep_traj_fnames:\n            path = self._move_path(path, traj_dir, self.keep_traj_fnames)\n        return path", "R-8.1"),
    B("c08-truncate-in-place", REPEX, '        with open("./restart.toml.tmp", "wb") as f:\n            tomli_w.dump(self.config, f)\n        os.replace("./restart.toml.tmp", "./restart.toml")', '        with open("./restart.toml", "wb") as f:\n            tomli_w.dump(self.config, f)', "R-8.2", control=True, why="pre-fix D7"),
    B("c08-rename-missing", REPEX, '        os.replace("./restart.toml.tmp", "./restart.toml")\n', "", "R-8.2"),
    B("c08-rename-before-dump", REPEX, '        with open("./restart.toml.tmp", "wb") as f:\n            tomli_w.dump(self.config, f)\n        os.replace("./restart.toml.tmp", "./restart.toml")', '        with open("./restart.toml.tmp", "wb") as f:\n            os.replace("./restart.toml.tmp", "./restart.toml")\n            tomli_w.dump(self.config, f)', "R-8.2"),
    B("c08-rename-to-other-name", REPEX, 'os.replace("./restart.toml.tmp", "./restart.toml")', 'os.replace("./restart.toml.tmp", "./restart_new.toml")', "R-8.2"),
    B("c08-delete-current-path", REPEX, '                        for adress in del_dic["adress"]:\n                            os.remove(adress)', '                        for adress in self.traj_data[pn_old]["adress"]:\n                            os.remove(adress)', "R-8.3", control=True),
    B("c08-insert-before-delete", REPEX, "                    and pn_old > self.n - 2\n                ):\n", '                    and pn_old > self.n - 2\n                ):\n                    self.pn_olds[str(pn_old)] = {"adress": self.traj_data[pn_old]["adress"]}\n', "R-8.3"),
    B("c08-initial-guard-dropped", REPEX, '                    self.config["output"].get("delete_old", False)\n                    and pn_old > self.n - 2\n', '                    self.config["output"].get("delete_old", False)\n', "R-8.3"),
    B("c08-initial-guard-off-by-one", REPEX, "                    and pn_old > self.n - 2\n", "                    and pn_old > self.n - 3\n", "R-8.3"),
    B("c08-lag-dropped", REPEX, "                    if len(self.pn_olds) > self.n - 2:\n", "                    if len(self.pn_olds) > 0:\n", "R-8.3"),
    B("c08-restart-skips-tree-check", SETUP, '            if not os.path.isfile(store_p):\n                return None', '            if not os.path.isfile(store_p):\n                logger.info("missing %s", store_p)', "R-8.4", control=True),
    B("c08-loadpath-no-order-assert", PATH, "    assert os.path.isfile(ordertxt)\n", "", "R-8.4"),
    B("c08-txt-appended", FORMATTER, 'with open(full_path, mode="w", encoding="utf8") as output:', 'with open(full_path, mode="a", encoding="utf8") as output:', "R-8.5"),
    B("c08-reissue-not-recorded", REPEX, "        self.locked.append((enss, trajs0))\n", "", "R-8.6", control=True, why="pre-fix D10"),
    B("c08-pick-not-recorded", REPEX, "        self.locked.append((list(ens_nums), pat_nums))\n", "", "R-8.6"),
    B("c08-reissue-recorded-per-ensemble", REPEX, "            self.lock(ens)\n            trajs.append(self._trajs[ens])\n", "            self.lock(ens)\n            trajs.append(self._trajs[ens])\n            self.locked.append((enss, trajs0))\n", "R-8.6"),
    B("c08-reissue-recorded-with-offset", REPEX, "        self.locked.append((enss, trajs0))\n", "        self.locked.append((enss0, trajs0))\n", "R-8.7", control=True, why="seeded C08_b"),
    B("c08-commit-without-offset", REPEX, "([int(tup0 + self._offset) for tup0 in tup[0]], tup[1])", "([int(tup0) for tup0 in tup[0]], tup[1])", "R-8.7"),
    B("c08-reissue-lock-wrong-unit", REPEX, "            self.swap(traj_idx, ens)\n            self.lock(ens)\n", "            self.swap(traj_idx, ens)\n            self.lock(ens - self._offset)\n", "R-8.7"),
    K("c08-keep-offset-via-local", REPEX, "            enss.append(ens - self._offset)\n", "            rel = ens - self._offset\n            enss.append(rel)\n"),
    B("c08-commit-before-sort", REPEX, "        self.sort_trajstate()\n        self.config[\"current\"][\"traj_num\"] = traj_num\n", "        self.config[\"current\"][\"traj_num\"] = traj_num\n        self.write_toml()\n        self.sort_trajstate()\n", "R-8.8", why="seeded C06_a"),
    K("c08-keep-tmp-name-constant", REPEX, '        with open("./restart.toml.tmp", "wb") as f:\n            tomli_w.dump(self.config, f)\n        os.replace("./restart.toml.tmp", "./restart.toml")', '        tmp_name = "restart.toml" + ".tmp"\n        with open(tmp_name, "wb") as f:\n            tomli_w.dump(self.config, f)\n        os.replace(tmp_name, "restart.toml")'),
    K("c08-keep-initial-guard-ge", REPEX, "                    and pn_old > self.n - 2\n", "                    and pn_old >= self.n - 1\n"),
    K("c08-keep-rename-os-rename", REPEX, 'os.replace("./restart.toml.tmp", "./restart.toml")', 'os.rename("./restart.toml.tmp", "./restart.toml")'),
    K("c08-keep-locked-entry-local", REPEX, "        self.locked.append((enss, trajs0))\n", "        entry = (enss, trajs0)\n        self.locked.append((entry[0], entry[1]))\n"),
    K("c08-keep-printing-moved", REPEX, "        if self.printing():\n            self.print_shooted(md_items, pn_news)\n        # save for possible restart\n        self.write_toml()", "        # save for possible restart\n        self.write_toml()\n        if self.printing():\n            self.print_shooted(md_items, pn_news)"),
]
