"""C10 - wire-fencing weights are exact, symmetric and drive segment choice.

Decided here (DESIGN.md section 10.1):

R-10.1  in wirefence_weight_and_pick the order parameters of consecutive frames are touched
        only through order comparisons with the two bounds: the abstraction of a frame to its
        region (below left / on left / strictly between / on right / above right) is exact;
R-10.2  the scan, interpreted abstractly over that finite alphabet, is the transducer of the
        property text: product exploration of (implementation, specification) to a fixpoint;
R-10.3  the selection law: proportional pick with the job's stream, segment = run plus its two
        bounding frames;
R-10.4  the weight vector plumbing of calc_cv_vector / compute_weight;
R-10.5  weight, acceptance and selection use one (left, right) pair.

Nothing of the repository is imported or executed; the abstract interpreter below evaluates
syntax trees over abstract values.
"""

from __future__ import annotations

import ast

from ..cfg import cfg_of
from ..flow import deref, flow_of, path_of
from ..loader import FUNC, AnalysisError, last_name, short, walk_local
from ..loader import _is_log_stmt
from ..util import REPEX, TIS, kwarg, loops_of, oriented
from ..variants import B, K

EXPLANATION = (
    "(R-10.1) the scan of wirefence_weight_and_pick reads the order parameter of a frame only as an "
    "operand of <, <=, >, >= against `left` / `right`, so its behaviour is a function of the frame's "
    "region in {o<left, o==left, left<o<right, o==right, o>right} - an exact finite abstraction. "
    "(R-10.2) the loop body is interpreted abstractly (no execution: a small evaluator over bool / "
    "region / affine-integer / tuple values) for every pair of regions and every reachable value of "
    "the loop-carried variables, giving the implementation's transducer; its product with the "
    "transducer written from the property text (a maximal run of frames inside [left, right) that is "
    "bounded by frames outside on both sides counts its frames iff the sides are left-left, "
    "left-right or right-left) is explored to a fixpoint; at every reachable product state both "
    "must emit the same (first frame, last frame, count) as affine forms or nothing. This decides, "
    "for all order-parameter sequences (jumps over the region and values equal to an interface "
    "included): weight = the specified count, positive iff a valid frame exists, and - the "
    "specification being symmetric under exchange of the sides - invariance under time reversal. "
    "(R-10.3) the segment is drawn with the ensemble's stream, first segment whose running sum / "
    "total reaches the uniform draw (probability count_k / total), and consists of the run and its "
    "two bounding frames so that the shootable interior is exactly what was counted. (R-10.4) "
    "calc_cv_vector: 1-tuple for [0-], one entry per interface but the last (wf -> compute_weight, "
    "else 1/0 by inclusive crossing), trailing 0; compute_weight doubles exactly under start != end "
    "for wf. (R-10.5) weight, acceptance weight and segment selection use left = the ensemble's "
    "interface, right = cap or last interface; move index = interface index + 1 everywhere."
)
NOT_DECIDED = (
    "the numeric value of high_acc_swap's ratio; that the path handed in really starts left of the "
    "region (C09); ties of the uniform draw (measure zero); left < right at run time is assumed "
    "(enforced for wf ensembles by check_config, C18 R-18.1)"
)
ASSUMPTIONS = [
    "left < right for every call of wirefence_weight_and_pick (check_config rejects a cap that leaves a wf ensemble no room)",
    "Generator.random() is uniform on [0, 1)",
    "Python evaluates comparisons / and / or / not / in as the evaluator does (no operator overloading on floats and bools)",
]

WF = "wirefence_weight_and_pick"

# regions of an order value relative to (left, right), left < right
REGIONS = (0, 1, 2, 3, 4)  # o<left, o==left, left<o<right, o==right, o>right
RNAME = {0: "<L", 1: "=L", 2: "in", 3: "=R", 4: ">R"}
POS = {"left": 1, "right": 3}


def klass(r):
    """side of a frame for the specification: inside [left, right) / outside left / outside right"""
    return "I" if r in (1, 2) else ("L" if r == 0 else "R")


VALID = {("L", "L"), ("L", "R"), ("R", "L")}
assert {(b, a) for a, b in VALID} == VALID  # the specification is symmetric under time reversal


# ------------------------------------------------------------------------------------------
# abstract values
# ------------------------------------------------------------------------------------------
def aff(d):
    return ("aff", {k: v for k, v in d.items() if v != 0})


def aff_const(v):
    return v[0] == "aff" and set(v[1]) <= {1}


class Scan:
    """Abstract interpreter of one iteration of the scan loop."""

    def __init__(self, f, loop, path_p, left_p, right_p, ivar):
        self.f, self.loop = f, loop
        self.path_p, self.left_p, self.right_p, self.ivar = path_p, left_p, right_p, ivar
        self.compares = 0

    # -- expressions ---------------------------------------------------------------------
    def order_value(self, e, env):
        """<path>.phasepoints[IDX].order[0]  ->  ("ord", "cur"|"next")"""
        if isinstance(e, ast.Subscript) and isinstance(e.value, ast.Name) and e.value.id in HOISTED:
            idx = self.ev(e.slice, env)
            if idx[0] != "aff":
                raise AnalysisError("R-10.2: frame index of the scan is not an integer expression")
            if idx[1] == {"i": 1}:
                return ("ord", "cur")
            if idx[1] == {"i": 1, 1: 1}:
                return ("ord", "next")
            raise AnalysisError(f"R-10.1: the scan reads the frame at index {idx[1]}, not the current / next one (cannot decide)")
        if not (isinstance(e, ast.Subscript) and isinstance(e.slice, ast.Constant) and e.slice.value == 0):
            return None
        a = e.value
        if not (isinstance(a, ast.Attribute) and a.attr == "order" and isinstance(a.value, ast.Subscript)):
            return None
        pp = a.value.value
        if not (isinstance(pp, ast.Attribute) and pp.attr == "phasepoints" and isinstance(pp.value, ast.Name) and pp.value.id == self.path_p):
            return None
        idx = self.ev(a.value.slice, env)
        if idx[0] != "aff":
            raise AnalysisError("R-10.2: frame index of the scan is not an integer expression")
        d = idx[1]
        if d == {"i": 1}:
            return ("ord", "cur")
        if d == {"i": 1, 1: 1}:
            return ("ord", "next")
        raise AnalysisError(f"R-10.1: the scan reads the frame at index {d}, not the current / next one: the pairwise region abstraction does not apply (cannot decide)")

    def ev(self, e, env):
        if isinstance(e, ast.Constant):
            v = e.value
            if isinstance(v, bool):
                return ("bool", v)
            if isinstance(v, int):
                return aff({1: v})
            if v is None:
                return ("none",)
            if isinstance(v, str):
                return ("str", v)
            raise AnalysisError(f"R-10.2: constant {v!r} in the scan")
        if isinstance(e, ast.Name):
            if e.id in env:
                return env[e.id]
            if e.id == self.left_p:
                return ("bound", "left")
            if e.id == self.right_p:
                return ("bound", "right")
            if e.id == self.ivar:
                return aff({"i": 1})
            raise AnalysisError(f"R-10.2: name `{e.id}` is read in the scan before it has a value the analysis knows")
        if isinstance(e, (ast.Tuple, ast.List)):
            if isinstance(e, ast.List) and not e.elts:
                return ("list",)
            return ("tuple", [self.ev(x, env) for x in e.elts])
        ov = self.order_value(e, env)
        if ov is not None:
            return ov
        if isinstance(e, ast.UnaryOp):
            v = self.ev(e.operand, env)
            if isinstance(e.op, ast.Not):
                return ("bool", not self.truth(v))
            if isinstance(e.op, ast.USub) and v[0] == "aff":
                return aff({k: -x for k, x in v[1].items()})
            raise AnalysisError("R-10.2: unary operator outside the fragment")
        if isinstance(e, ast.BoolOp):
            res = None
            for x in e.values:
                res = self.ev(x, env)
                t = self.truth(res)
                if isinstance(e.op, ast.And) and not t:
                    return res
                if isinstance(e.op, ast.Or) and t:
                    return res
            return res
        if isinstance(e, ast.BinOp) and isinstance(e.op, (ast.Add, ast.Sub)):
            a, b = self.ev(e.left, env), self.ev(e.right, env)
            if a[0] == "aff" and b[0] == "aff":
                sg = 1 if isinstance(e.op, ast.Add) else -1
                out = dict(a[1])
                for k, v in b[1].items():
                    out[k] = out.get(k, 0) + sg * v
                return aff(out)
            raise AnalysisError(f"R-10.1: arithmetic on `{short(e, 40)}` in the scan - an order parameter is used other than through a comparison with a bound (the region abstraction is not exact: cannot decide)")
        if isinstance(e, ast.BinOp) and isinstance(e.op, ast.Mult):
            a, b = self.ev(e.left, env), self.ev(e.right, env)
            if a[0] == "aff" and b[0] == "aff" and (aff_const(a) or aff_const(b)):
                c, o = (a, b) if aff_const(a) else (b, a)
                k = c[1].get(1, 0)
                return aff({s: v * k for s, v in o[1].items()})
            raise AnalysisError("R-10.2: product outside the fragment")
        if isinstance(e, ast.IfExp):
            return self.ev(e.body if self.truth(self.ev(e.test, env)) else e.orelse, env)
        if isinstance(e, ast.Compare):
            left = self.ev(e.left, env)
            ok = True
            for op, c in zip(e.ops, e.comparators):
                right = self.ev(c, env)
                if not self.cmp(left, op, right, e):
                    ok = False
                    break
                left = right
            return ("bool", ok)
        if isinstance(e, ast.Call):
            nm = last_name(e)
            if nm in ("any", "all") and len(e.args) == 1:
                v = self.ev(e.args[0], env)
                if v[0] == "tuple":
                    ts = [self.truth(x) for x in v[1]]
                    return ("bool", any(ts) if nm == "any" else all(ts))
            if nm == "bool" and len(e.args) == 1:
                return ("bool", self.truth(self.ev(e.args[0], env)))
            raise AnalysisError(f"R-10.2: call `{short(e, 40)}` in the scan is outside the fragment (cannot decide)")
        raise AnalysisError(f"R-10.2: expression `{short(e, 40)}` in the scan is outside the fragment (cannot decide)")

    def truth(self, v):
        if v[0] == "bool":
            return v[1]
        if v[0] == "none":
            return False
        if v[0] == "aff" and aff_const(v):
            return v[1].get(1, 0) != 0
        if v[0] == "tuple":
            return bool(v[1])
        raise AnalysisError(f"R-10.1: truth value of {v[0]} in the scan - not a function of the region alphabet (cannot decide)")

    def cmp(self, a, op, b, node):
        if isinstance(op, (ast.In, ast.NotIn)):
            if b[0] != "tuple":
                raise AnalysisError("R-10.2: membership test on a non-tuple in the scan")
            r = any(self.same(a, x) for x in b[1])
            return r if isinstance(op, ast.In) else not r
        if isinstance(op, (ast.Is, ast.IsNot)):
            r = a[0] == "none" and b[0] == "none" or (a[0] == b[0] == "bool" and a[1] == b[1])
            return r if isinstance(op, ast.Is) else not r
        pa, pb = self.pos(a), self.pos(b)
        if pa is None or pb is None:
            if a[0] == b[0] == "bool" and isinstance(op, (ast.Eq, ast.NotEq)):
                return (a[1] == b[1]) == isinstance(op, ast.Eq)
            if a[0] == "aff" and b[0] == "aff":
                d = dict(a[1])
                for k, v in b[1].items():
                    d[k] = d.get(k, 0) - v
                d = {k: v for k, v in d.items() if v != 0}
                if set(d) <= {1}:
                    pa, pb = d.get(1, 0), 0
                else:
                    raise AnalysisError(f"R-10.2: comparison `{short(node, 40)}` of two integer expressions is not decided by the abstract state")
            else:
                raise AnalysisError(f"R-10.1: comparison `{short(node, 40)}` in the scan is not an order comparison of a frame's order parameter with a bound (the region abstraction is not exact: cannot decide)")
        else:
            kinds = {a[0], b[0]}
            if kinds == {"ord"}:
                raise AnalysisError(f"R-10.1: `{short(node, 40)}` compares two frames with each other: not a function of the regions (cannot decide)")
            self.compares += 1
        table = {ast.Lt: pa < pb, ast.LtE: pa <= pb, ast.Gt: pa > pb, ast.GtE: pa >= pb, ast.Eq: pa == pb, ast.NotEq: pa != pb}
        if type(op) not in table:
            raise AnalysisError("R-10.2: comparison operator outside the fragment")
        return table[type(op)]

    def same(self, a, b):
        if a[0] == b[0] == "bool":
            return a[1] == b[1]
        if a[0] == b[0] == "none":
            return True
        if a[0] == "aff" and b[0] == "aff" and aff_const(a) and aff_const(b):
            return a[1].get(1, 0) == b[1].get(1, 0)
        if {a[0], b[0]} == {"bool", "aff"}:
            x, y = (a, b) if a[0] == "bool" else (b, a)
            if aff_const(y):
                return int(x[1]) == y[1].get(1, 0)
        raise AnalysisError("R-10.2: equality outside the fragment")

    def pos(self, v):
        if v[0] == "ord":
            return self.regs[v[1]]
        if v[0] == "bound":
            return POS[v[1]]
        return None

    # -- statements ----------------------------------------------------------------------
    def assign(self, tgt, val, env):
        if isinstance(tgt, ast.Name):
            env[tgt.id] = val
        elif isinstance(tgt, (ast.Tuple, ast.List)) and val[0] == "tuple" and len(val[1]) == len(tgt.elts):
            for t, v in zip(tgt.elts, val[1]):
                self.assign(t, v, env)
        else:
            raise AnalysisError(f"R-10.2: assignment target `{short(tgt, 30)}` in the scan is outside the fragment")

    def block(self, stmts, env, out):
        for st in stmts:
            if _is_log_stmt(st) or isinstance(st, ast.Pass):
                continue
            if isinstance(st, ast.Assign):
                v = self.ev(st.value, env)
                for t in st.targets:
                    self.assign(t, v, env)
            elif isinstance(st, ast.AnnAssign) and st.value is not None:
                self.assign(st.target, self.ev(st.value, env), env)
            elif isinstance(st, ast.AugAssign) and isinstance(st.target, ast.Name) and isinstance(st.op, (ast.Add, ast.Sub)):
                cur = self.ev(st.target, env)
                val = self.ev(st.value, env)
                if cur[0] != "aff" or val[0] != "aff":
                    raise AnalysisError("R-10.2: augmented assignment outside the fragment")
                sg = 1 if isinstance(st.op, ast.Add) else -1
                d = dict(cur[1])
                for k, x in val[1].items():
                    d[k] = d.get(k, 0) + sg * x
                env[st.target.id] = aff(d)
            elif isinstance(st, ast.If):
                t = self.truth(self.ev(st.test, env))
                r = self.block(st.body if t else st.orelse, env, out)
                if r == "continue":
                    return r
            elif isinstance(st, ast.Continue):
                return "continue"
            elif isinstance(st, ast.Expr) and isinstance(st.value, ast.Call) and isinstance(st.value.func, ast.Attribute) and st.value.func.attr == "append" \
                    and isinstance(st.value.func.value, ast.Name) and env.get(st.value.func.value.id, ("?",))[0] == "list" and len(st.value.args) == 1:
                out.append((st.value.func.value.id, self.ev(st.value.args[0], env), st))
            else:
                raise AnalysisError(f"R-10.2: statement `{short(st, 50)}` in the scan is outside the fragment (cannot decide)")
        return "normal"

    def step(self, state, r1, r2):
        """one iteration from abstract state `state` (dict name -> value) on the region pair.
        Returns (new state, emissions, set of names re-marked from the loop index)."""
        env = dict(state)
        self.regs = {"cur": r1, "next": r2}
        out = []
        self.block(self.loop.body, env, out)
        new = {}
        marked = set()
        for k in state:
            v = env[k]
            if v[0] == "aff" and "i" in v[1]:
                if v[1].get("i") != 1 or any(s not in ("i", 1) for s in v[1]):
                    raise AnalysisError(f"R-10.2: loop-carried `{k}` = {v[1]} is not <loop index> + constant")
                v = aff({("V", k): 1, 1: v[1].get(1, 0)})
                marked.add(k)
            new[k] = v
        return new, out, marked


def canon(state):
    def cv(v):
        if v[0] == "aff":
            return ("aff", tuple(sorted((str(k), x) for k, x in v[1].items())))
        if v[0] == "tuple":
            return ("tuple", tuple(cv(x) for x in v[1]))
        return v
    return tuple(sorted((k, cv(v)) for k, v in state.items()))


# ------------------------------------------------------------------------------------------
# locating the parts of the function
# ------------------------------------------------------------------------------------------
HOISTED = {}


class ScanViolation(Exception):
    def __init__(self, node, msg):
        super().__init__(msg)
        self.node, self.msg = node, msg


def _locate(tree):
    f = tree.func(TIS, WF)
    ps = [a.arg for a in f.args.args]
    if len(ps) < 3:
        raise AnalysisError("R-10: wirefence_weight_and_pick(path, left, right, ...) expected")
    path_p, left_p, right_p = ps[0], ps[1], ps[2]
    loop = None
    for st in f.body:
        if isinstance(st, ast.For) and any(isinstance(x, ast.Attribute) and x.attr == "order" for x in ast.walk(st)):
            loop = st
            break
    HOISTED.clear()
    if loop is None:
        # the per-frame progress coordinate read once before the scan: X = [pp.order[0] for pp in path.phasepoints]
        for st in f.body:
            if isinstance(st, ast.Assign) and len(st.targets) == 1 and isinstance(st.targets[0], ast.Name):
                comps = [c for c in ast.walk(st.value) if isinstance(c, (ast.ListComp, ast.GeneratorExp)) and len(c.generators) == 1 and not c.generators[0].ifs
                         and ast.unparse(c.generators[0].iter).replace(" ", "") == f"{path_p}.phasepoints" and isinstance(c.generators[0].target, ast.Name)]
                if not comps:
                    continue
                c = comps[0]
                pv = c.generators[0].target.id
                elt = ast.unparse(c.elt).replace(" ", "")
                wrappers = [last_name(w) for w in ast.walk(st.value) if isinstance(w, ast.Call)]
                if elt == f"{pv}.order[0]" and not set(wrappers) - {"array", "asarray", "list", "tuple", "fromiter"}:
                    HOISTED[st.targets[0].id] = st
                elif elt == f"{pv}.order":
                    col0 = isinstance(st.value, ast.Subscript) and ast.unparse(st.value.slice).replace(" ", "") in (":,0", "(slice(None,None,None),0)")
                    if col0:
                        HOISTED[st.targets[0].id] = st
                    else:
                        raise ScanViolation(st, f"the scan reads the frames' order parameters through `{short(st, 60)}`, which strings all components of every frame together: with an order parameter that returns [progress coordinate, cv1, ...] element i is not the progress coordinate of frame i, so collective variables are compared with the interfaces - weights, time-reversal symmetry and the seed segment are wrong (a one-component order parameter hides it)")
        for st in f.body:
            if isinstance(st, ast.For) and any(isinstance(x, ast.Subscript) and isinstance(x.value, ast.Name) and x.value.id in HOISTED for x in ast.walk(st)):
                loop = st
                break
    if loop is None:
        raise AnalysisError("R-10.2: the scan loop of wirefence_weight_and_pick was not found")
    if not isinstance(loop.target, ast.Name) or loop.orelse:
        raise AnalysisError("R-10.2: the scan loop is not `for <index> in range(...)`")
    it = loop.iter
    ok = False
    if isinstance(it, ast.Call) and last_name(it) == "range" and len(it.args) == 1:
        b = ast.unparse(it.args[0]).replace(" ", "")
        ok = b in (f"len({path_p}.phasepoints[:-1])", f"len({path_p}.phasepoints)-1", f"{path_p}.length-1")
    if not ok:
        raise AnalysisError(f"R-10.2: the scan loop iterates `{short(it, 50)}`, not the indices 0 .. len-2 of the frame list (cannot decide)")
    return f, loop, path_p, left_p, right_p, loop.target.id


def _pre_state(scan, f, loop):
    env = {}
    out = []
    pre = []
    for st in f.body:
        if st is loop:
            break
        if isinstance(st, ast.Expr) and isinstance(st.value, ast.Constant):
            continue
        if any(st is h for h in HOISTED.values()):
            continue  # the per-frame progress coordinates read before the scan (interpreted as frame reads)
        pre.append(st)
    scan.regs = {"cur": 2, "next": 2}
    scan.block(pre, env, out)
    if out:
        raise AnalysisError("R-10.2: the segment list is filled before the scan")
    return env


# ------------------------------------------------------------------------------------------
# R-10.3: the pick part; yields the roles of the tuple components
# ------------------------------------------------------------------------------------------
def _tuple_comp(e, var):
    """component of the segment tuple an expression denotes: E[k] for the loop variable `var`,
    or - when the loop unpacks the tuple (`for a, b, c in segments`, var = {name: k}) - a name"""
    if isinstance(var, dict):
        if isinstance(e, ast.Name) and e.id in var:
            return var[e.id]
        return None
    if isinstance(e, ast.Subscript) and isinstance(e.value, ast.Name) and e.value.id == var and isinstance(e.slice, ast.Constant) and isinstance(e.slice.value, int):
        return e.slice.value
    return None


def _aff_tuple(e, var, fl, at):
    """affine form over tuple components ('T', k) and 1"""
    if isinstance(e, ast.Name) and (e.id not in var if isinstance(var, dict) else e.id != var):
        e2, at2 = deref(fl, e, at)
        if e2 is not e:
            return _aff_tuple(e2, var, fl, at2)
    k = _tuple_comp(e, var)
    if k is not None:
        return {("T", k): 1}
    if isinstance(e, ast.Constant) and isinstance(e.value, int) and not isinstance(e.value, bool):
        return {1: e.value}
    if isinstance(e, ast.BinOp) and isinstance(e.op, (ast.Add, ast.Sub)):
        a, b = _aff_tuple(e.left, var, fl, at), _aff_tuple(e.right, var, fl, at)
        if a is None or b is None:
            return None
        sg = 1 if isinstance(e.op, ast.Add) else -1
        out = dict(a)
        for kk, v in b.items():
            out[kk] = out.get(kk, 0) + sg * v
        return {kk: v for kk, v in out.items() if v != 0}
    return None


def _aff_names(e):
    """affine form {name: coeff, 1: const} of an integer expression over plain names"""
    if isinstance(e, ast.Name):
        return {e.id: 1}
    if isinstance(e, ast.Constant) and isinstance(e.value, int) and not isinstance(e.value, bool):
        return {1: e.value}
    if isinstance(e, ast.UnaryOp) and isinstance(e.op, ast.USub):
        a = _aff_names(e.operand)
        return None if a is None else {k: -v for k, v in a.items()}
    if isinstance(e, ast.BinOp) and isinstance(e.op, (ast.Add, ast.Sub)):
        a, b = _aff_names(e.left), _aff_names(e.right)
        if a is None or b is None:
            return None
        sg = 1 if isinstance(e.op, ast.Add) else -1
        out = dict(a)
        for k, v in b.items():
            out[k] = out.get(k, 0) + sg * v
        return {k: v for k, v in out.items() if v != 0}
    return None


def r103(ctx, f, loop, path_p, listname):
    rid = "R-10.3"
    fl = flow_of(f)
    cfg = fl.cfg
    post = f.body[f.body.index(loop) + 1:]
    post_nodes = [n for st in post for n in ast.walk(st)]
    # total = sum(<elt>[c] for <elt> in LIST)
    total = None
    for n in post_nodes:
        if isinstance(n, ast.Assign) and len(n.targets) == 1 and isinstance(n.targets[0], ast.Name):
            v = n.value
            if isinstance(v, ast.IfExp) and isinstance(v.orelse, ast.Constant) and v.orelse.value == 0:
                v = v.body
            if isinstance(v, ast.Call) and last_name(v) == "sum" and v.args and isinstance(v.args[0], (ast.GeneratorExp, ast.ListComp)):
                g = v.args[0]
                if len(g.generators) == 1 and isinstance(g.generators[0].iter, ast.Name) and g.generators[0].iter.id == listname and isinstance(g.generators[0].target, ast.Name) and not g.generators[0].ifs:
                    c = _tuple_comp(g.elt, g.generators[0].target.id)
                    if c is not None:
                        total = (n.targets[0].id, c, n)
    if total is None:
        raise AnalysisError("R-10.3: the total `sum(seg[c] for seg in <segments>)` was not found after the scan")
    nname, ccomp, nnode = total
    ctx.ok(rid, nnode, f"the weight is the sum of component {ccomp} of the recorded segments")
    # every return hands out that total as the weight
    rets = [r for r in walk_local(f) if isinstance(r, ast.Return)]
    for r in rets:
        okr = isinstance(r.value, ast.Tuple) and len(r.value.elts) == 2
        if okr:
            e0, _ = deref(fl, r.value.elts[0], cfg.node_of(r))
            okr = (isinstance(r.value.elts[0], ast.Name) and r.value.elts[0].id == nname) or (isinstance(e0, ast.Name) and e0.id == nname) or e0 is nnode.value
        if okr:
            ctx.ok(rid, r, "the weight returned is the total frame count")
        else:
            ctx.bad(rid, r, f"a return of {WF} does not hand out the total frame count as the weight", construct=short(r, 60))
    # the selection loop
    sel = [n for n in post_nodes if isinstance(n, ast.For) and isinstance(n.iter, ast.Name) and n.iter.id == listname
           and (isinstance(n.target, ast.Name) or (isinstance(n.target, ast.Tuple) and all(isinstance(x, ast.Name) for x in n.target.elts)))]
    if len(sel) != 1:
        raise AnalysisError(f"R-10.3: {len(sel)} selection loops over the segment list (expected 1)")
    L = sel[0]
    var = L.target.id if isinstance(L.target, ast.Name) else {x.id: k for k, x in enumerate(L.target.elts)}
    accs = [n for n in ast.walk(L) if isinstance(n, ast.AugAssign) and isinstance(n.target, ast.Name) and isinstance(n.op, ast.Add) and _tuple_comp(n.value, var) is not None]
    affine_accs = []
    if not accs:
        # a summand computed from several components (`stop - start`): compared through the record the scan appends
        for n in ast.walk(L):
            if isinstance(n, ast.AugAssign) and isinstance(n.target, ast.Name) and isinstance(n.op, ast.Add):
                af = _aff_tuple(n.value, var, fl, cfg.node_of(n))
                if af is not None and any(isinstance(k, tuple) for k in af):
                    affine_accs.append((n, af))
    if len(accs) != 1 and len(affine_accs) != 1:
        raise AnalysisError("R-10.3: running sum `acc += seg[c]` not found in the selection loop")
    if accs:
        acc = accs[0]
        if _tuple_comp(acc.value, var) == ccomp:
            ctx.ok(rid, acc, f"the running sum adds the component that the total sums (component {ccomp})")
        else:
            ctx.bad(rid, acc, f"the running sum of the selection adds component {_tuple_comp(acc.value, var)} of a segment, the total sums component {ccomp}: segments are not drawn in proportion to their frame counts", construct=short(acc, 50))
    else:
        acc, af = affine_accs[0]
        recs = [c for c in ast.walk(loop) if isinstance(c, ast.Call) and isinstance(c.func, ast.Attribute) and c.func.attr == "append" and isinstance(c.func.value, ast.Name) and c.func.value.id == listname and c.args and isinstance(c.args[0], ast.Tuple)]
        if not recs:
            raise AnalysisError("R-10.3: the record appended by the scan was not found (cannot compare a computed summand)")
        for rc in recs:
            comps = [_aff_names(x) for x in rc.args[0].elts]
            if any(c is None for c in comps) or ccomp >= len(comps):
                raise AnalysisError("R-10.3: the components of the appended record are not affine in the scan's counters (cannot decide)")
            tot = {1: af.get(1, 0)}
            for k, co in af.items():
                if isinstance(k, tuple):
                    for nm, v in comps[k[1]].items():
                        tot[nm] = tot.get(nm, 0) + co * v
            diff = dict(tot)
            for nm, v in comps[ccomp].items():
                diff[nm] = diff.get(nm, 0) - v
            diff = {k: v for k, v in diff.items() if v != 0}
            if not diff:
                ctx.ok(rid, acc, f"the running sum adds `{short(acc.value, 30)}`, which equals the counted component {ccomp} of every record the scan appends")
            else:
                ctx.bad(rid, acc, f"the running sum of the selection adds `{short(acc.value, 30)}`, which differs from the frame count the total sums (component {ccomp} of `{short(rc.args[0], 40)}`) by {diff.get(1, 0) if set(diff) == {1} else diff}: the windows of the draw are shifted, early segments are over-picked and the last one can never be picked - segments are not drawn in proportion to their frame counts", construct=short(acc, 50))
    accname = acc.target.id
    inside = {id(x) for x in ast.walk(L)}
    inits = [d for d, sfx in fl.rd(accname, cfg.node_of(L)) if not sfx and id(d.stmt) not in inside]
    if inits and all(d.kind == "assign" and isinstance(d.value, ast.Constant) and d.value.value == 0 for d in inits):
        ctx.ok(rid, acc, "the running sum starts at 0")
    else:
        ctx.bad(rid, acc, "the running sum of the selection does not start at 0", construct="running sum initial value")
    # the test  acc / N >= U
    tests = [n for n in ast.walk(L) if isinstance(n, ast.If) and any(isinstance(x, ast.Name) and x.id == accname for x in ast.walk(n.test))]
    if len(tests) != 1:
        raise AnalysisError("R-10.3: the selection test on the running sum was not found")
    T = tests[0]
    test = T.test
    if not (isinstance(test, ast.Compare) and len(test.ops) == 1):
        raise AnalysisError("R-10.3: the selection test is not a single comparison")

    def mono(e, at):
        """exponents of {acc, N, U} in a product / quotient; None if something else occurs"""
        if isinstance(e, ast.Name):
            if e.id == accname:
                return {"acc": 1}
            if e.id == nname:
                return {"N": 1}
            e2, at2 = deref(fl, e, at)
            if e2 is not e:
                return mono(e2, at2)
            return None
        if isinstance(e, ast.Call) and isinstance(e.func, ast.Attribute) and e.func.attr == "random" and not e.args and not e.keywords:
            rv = e.func.value
            if isinstance(rv, ast.Subscript) and isinstance(rv.slice, ast.Constant) and rv.slice.value == "rgen":
                return {"U": 1, "_draw": e}
            return {"U?": 1, "_draw": e}
        if isinstance(e, ast.BinOp) and isinstance(e.op, (ast.Mult, ast.Div)):
            a, b = mono(e.left, at), mono(e.right, at)
            if a is None or b is None:
                return None
            sg = 1 if isinstance(e.op, ast.Mult) else -1
            out = dict(a)
            for k, v in b.items():
                if k == "_draw":
                    out[k] = v
                else:
                    out[k] = out.get(k, 0) + sg * v
            return out
        if isinstance(e, ast.Call) and last_name(e) == "float" and len(e.args) == 1:
            return mono(e.args[0], at)
        return None

    at = cfg.node_of(T.test) if cfg.nodes_of(T.test) else cfg.node_of(T)
    ml, mr = mono(test.left, at), mono(test.comparators[0], at)
    if ml is None or mr is None:
        raise AnalysisError(f"R-10.3: the selection test `{short(test, 50)}` is not a comparison of products of the running sum, the total and the draw")
    draw = ml.get("_draw") or mr.get("_draw")
    ratio = {}
    for k, v in ml.items():
        if k != "_draw":
            ratio[k] = ratio.get(k, 0) + v
    for k, v in mr.items():
        if k != "_draw":
            ratio[k] = ratio.get(k, 0) - v
    ratio = {k: v for k, v in ratio.items() if v != 0}
    op = test.ops[0]
    good = None
    if ratio == {"acc": 1, "N": -1, "U": -1}:
        good = isinstance(op, (ast.GtE, ast.Gt))
    elif ratio == {"acc": -1, "N": 1, "U": 1}:
        good = isinstance(op, (ast.LtE, ast.Lt))
    if "U?" in ratio or draw is None:
        ctx.bad(rid, T, "the uniform number of the segment selection is not drawn from the ensemble's stream (`ens_set[\"rgen\"].random()`)", construct="selection draw")
    elif good:
        ctx.ok(rid, T, "a segment is chosen when running sum / total >= u, u uniform on [0,1) from the ensemble's stream: P(segment k) = count_k / total")
    else:
        ctx.bad(rid, T, f"the selection test `{short(test, 60)}` is not `running sum / total >= u`: segments are not drawn with probability proportional to their frame counts", construct="selection test " + short(test, 60))
    # the If returns (first segment that reaches the draw)
    last = T.body[-1] if T.body else None
    if isinstance(last, ast.Return):
        ctx.ok(rid, last, "the first segment whose running share reaches the draw is returned")
    else:
        ctx.bad(rid, T, "the selection does not return at the first segment that reaches the draw (a later segment overrides the choice)", construct="selection without return")
    # the segment: frames range(seg[a], seg[b] + off) of the path
    inner = [n for n in ast.walk(T) if isinstance(n, ast.For) and isinstance(n.iter, ast.Call) and last_name(n.iter) == "range" and isinstance(n.target, ast.Name)]
    if len(inner) != 1:
        raise AnalysisError("R-10.3: the loop that copies the segment's frames was not found")
    J = inner[0]
    ra = J.iter.args
    lo = {1: 0} if len(ra) == 1 else _aff_tuple(ra[0], var, fl, cfg.node_of(J))
    hi = _aff_tuple(ra[0] if len(ra) == 1 else ra[1], var, fl, cfg.node_of(J))
    if len(ra) == 3 or lo is None or hi is None:
        raise AnalysisError("R-10.3: bounds of the segment's frame range are not affine in the tuple components")
    apps = [c for c in ast.walk(J) if isinstance(c, ast.Call) and isinstance(c.func, ast.Attribute) and c.func.attr == "append" and c.args]
    okf = False
    for c in apps:
        a0, _ = deref(fl, c.args[0], cfg.node_of(c))
        if isinstance(a0, ast.Subscript) and ast.unparse(a0.value) == f"{path_p}.phasepoints" and isinstance(a0.slice, ast.Name) and a0.slice.id == J.target.id:
            okf = True
    if okf:
        ctx.ok(rid, J, "the segment consists of the path's own frames at the recorded indices")
    else:
        ctx.bad(rid, J, "the selected segment is not built from the path's frames at the recorded indices", construct="segment frames")
    return {"lo": lo, "hi": hi, "cnt": ccomp}


# ------------------------------------------------------------------------------------------
# R-10.1 / R-10.2
# ------------------------------------------------------------------------------------------
def _subst(form, tup):
    """form: affine over ('T', k) and 1; tup: list of abstract values -> affine over i, V, 1"""
    out = {}
    for k, v in form.items():
        if k == 1:
            out[1] = out.get(1, 0) + v
            continue
        idx = k[1]
        if not (-len(tup) <= idx < len(tup)):
            return None
        comp = tup[idx]
        if comp[0] != "aff":
            return None
        for s, x in comp[1].items():
            out[s] = out.get(s, 0) + v * x
    return {k: v for k, v in out.items() if v != 0}


def r102(ctx, roles):
    tree = ctx.tree
    try:
        f, loop, path_p, left_p, right_p, ivar = _locate(tree)
    except ScanViolation as sv:
        ctx.bad("R-10.1", sv.node, sv.msg, construct="scan reads flattened order vectors")
        return None
    scan = Scan(f, loop, path_p, left_p, right_p, ivar)
    init = _pre_state(scan, f, loop)
    lists = [k for k, v in init.items() if v[0] == "list"]
    if len(lists) != 1:
        raise AnalysisError(f"R-10.2: {len(lists)} lists are initialised before the scan (expected the segment list only)")
    listname = lists[0]
    state0 = {k: v for k, v in init.items()}
    for k, v in state0.items():
        if v[0] not in ("bool", "aff", "list", "none"):
            raise AnalysisError(f"R-10.2: loop-carried `{k}` has a value outside the fragment")
    if roles is None:
        return f, loop, path_p, listname
    # ---- R-10.1 (syntactic side): uses of the order values
    ordnames = set()
    for st in ast.walk(loop):
        if isinstance(st, ast.Assign) and len(st.targets) == 1 and isinstance(st.targets[0], ast.Name):
            v = st.value
            if isinstance(v, ast.Subscript) and isinstance(v.value, ast.Attribute) and v.value.attr == "order":
                ordnames.add(st.targets[0].id)
            if isinstance(v, ast.Subscript) and isinstance(v.value, ast.Name) and v.value.id in HOISTED:
                ordnames.add(st.targets[0].id)
        # op1, op2 = X[i], X[i + 1]
        if isinstance(st, ast.Assign) and len(st.targets) == 1 and isinstance(st.targets[0], ast.Tuple) and isinstance(st.value, ast.Tuple) and len(st.targets[0].elts) == len(st.value.elts):
            for t_, v_ in zip(st.targets[0].elts, st.value.elts):
                if isinstance(t_, ast.Name) and isinstance(v_, ast.Subscript) and ((isinstance(v_.value, ast.Name) and v_.value.id in HOISTED) or (isinstance(v_.value, ast.Attribute) and v_.value.attr == "order")):
                    ordnames.add(t_.id)
    nuse = 0
    for n in ast.walk(f):
        if isinstance(n, ast.Name) and n.id in ordnames and isinstance(n.ctx, ast.Load):
            par = getattr(n, "_parent", None)
            if isinstance(par, ast.Compare):
                others = [x for x in [par.left] + par.comparators if x is not n]
                if all(isinstance(o, ast.Name) and o.id in (left_p, right_p) for o in others) and all(isinstance(o, (ast.Lt, ast.LtE, ast.Gt, ast.GtE)) for o in par.ops):
                    nuse += 1
                    continue
            raise AnalysisError(f"R-10.1: the order parameter `{n.id}` is used in `{short(par, 50)}`, not only as an operand of an order comparison with `{left_p}` / `{right_p}`: the region abstraction is not exact (cannot decide)")
    if nuse == 0:
        raise AnalysisError("R-10.1: no comparison of an order parameter with a bound found in the scan")
    ctx.ok("R-10.1", loop, f"{nuse} uses of the two frames' order parameters, all operands of <, <=, >, >= against `{left_p}` / `{right_p}`: behaviour depends on a frame only through its region (5 regions, exact)")
    # ---- product exploration
    rid = "R-10.2"
    start = []
    for r0 in REGIONS:
        start.append((r0, canon(state0), False, "closed"))
    states = {}
    store = {}
    todo = []
    for s in start:
        states[s] = (None, None)
        store[s] = dict(state0)
        todo.append(s)
    nsteps = 0
    emitted_pairs = set()
    violations = []

    def word(s, r2=None):
        w = []
        cur = s
        while cur is not None:
            w.append(RNAME[cur[0]])
            cur = states[cur][0]
        w.reverse()
        if r2 is not None:
            w.append(RNAME[r2])
        return " ".join(w)

    seen_viol = set()
    while todo:
        s = todo.pop()
        r1, _, sync, spec = s
        st = store[s]
        for r2 in REGIONS:
            nsteps += 1
            if nsteps > 20000:
                raise AnalysisError("R-10.2: the product of implementation and specification does not reach a fixpoint (cannot decide)")
            new, out, marked = scan.step(st, r1, r2)
            out = [o for o in out if o[0] == listname]
            # specification
            k1, k2 = klass(r1), klass(r2)
            s_open = s_emit = None
            nspec = spec
            if spec == "closed":
                if k1 in ("L", "R") and k2 == "I":
                    nspec = ("open", k1)
                    s_open = True
            else:
                if k2 != "I":
                    if (spec[1], k2) in VALID:
                        s_emit = (spec[1], k2)
                    nspec = "closed"
            nsync = sync
            if s_open:
                nsync = bool(marked)
            elif marked:
                nsync = False
            w = word(s, r2)
            if s_emit and not out:
                key = ("miss", s_emit)
                if key not in seen_viol:
                    seen_viol.add(key)
                    violations.append((loop, f"a run of frames inside [{left_p}, {right_p}) that was entered from the {'left' if s_emit[0] == 'L' else 'right'} and left to the {'left' if s_emit[1] == 'L' else 'right'} is a valid sub-path but is not counted; witness (regions of consecutive frames): {w}", f"valid {s_emit[0]}-{s_emit[1]} sub-path not counted"))
            elif out and not s_emit:
                why = "no run is open here according to the specification (the run touches the start of the path, was not entered from outside, or is a right-right run)" if spec == "closed" or k2 == "I" else f"a {spec[1]}-{k2} run is not a valid sub-path"
                key = ("extra", spec if spec == "closed" else spec[1], k2)
                if key not in seen_viol:
                    seen_viol.add(key)
                    violations.append((out[0][2], f"the scan records a segment where the property counts none: {why}; witness (regions of consecutive frames): {w}", f"segment recorded without a valid sub-path ({'closed' if spec == 'closed' else spec[1]}->{k2})"))
            elif s_emit and out:
                if len(out) != 1 or out[0][1][0] != "tuple":
                    raise AnalysisError("R-10.2: more than one segment (or a non-tuple) recorded in one iteration")
                tup = out[0][1][1]
                forms = {nm: _subst(roles[nm] if nm != "cnt" else {("T", roles["cnt"]): 1}, tup) for nm in ("lo", "hi", "cnt")}
                if any(v is None for v in forms.values()):
                    raise AnalysisError("R-10.2: a recorded segment component is not an affine integer")
                usesV = any(isinstance(k, tuple) for fm in forms.values() for k in fm)
                if usesV and not sync:
                    key = ("stale",)
                    if key not in seen_viol:
                        seen_viol.add(key)
                        violations.append((out[0][2], f"the recorded segment uses a run start that was not set when this run was entered (stale index); witness: {w}", "stale run start"))
                else:
                    def norm(fm):
                        d = {}
                        for k, v in fm.items():
                            kk = "M" if isinstance(k, tuple) else k
                            d[kk] = d.get(kk, 0) + v
                        return {k: v for k, v in d.items() if v != 0}
                    got = {nm: norm(fm) for nm, fm in forms.items()}
                    want = {"lo": {"M": 1}, "hi": {"i": 1, 1: 2}, "cnt": {"i": 1, "M": -1}}
                    for nm, txt in (("cnt", "frame count"), ("lo", "first frame"), ("hi", "end of the frame range")):
                        if got[nm] != want[nm]:
                            key = ("form", nm)
                            if key not in seen_viol:
                                seen_viol.add(key)
                                violations.append((out[0][2], f"the {txt} of a recorded sub-path is {got[nm]} instead of {want[nm]} (i = index of the last inside frame, M = index of the frame before the first inside frame; the range end is exclusive): " + ("the weight is not the number of frames inside the region on that sub-path" if nm == "cnt" else "the segment handed to the shooting move is not the run plus its two bounding frames, so the frames that can be shot from are not the frames that were counted") + f"; witness: {w}", f"segment {nm} form"))
                    emitted_pairs.add(s_emit)
            nxt = (r2, canon(new), nsync, nspec)
            if nxt not in states:
                states[nxt] = (s, r2)
                store[nxt] = new
                todo.append(nxt)
    for node, msg, cons in violations:
        ctx.bad(rid, node, msg, construct=cons)
    if not violations:
        ctx.ok(rid, loop, f"implementation and specification transducers agree on all {len(states)} reachable product states x 5 next regions ({nsteps} abstract steps): weight = number of frames inside [left, right) on left-left, left-right and right-left sub-paths, for every sequence")
        ctx.ok(rid, loop, f"emitting side pairs {sorted(emitted_pairs)} are closed under exchange and a run's count does not depend on direction: the weight is invariant under time reversal; it is positive iff a valid sub-path exists (every counted run has >= 1 frame)")
        ctx.ok(rid, loop, "segment = frames [M, i+2): the run plus its two bounding frames; interior = the counted frames")
    return f, loop, path_p, listname


# ------------------------------------------------------------------------------------------
# R-10.4: calc_cv_vector / compute_weight
# ------------------------------------------------------------------------------------------
def _is_pmax(fl, e, at, path_p):
    """does e denote the path's maximum order parameter (path.ordermax[0])?"""
    if ast.unparse(e).replace(" ", "") == f"{path_p}.ordermax[0]":
        return True
    if isinstance(e, ast.Name):
        for d, sfx in fl.rd(e.id, at):
            if sfx:
                return False
            if d.kind == "unpack" and d.value is not None and ast.unparse(d.value).replace(" ", "") == f"{path_p}.ordermax" and tuple(d.index) == (0,):
                continue
            if d.kind == "assign" and d.value is not None and ast.unparse(d.value).replace(" ", "") == f"{path_p}.ordermax[0]":
                continue
            return False
        return True
    return False


def _one_zero(ctx, rid, e, fl, at, path_p, bound_pred, what):
    """`1.0 if BOUND <= pmax else 0.0`"""
    e, at = deref(fl, e, at)
    if not (isinstance(e, ast.IfExp) and isinstance(e.body, ast.Constant) and isinstance(e.orelse, ast.Constant)):
        return None
    if not (e.body.value == 1 and e.orelse.value == 0):
        if e.body.value == 0 and e.orelse.value == 1:
            inv = True
        else:
            return None
    else:
        inv = False
    t = e.test
    if not (isinstance(t, ast.Compare) and len(t.ops) == 1):
        return None
    o = oriented(t, lambda x: _is_pmax(fl, x, at, path_p))
    if o is None or not bound_pred(o[2]):
        return None
    op = o[1]  # pmax OP bound
    if inv:
        op = {ast.Lt: ast.GtE, ast.LtE: ast.Gt, ast.Gt: ast.LtE, ast.GtE: ast.Lt}.get(type(op), type(None))()
    if isinstance(op, ast.GtE):
        return True, f"{what}: 1 iff the path's maximum reaches the interface (inclusive, as the crossing test of check_interfaces)"
    return False, f"{what}: weight 1 iff `maximum {type(op).__name__} interface`, not `maximum >= interface`: " + ("a path whose maximum lies exactly on the interface gets weight 0 in an ensemble it belongs to" if isinstance(op, ast.Gt) else "paths that do not reach the interface get weight 1")


def r104(ctx, rid="R-10.4"):
    tree = ctx.tree
    f = tree.func(TIS, "calc_cv_vector")
    ps = [a.arg for a in f.args.args]
    need = ("path", "interfaces", "moves", "lambda_minus_one", "cap", "minus")
    if [p for p in need if p not in ps]:
        raise AnalysisError(f"R-10.4: calc_cv_vector{tuple(ps)} lacks one of the parameters {need}")
    fl = flow_of(f)
    cfg = fl.cfg
    rets = [r for r in walk_local(f) if isinstance(r, ast.Return)]
    minus_rets, plain_rets = [], []
    for r in rets:
        facts = [(ast.unparse(e), t) for e, t, _ in cfg.guards(cfg.node_of(r))]
        if ("minus", True) in facts:
            minus_rets.append((r, facts))
        else:
            plain_rets.append((r, facts))
    if not minus_rets or not plain_rets:
        raise AnalysisError("R-10.4: calc_cv_vector does not separate the [0-] case by `minus`")
    for r, facts in minus_rets:
        v = r.value
        if not (isinstance(v, ast.Tuple) and len(v.elts) == 1):
            ctx.bad(rid, r, "the weight vector of a [0-] path is not a 1-tuple", construct=short(r, 60))
            continue
        lm_set = ("lambda_minus_one is not False", True) in facts or ("lambda_minus_one is False", False) in facts
        lm_unset = ("lambda_minus_one is not False", False) in facts or ("lambda_minus_one is False", True) in facts
        if not (lm_set or lm_unset):
            # the boundary chosen once by a conditional expression:
            #   left = interfaces[0] if lambda_minus_one is False else lambda_minus_one
            def _chosen(b, _at=cfg.node_of(r)):
                if isinstance(b, ast.Name):
                    b, _ = deref(fl, b, _at)
                if not (isinstance(b, ast.IfExp) and isinstance(b.test, ast.Compare) and len(b.test.ops) == 1 and ast.unparse(b.test.left) == "lambda_minus_one"
                        and isinstance(b.test.comparators[0], ast.Constant) and b.test.comparators[0].value is False and isinstance(b.test.ops[0], (ast.Is, ast.IsNot))):
                    return False
                when_set, when_unset = (b.body, b.orelse) if isinstance(b.test.ops[0], ast.IsNot) else (b.orelse, b.body)
                return ast.unparse(when_set).replace(" ", "") == "lambda_minus_one" and ast.unparse(when_unset).replace(" ", "") == "interfaces[0]"
            res = _one_zero(ctx, rid, v.elts[0], fl, cfg.node_of(r), "path", _chosen, "[0-] weight")
            if res is not None and res[0]:
                ctx.ok(rid, r, "[0-]: (1,) iff the path reaches lambda_-1 when it is set (`is not False`), else interfaces[0] (boundary chosen by a conditional expression)")
                continue
            if res is not None:
                ctx.bad(rid, r, res[1], construct=short(r, 60))
                continue
            ctx.bad(rid, r, "the [0-] weight does not distinguish `lambda_minus_one is not False` (0.0 is a legal lambda_-1: a truthiness test would take it for unset)", construct=short(r, 60))
            continue
        want = "lambda_minus_one" if lm_set else "interfaces[0]"
        res = _one_zero(ctx, rid, v.elts[0], fl, cfg.node_of(r), "path", lambda b: ast.unparse(b).replace(" ", "") == want, "[0-] weight")
        if res is None:
            ctx.bad(rid, r, f"the [0-] weight is not `1.0 if {want} <= path maximum else 0.0`", construct=short(r, 60))
        elif res[0]:
            ctx.ok(rid, r, f"[0-] ({'lambda_-1 set' if lm_set else 'no lambda_-1'}): (1,) iff the path reaches {want}")
        else:
            ctx.bad(rid, r, res[1], construct=short(r, 60))
    # the loop
    loops = [n for n in f.body if isinstance(n, ast.For)]
    if len(loops) != 1:
        raise AnalysisError(f"R-10.4: calc_cv_vector has {len(loops)} top-level loops (expected 1 over the interfaces)")
    L = loops[0]
    it, tgt = L.iter, L.target
    # entries added outside the loop over the interfaces are not computed by the per-ensemble rule
    loose = [c for st in f.body if st is not L for c in ast.walk(st) if isinstance(c, ast.Call) and isinstance(c.func, ast.Attribute) and c.func.attr in ("append", "insert", "extend") and isinstance(c.func.value, ast.Name)
             and any(isinstance(r.value, (ast.Name, ast.Call)) and c.func.value.id in {x.id for x in ast.walk(r.value) if isinstance(x, ast.Name)} for r, _f in plain_rets if r.value is not None)]
    loose = [c for c in loose if cfg.reaches(cfg.node_of(c), cfg.node_of(L))]  # before the loop (the closing 0.0 for the last interface comes after it)
    for c in loose:
        ctx.bad(rid, c, f"calc_cv_vector adds an entry to the weight vector outside the loop over the interfaces (`{short(c, 50)}`): that entry is not computed by the rule of its ensemble - with `wf` as the move of that ensemble it must be the wire-fencing weight of the path (frame count between interface and cap, doubled for a path connecting both outer sides, 0 for a path that jumps the region), so the state matrix and the data file disagree with what wire_fencing / subt_acceptance compute",
                construct=f"calc_cv_vector: entry outside the interface loop: {short(c, 40)}")
    if loose:
        return
    if not (isinstance(it, ast.Call) and last_name(it) == "enumerate" and it.args and ast.unparse(it.args[0]).replace(" ", "") == "interfaces[:-1]"
            and len(it.args) == 1 and not it.keywords and isinstance(tgt, ast.Tuple) and len(tgt.elts) == 2 and all(isinstance(x, ast.Name) for x in tgt.elts)):
        raise AnalysisError(f"R-10.4: the loop of calc_cv_vector is `{short(L, 60)}`, not `for idx, intf in enumerate(interfaces[:-1])` (cannot decide)")
    idx, elem = tgt.elts[0].id, tgt.elts[1].id
    ctx.ok(rid, L, "one entry per interface except the last")
    apps = [c for c in ast.walk(L) if isinstance(c, ast.Call) and isinstance(c.func, ast.Attribute) and c.func.attr == "append" and isinstance(c.func.value, ast.Name) and c.args]
    if not apps:
        raise AnalysisError("R-10.4: no append in the loop of calc_cv_vector")
    cv = apps[0].func.value.id
    head = cfg.node_of(L)
    app_nodes = {nd for c in apps for nd in cfg.nodes_of(c)}
    body_entry = [s for s, lab in cfg.succ[head.id] if cfg.nodes[s].ast is not None and any(cfg.nodes[s].ast is x or cfg.nodes[s].ast is getattr(x, "test", None) for x in ast.walk(L) if x is not L)]
    skip = any(head.id in cfg.reachable(cfg.nodes[b], avoid=app_nodes, labels_excluded=("exc",)) or b in app_nodes and False for b in body_entry if b not in {n.id for n in app_nodes})
    twice = any(any(o.id in cfg.reachable(a, avoid=[head], labels_excluded=("exc",)) - {a.id} for o in app_nodes) for a in app_nodes)
    if skip or twice:
        ctx.bad(rid, L, "an iteration of calc_cv_vector's loop does not append exactly one entry: the weight vector is not aligned with the ensembles", construct="entries per interface")
    else:
        ctx.ok(rid, L, "every iteration appends exactly one entry")

    def move_index_shift(e, at_=None):
        """moves[idx + k] -> k   (a local holding the move is looked through)"""
        if isinstance(e, ast.Name):
            e2, _ = deref(fl, e, at_ if at_ is not None else cfg.node_of(L))
            if e2 is e:
                return None
            e = e2
        if isinstance(e, ast.Subscript) and ast.unparse(e.value) == "moves":
            s = e.slice
            if isinstance(s, ast.Name) and s.id == idx:
                return 0
            if isinstance(s, ast.BinOp) and isinstance(s.op, (ast.Add, ast.Sub)) and isinstance(s.left, ast.Name) and s.left.id == idx and isinstance(s.right, ast.Constant):
                return s.right.value if isinstance(s.op, ast.Add) else -s.right.value
            if isinstance(s, ast.BinOp) and isinstance(s.op, ast.Add) and isinstance(s.right, ast.Name) and s.right.id == idx and isinstance(s.left, ast.Constant):
                return s.left.value
        return None

    for c in apps:
        at = cfg.node_of(c)
        facts = [(e, t) for e, t, _ in cfg.guards(at)]
        wf = None
        for e, t in facts:
            if isinstance(e, ast.Compare) and len(e.ops) == 1 and isinstance(e.ops[0], (ast.Eq, ast.NotEq)):
                sides = [e.left, e.comparators[0]]
                cst = [x for x in sides if isinstance(x, ast.Constant) and x.value == "wf"]
                mv = [x for x in sides if move_index_shift(x, at) is not None]
                if cst and mv:
                    is_wf = t == isinstance(e.ops[0], ast.Eq)
                    wf = (is_wf, move_index_shift(mv[0], at), e)
        if wf is None:
            ctx.bad(rid, c, "an entry of the weight vector is appended without a test of the ensemble's move (`moves[idx + 1] == \"wf\"`)", construct=short(c, 60))
            continue
        is_wf, shift, tnode = wf
        if shift != 1:
            ctx.bad(rid, tnode, f"entry idx of the weight vector (interface idx) is decided by moves[idx + ({shift})]; the ensemble of interface idx has move index idx + 1 (initiate_ensembles: ensemble j has interfaces [I0, I[j-1], I[-1]] and move j): the wire-fencing weight lands in the wrong ensemble's column", construct="move index of weight entry")
            continue
        v, vat = deref(fl, c.args[0], at)
        if is_wf:
            if not (isinstance(v, ast.Call) and last_name(v) == "compute_weight" and len(v.args) >= 3):
                ctx.bad(rid, c, "the entry of a wire-fencing ensemble is not compute_weight(path, [left, interface, cap], move)", construct=short(c, 60))
                continue
            tri, tat = deref(fl, v.args[1], vat)
            okt = isinstance(tri, (ast.List, ast.Tuple)) and len(tri.elts) == 3
            if okt:
                e0 = ast.unparse(tri.elts[0]).replace(" ", "")
                e1, _ = deref(fl, tri.elts[1], tat)
                e2, e2at = deref(fl, tri.elts[2], tat)
                capok = False
                if isinstance(e2, ast.IfExp) and isinstance(e2.test, ast.Compare) and len(e2.test.ops) == 1 and ast.unparse(e2.test.left) == "cap" and isinstance(e2.test.comparators[0], ast.Constant) and e2.test.comparators[0].value is None:
                    isnot = isinstance(e2.test.ops[0], ast.IsNot)
                    a, b = (e2.body, e2.orelse) if isnot else (e2.orelse, e2.body)
                    capok = isinstance(e2.test.ops[0], (ast.Is, ast.IsNot)) and ast.unparse(a) == "cap" and ast.unparse(b).replace(" ", "") == "interfaces[-1]"
                okt = e0 == "interfaces[0]" and isinstance(e1, ast.Name) and e1.id == elem and capok
            mvs = move_index_shift(v.args[2], vat) if not isinstance(v.args[2], ast.Constant) else (1 if v.args[2].value == "wf" else None)
            if okt and mvs == 1 and ast.unparse(v.args[0]) == "path":
                ctx.ok(rid, c, "wf ensemble: compute_weight(path, [interfaces[0], interface_i, cap if cap is not None else interfaces[-1]], moves[idx + 1])")
            else:
                ctx.bad(rid, c, "the wire-fencing entry is not computed from [interfaces[0], this ensemble's interface, cap (tested with `is None`) or last interface] and this ensemble's move", construct=short(v, 90))
        else:
            res = _one_zero(ctx, rid, c.args[0], fl, at, "path", lambda b: isinstance(b, ast.Name) and b.id == elem, "shooting ensemble")
            if res is None:
                ctx.bad(rid, c, "the entry of a shooting ensemble is not `1.0 if interface_i <= path maximum else 0.0`", construct=short(c, 60))
            elif res[0]:
                ctx.ok(rid, c, res[1])
            else:
                ctx.bad(rid, c, res[1], construct=short(c, 60))
    # trailing zero and the return
    after = [c for c in walk_local(f) if isinstance(c, ast.Call) and isinstance(c.func, ast.Attribute) and c.func.attr == "append" and isinstance(c.func.value, ast.Name) and c.func.value.id == cv and not any(c is x for x in ast.walk(L))]
    zero = [c for c in after if c.args and isinstance(c.args[0], ast.Constant) and c.args[0].value == 0 and not isinstance(c.args[0].value, bool)]
    if len(after) == 1 and len(zero) == 1 and all(cfg.dominates(cfg.node_of(zero[0]), cfg.node_of(r)) for r, _ in plain_rets):
        ctx.ok(rid, zero[0], "exactly one trailing 0 for the last interface")
    else:
        ctx.bad(rid, f, "the weight vector does not end with exactly one 0 for the last interface (the ghost column)", construct="trailing zero of the weight vector")
    for r, _ in plain_rets:
        v, _at = deref(fl, r.value, cfg.node_of(r))
        if isinstance(v, ast.Call) and last_name(v) == "tuple" and v.args and ast.unparse(v.args[0]) == cv:
            ctx.ok(rid, r, "the vector built entry by entry is what is returned")
        else:
            ctx.bad(rid, r, "calc_cv_vector does not return the vector it built", construct=short(r, 60))
    # ---- compute_weight
    g = tree.func(TIS, "compute_weight")
    gps = [a.arg for a in g.args.args]
    if len(gps) < 3:
        raise AnalysisError("R-10.4: compute_weight(path, interfaces, move) expected")
    gp, gi, gm = gps[0], gps[1], gps[2]
    gfl = flow_of(g)
    gcfg = gfl.cfg
    wfc = [c for c in walk_local(g) if isinstance(c, ast.Call) and last_name(c) == WF]
    if len(wfc) != 1:
        raise AnalysisError("R-10.4: compute_weight does not call wirefence_weight_and_pick exactly once")
    c = wfc[0]
    facts = [(ast.unparse(e).replace("'", '"'), t) for e, t, _ in gcfg.guards(gcfg.node_of(c))]
    args = [ast.unparse(a).replace(" ", "") for a in c.args]
    if (f'{gm} == "wf"', True) in facts and args[:3] == [gp, f"{gi}[1]", f"{gi}[2]"]:
        ctx.ok(rid, c, "for wf the frame count is taken between the ensemble's interface (component 1) and the cap (component 2)")
    else:
        ctx.bad(rid, c, f"compute_weight counts wire-fencing frames with `{short(c, 70)}` under {facts}: not (path, interfaces[1], interfaces[2]) under move == \"wf\"", construct=short(c, 70))
    rets = [r for r in walk_local(g) if isinstance(r, ast.Return)]
    wname = rets[0].value.id if rets and isinstance(rets[0].value, ast.Name) else None
    if wname is None or len(rets) != 1:
        raise AnalysisError("R-10.4: compute_weight does not return a single weight variable")
    mods = [d for d in gfl.defs if d.path == wname]
    doubles, others = [], []
    for d in mods:
        st = d.stmt
        if isinstance(st, ast.AugAssign) and isinstance(st.op, ast.Mult) and isinstance(st.value, ast.Constant):
            doubles.append(st)
        elif isinstance(st, ast.Assign) and isinstance(st.value, ast.BinOp) and isinstance(st.value.op, ast.Mult) and any(isinstance(x, ast.Name) and x.id == wname for x in (st.value.left, st.value.right)) and any(isinstance(x, ast.Constant) for x in (st.value.left, st.value.right)):
            doubles.append(st)
        else:
            others.append(st)
    if len(doubles) != 1:
        ctx.bad(rid, g, f"compute_weight multiplies the weight by a constant at {len(doubles)} places (expected one doubling)", construct="doubling count")
    else:
        st = doubles[0]
        k = st.value if isinstance(st, ast.AugAssign) else next(x for x in (st.value.left, st.value.right) if isinstance(x, ast.Constant))
        facts = [(e, t) for e, t, _ in gcfg.guards(gcfg.node_of(st))]
        ne = False
        for e, t in facts:
            if isinstance(e, ast.Compare) and len(e.ops) == 1 and isinstance(e.ops[0], (ast.NotEq, ast.Eq)) and t == isinstance(e.ops[0], ast.NotEq):
                dat = gcfg.node_of(st)
                calls = [deref(gfl, x, dat) for x in (e.left, e.comparators[0])]
                nm = sorted(last_name(x) if isinstance(x, ast.Call) else "?" for x, _ in calls)
                if nm == ["get_end_point", "get_start_point"] and all(
                        [ast.unparse(deref(gfl, a, xat)[0]).replace(" ", "") for a in x.args[:2]] == [f"{gi}[0]", f"{gi}[2]"] and isinstance(x.func, ast.Attribute) and ast.unparse(x.func.value) == gp
                        for x, xat in calls):
                    ne = True
        inwf = False
        for e, t in facts:
            if t and isinstance(e, ast.Compare) and len(e.ops) == 1 and isinstance(e.ops[0], ast.In) and ast.unparse(e.left) == gm and isinstance(e.comparators[0], (ast.Tuple, ast.List, ast.Set)):
                inwf = any(isinstance(x, ast.Constant) and x.value == "wf" for x in e.comparators[0].elts)
            if t and isinstance(e, ast.Compare) and len(e.ops) == 1 and isinstance(e.ops[0], ast.Eq) and {ast.unparse(e.left), ast.unparse(e.comparators[0]).replace("'", '"')} == {gm, '"wf"'}:
                inwf = True
        if k.value == 2 and ne and inwf:
            ctx.ok(rid, st, "the weight is doubled exactly when the path connects the two outer sides (start != end w.r.t. components 0 and 2), for wf")
        else:
            ctx.bad(rid, st, f"the doubling `{short(st, 40)}` is not `*= 2` under `start point != end point` (w.r.t. interfaces[0], interfaces[2]) for the wf move: paths that connect the two outer sides are not counted twice (or others are)", construct="doubling condition")
    # other definitions: the initial 1.0 and `1.0 * count`
    for st in others:
        if st is None:
            continue
        if isinstance(st, ast.Assign):
            v = st.value
            if isinstance(v, ast.Constant) and v.value == 1:
                continue
            srcs = gfl.deps(v, gcfg.node_of(st)) if hasattr(gfl, "deps") else []
            txt = ast.unparse(v)
            unpack = [d for d in gfl.defs if d.kind == "unpack" and d.value is c and tuple(d.index) == (0,)]
            names = {d.path for d in unpack}
            used = {n_.id for n_ in ast.walk(v) if isinstance(n_, ast.Name)}
            consts = [x.value for x in ast.walk(v) if isinstance(x, ast.Constant)]
            if used and used <= names and all(x == 1 for x in consts) and not any(isinstance(x, (ast.Add, ast.Sub, ast.Div, ast.Pow)) for x in ast.walk(v)):
                ctx.ok(rid, st, "the wf weight is the frame count returned by the scan (component 0 of its result)")
                continue
        ctx.bad(rid, st, f"compute_weight changes the weight with `{short(st, 50)}`: not the frame count / the doubling", construct=short(st, 50))


# ------------------------------------------------------------------------------------------
# R-10.5: one (left, right) for weight, acceptance and selection
# ------------------------------------------------------------------------------------------
def _term(fl, e, at, ctxinfo, depth=0):
    """origin of an interface value relative to the ensemble: 'E0','E1','E2', ('CAP|', x), or None"""
    if depth > 8:
        return None
    txt = ast.unparse(e).replace(" ", "").replace("'", '"')
    ens = ctxinfo.get("ens")  # name of the ensemble dict
    if ens:
        for k in (0, 1, 2):
            if txt == f'{ens}["interfaces"][{k}]':
                return f"E{k}"
        if txt == f'{ens}["interfaces"][-1]':
            return "E2"
    for k, v in ctxinfo.get("direct", {}).items():
        if txt == k:
            return v
    if isinstance(e, ast.Name):
        if e.id in ctxinfo.get("names", {}):
            return ctxinfo["names"][e.id]
        e2, at2 = deref(fl, e, at)
        if e2 is not e:
            return _term(fl, e2, at2, ctxinfo, depth + 1)
        # `left, middle, right = <triple>`: component k of the triple
        defs = [d for d, sfx in fl.rd(e.id, at) if not sfx]
        if len(defs) == 1 and defs[0].kind == "unpack" and len(defs[0].index) == 1 and isinstance(defs[0].index[0], int) and defs[0].value is not None:
            lst = _symlist(fl, defs[0].value, defs[0].at, ctxinfo, depth + 1)
            k = defs[0].index[0]
            if lst is not None and -len(lst) <= k < len(lst):
                return lst[k]
        return None
    if isinstance(e, ast.IfExp) and isinstance(e.test, ast.Compare) and len(e.test.ops) == 1 and isinstance(e.test.ops[0], (ast.Is, ast.IsNot)) \
            and isinstance(e.test.comparators[0], ast.Constant) and e.test.comparators[0].value is None and _term(fl, e.test.left, at, ctxinfo, depth + 1) == "CAP":
        a, b = (e.body, e.orelse) if isinstance(e.test.ops[0], ast.IsNot) else (e.orelse, e.body)
        if _term(fl, a, at, ctxinfo, depth + 1) == "CAP":
            return ("CAP|", _term(fl, b, at, ctxinfo, depth + 1))
        return None
    if isinstance(e, ast.Call) and isinstance(e.func, ast.Attribute) and e.func.attr == "get" and len(e.args) == 2 and isinstance(e.args[0], ast.Constant) and e.args[0].value == "interface_cap":
        return ("CAP|", _term(fl, e.args[1], at, ctxinfo, depth + 1))
    if isinstance(e, ast.Subscript) and isinstance(e.slice, ast.Constant) and isinstance(e.slice.value, int):
        lst = _symlist(fl, e.value, at, ctxinfo, depth + 1)
        if lst is not None and -len(lst) <= e.slice.value < len(lst):
            return lst[e.slice.value]
    return None


def _symlist(fl, e, at, ctxinfo, depth=0):
    if depth > 8:
        return None
    ens = ctxinfo.get("ens")
    txt = ast.unparse(e).replace(" ", "").replace("'", '"')
    if ens and txt == f'{ens}["interfaces"]':
        return ["E0", "E1", "E2"]
    if isinstance(e, (ast.List, ast.Tuple)):
        return [_term(fl, x, at, ctxinfo, depth + 1) for x in e.elts]
    if isinstance(e, ast.Call) and last_name(e) in ("list", "tuple") and len(e.args) == 1:
        return _symlist(fl, e.args[0], at, ctxinfo, depth + 1)
    if isinstance(e, ast.BinOp) and isinstance(e.op, ast.Add):
        a, b = _symlist(fl, e.left, at, ctxinfo, depth + 1), _symlist(fl, e.right, at, ctxinfo, depth + 1)
        return None if a is None or b is None else a + b
    if isinstance(e, ast.BinOp) and isinstance(e.op, ast.Mult):
        for l, k in ((e.left, e.right), (e.right, e.left)):
            if isinstance(k, ast.Constant) and isinstance(k.value, int):
                a = _symlist(fl, l, at, ctxinfo, depth + 1)
                return None if a is None else a * k.value
    if isinstance(e, ast.Name):
        defs = [d for d, sfx in fl.rd(e.id, at) if not sfx and d.kind == "assign"]
        if len(defs) != 1:
            return None
        base = _symlist(fl, defs[0].value, defs[0].at, ctxinfo, depth + 1)
        if base is None:
            return None
        base = list(base)
        # element stores NAME[k] = v that can reach the use
        cfg = fl.cfg
        f = fl.func if hasattr(fl, "func") else None
        for st in walk_local(ctxinfo["func"]):
            if isinstance(st, ast.Assign) and len(st.targets) == 1 and isinstance(st.targets[0], ast.Subscript) and isinstance(st.targets[0].value, ast.Name) and st.targets[0].value.id == e.id \
                    and isinstance(st.targets[0].slice, ast.Constant) and isinstance(st.targets[0].slice.value, int):
                sn = cfg.node_of(st)
                if cfg.reaches(sn, at) and cfg.reaches(defs[0].at, sn):
                    k = st.targets[0].slice.value
                    # the store's own right-hand side may read the old element
                    info2 = dict(ctxinfo)
                    info2["direct"] = dict(ctxinfo.get("direct", {}))
                    info2["direct"][f"{e.id}[{k}]"] = base[k]
                    base[k] = _term(fl, st.value, sn, info2, depth + 1)
        return base
    return None


def _fmt(t):
    if isinstance(t, tuple):
        return f"cap, else {_fmt(t[1])}"
    return {"E0": "the ensemble's left interface", "E1": "the ensemble's own (middle) interface", "E2": "the ensemble's last interface", "CAP": "the cap", None: "?"}.get(t, str(t))


def r105(ctx):
    rid = "R-10.5"
    tree = ctx.tree
    want = ("E1", ("CAP|", "E2"))
    sites = []
    # (a) calc_cv_vector -> compute_weight
    f = tree.func(TIS, "calc_cv_vector")
    fl = flow_of(f)
    L = next((n for n in f.body if isinstance(n, ast.For)), None)
    names = {}
    if L is not None and isinstance(L.target, ast.Tuple) and len(L.target.elts) == 2 and isinstance(L.target.elts[1], ast.Name):
        names[L.target.elts[1].id] = "E1"
    info = {"func": f, "names": dict(names, cap="CAP"), "direct": {"interfaces[0]": "E0", "interfaces[-1]": "E2"}}
    for c in [c for c in walk_local(f) if isinstance(c, ast.Call) and last_name(c) == "compute_weight" and len(c.args) >= 2]:
        lst = _symlist(fl, c.args[1], fl.cfg.node_of(c), info)
        sites.append(("calc_cv_vector (weights in the state matrix)", c, None if lst is None or len(lst) != 3 else (lst[1], lst[2]), None if lst is None or len(lst) != 3 else (lst[0], lst[2])))
    # (b) subt_acceptance -> compute_weight ; (c) wire_fencing -> scan
    for fname, callee, what in (("subt_acceptance", "compute_weight", "weight of the new path"), ("wire_fencing", WF, "segment selection")):
        g = tree.func(TIS, fname)
        gfl = flow_of(g)
        gps = [a.arg for a in g.args.args]
        ens = "ens_set" if "ens_set" in gps else None
        info = {"func": g, "ens": ens, "names": {}, "direct": {}}
        for c in [c for c in walk_local(g) if isinstance(c, ast.Call) and last_name(c) == callee]:
            at = gfl.cfg.node_of(c)
            if callee == "compute_weight":
                lst = _symlist(gfl, c.args[1], at, info) if len(c.args) >= 2 else None
                sites.append((f"{fname} ({what})", c, None if lst is None or len(lst) != 3 else (lst[1], lst[2]), None if lst is None or len(lst) != 3 else (lst[0], lst[2])))
            else:
                if len(c.args) < 3:
                    continue
                sites.append((f"{fname} ({what})", c, (_term(gfl, c.args[1], at, info), _term(gfl, c.args[2], at, info)), None))
    # (d) the zero swap: intf_w = [list(ens0 interfaces), list(ens1 interfaces)], cap stored into component 2 of
    #     every element in a loop, then handed to compute_weight / high_acc_swap (which forwards to compute_weight)
    rz = tree.func(TIS, "retis_swap_zero")
    rfl = flow_of(rz)
    wdefs = [n for n in walk_local(rz) if isinstance(n, ast.Assign) and len(n.targets) == 1 and isinstance(n.targets[0], ast.Name) and isinstance(n.value, (ast.List, ast.Tuple))
             and n.value.elts and all(isinstance(x, ast.Call) and last_name(x) in ("list", "tuple") and x.args and ast.unparse(x.args[0]).replace("'", '"').endswith('["interfaces"]') for x in n.value.elts)]
    if len(wdefs) == 1:
        W = wdefs[0].targets[0].id
        nel = len(wdefs[0].value.elts)
        stores = [n for n in walk_local(rz) if isinstance(n, ast.Assign) and len(n.targets) == 1 and isinstance(n.targets[0], ast.Subscript) and isinstance(n.targets[0].value, ast.Subscript)
                  and isinstance(n.targets[0].value.value, ast.Name) and n.targets[0].value.value.id == W]
        cap_ok = False
        why = "the cap is never stored into the interface triples"
        for st in stores:
            t = st.targets[0]
            k = t.slice.value if isinstance(t.slice, ast.Constant) else None
            idxv = ast.unparse(t.value.slice)
            v, _ = deref(rfl, st.value, rfl.cfg.node_of(st))
            isget = isinstance(v, ast.Call) and isinstance(v.func, ast.Attribute) and v.func.attr == "get" and len(v.args) == 2 and isinstance(v.args[0], ast.Constant) and v.args[0].value == "interface_cap"
            dflt = ast.unparse(v.args[1]).replace(" ", "") if isget else None
            loops = [l for l in loops_of(st) if isinstance(l, ast.For)] if "loops_of" in globals() else []
            if k == 2 and isget and dflt == f"{W}[{idxv}][2]":
                cap_ok = True
            else:
                why = f"`{short(st, 60)}` does not store `cap, else component 2` into component 2 of each triple"
        uses = [c for c in walk_local(rz) if isinstance(c, ast.Call) and last_name(c) in ("compute_weight", "high_acc_swap")]
        for c in uses:
            if cap_ok:
                ctx.ok(rid, c, f"retis_swap_zero: {last_name(c)} receives the ensembles' triples with component 2 = cap, else last interface")
            else:
                ctx.bad(rid, c, f"retis_swap_zero hands {last_name(c)} interface triples whose right bound is not `cap, else the ensemble's last interface` ({why}): the weights used by the zero swap describe another region than the weights in the state matrix", construct=f"retis_swap_zero: triples for {last_name(c)}")
        hs = tree.func(TIS, "high_acc_swap")
        hps = [a.arg for a in hs.args.args]
        fw = [c for c in walk_local(hs) if isinstance(c, ast.Call) and last_name(c) == "compute_weight" and len(c.args) >= 3]
        if fw and all(isinstance(c.args[1], ast.Name) and c.args[1].id in hps for c in fw):
            ctx.ok(rid, fw[0], "high_acc_swap forwards the triples it is given to compute_weight unchanged")
        elif fw:
            ctx.bad(rid, fw[0], "high_acc_swap does not forward the interface triples it is given to compute_weight", construct="high_acc_swap: triples")
    if len(sites) < 3:
        raise AnalysisError(f"R-10.5: only {len(sites)} of the three call chains into the wire-fencing scan were found")
    for name, c, lr, se in sites:
        if lr is None or lr[0] is None or lr[1] is None:
            raise AnalysisError(f"R-10.5: the interfaces handed on by {name} could not be resolved to the ensemble's interfaces (cannot decide)")
        if lr == want:
            ctx.ok(rid, c, f"{name}: left = the ensemble's own interface, right = cap, else its last interface")
        else:
            ctx.bad(rid, c, f"{name} counts / selects wire-fencing frames between `{_fmt(lr[0])}` and `{_fmt(lr[1])}`; the other sites use the ensemble's own interface and `cap, else the last interface`: the weight in the state matrix, the weight of the new path and the segment selection no longer describe the same set of frames", construct=f"{name.split(' ')[0]}: (left, right) of the wire-fencing region")
        if se is not None:
            if se == ("E0", ("CAP|", "E2")):
                ctx.ok(rid, c, f"{name}: start / end classified w.r.t. the ensemble's left interface and the cap")
            else:
                ctx.bad(rid, c, f"{name}: the doubling tests start / end w.r.t. `{_fmt(se[0])}` and `{_fmt(se[1])}` instead of the ensemble's left interface and the cap", construct=f"{name.split(' ')[0]}: outer pair")
    # move index = interface index + 1 in initiate_ensembles
    ie = tree.func(REPEX, "REPEX_state.initiate_ensembles")
    txt = ast.unparse(ie)
    n_pre = 0
    shift_ok = None
    for st in ie.body:
        if isinstance(st, ast.For) and isinstance(st.iter, ast.Subscript) and isinstance(st.iter.slice, ast.Slice) and isinstance(st.iter.slice.lower, ast.Constant) \
                and isinstance(st.iter.slice.lower.value, int) and st.iter.slice.step is None and isinstance(st.target, ast.Name) \
                and any(isinstance(x, (ast.List, ast.Tuple)) and len(x.elts) == 3 and isinstance(x.elts[1], ast.Name) and x.elts[1].id == st.target.id for x in ast.walk(st)):
            # for middle in intfs[k:-1]:  the t-th ensemble built here has the middle interface I[k + t]
            shift_ok = (n_pre, st.iter.slice.lower.value, st.iter)
            break
        if isinstance(st, ast.For) and isinstance(st.iter, ast.Call) and last_name(st.iter) == "range":
            for x in ast.walk(st):
                if isinstance(x, ast.Subscript) and isinstance(x.slice, ast.BinOp) and isinstance(x.slice.op, ast.Add) and isinstance(x.slice.right, ast.Constant) and isinstance(x.slice.left, ast.Name) and isinstance(st.target, ast.Name) and x.slice.left.id == st.target.id:
                    # ensemble number = n_pre + i ; its middle interface = intfs[i + k]
                    shift_ok = (n_pre, x.slice.right.value, x)
            break
        if isinstance(st, ast.Expr) and isinstance(st.value, ast.Call) and isinstance(st.value.func, ast.Attribute) and st.value.func.attr == "append":
            n_pre += 1
        if isinstance(st, ast.If):
            # both arms append one entry ([0-] with or without lambda_-1)
            arms = [sum(1 for y in arm if isinstance(y, ast.Expr) and isinstance(y.value, ast.Call) and isinstance(y.value.func, ast.Attribute) and y.value.func.attr == "append") for arm in (st.body, st.orelse)]
            if arms[0] == arms[1]:
                n_pre += arms[0]
    if shift_ok is None:
        raise AnalysisError("R-10.5: the loop that builds the [i+] ensembles in initiate_ensembles was not found")
    n_pre, k, node = shift_ok
    # ensemble j = n_pre + i has middle interface I[i + k]  =>  move index - interface index = n_pre - k
    if n_pre - k == 1:
        ctx.ok(rid, node, f"initiate_ensembles: ensemble j (move j) has the middle interface I[j - 1] (move index = interface index + 1), as calc_cv_vector assumes")
    else:
        ctx.bad(rid, node, f"initiate_ensembles gives ensemble j the middle interface I[j - ({n_pre - k})]; calc_cv_vector and check_config pair interface idx with move idx + 1", construct="ensemble / interface / move alignment")


def run(ctx):
    ctx.rule("R-10.6", "a path is weighted with the same configuration wherever its weight vector is computed: every call site of calc_cv_vector passes interfaces, moves, lambda_minus_one and cap from the same configuration keys (shared with C06 R-6.8)", floor=4)
    from .shared import callsite_config_agreement as _cca10
    ctx.attempt(_cca10, ctx, "R-10.6", "calc_cv_vector", ["interfaces", "moves", "lambda_minus_one", "cap"], " (the weights of loaded paths - state matrix, traj_data, data file - are counted over another region than wire_fencing / subt_acceptance / high_acc_swap use)")
    ctx.rule("R-10.1", "order parameters in the scan are touched only through order comparisons with left / right (exact region abstraction)", floor=1)
    ctx.rule("R-10.2", "the scan is the specified transducer: product of implementation (abstract interpretation of the loop) and specification explored to a fixpoint", floor=3)
    ctx.rule("R-10.3", "selection law: proportional pick with the ensemble's stream; segment = run plus bounding frames", floor=7)
    ctx.rule("R-10.4", "weight vector plumbing: [0-] 1-tuple, one entry per interface but the last, wf -> compute_weight, inclusive crossing, trailing 0; doubling under start != end", floor=10)
    ctx.rule("R-10.5", "weight, acceptance weight and segment selection use one (left, right): the ensemble's interface and cap-or-last; move index = interface index + 1", floor=6)
    got = ctx.attempt(r102, ctx, None)
    roles = None
    if got is not None:
        f, loop, path_p, listname = got
        roles = ctx.attempt(r103, ctx, f, loop, path_p, listname)
    if roles is not None:
        ctx.attempt(r102, ctx, roles)
    ctx.attempt(r104, ctx)
    ctx.attempt(r105, ctx)


_SCAN_OPEN_L = "        elif op2 >= left > op1 and not key_l:\n            isave, key_l = i, True"
_SCAN_OPEN_R = "        elif op2 < right <= op1 and not key_r:\n            isave, key_r = i, True"
_SCAN_RR = "        elif key_r and op2 >= right > op1:\n            key_l, key_r = False, False\n"
_SCAN_EMIT = "            path_arr.append((isave, i + 1, i - isave))"
_JUMP = "        if (op1 < left and op2 >= right) or (op2 < left and op1 >= right):\n            pass\n        elif op2 >= left > op1 and not key_l:"

VARIANTS = [
    B("c10-loaded-paths-weighted-without-the-cap", "infretis/classes/repex.py", "                cap=self.cap,\n            )\n            self.add_traj(\n                ens=i,", "            )\n            self.add_traj(\n                ens=i,", "R-10.6", control=True, why="seeded C10_l"),
    K("c10-keep-load-paths-arguments-hoisted", "infretis/classes/repex.py", "                lambda_minus_one=self.config[\"simulation\"][\"tis_set\"][\n                    \"lambda_minus_one\"\n                ],\n                cap=self.cap,\n            )\n            self.add_traj(\n                ens=i,", "                lambda_minus_one=lm1_,\n                cap=self.cap,\n            )\n            self.add_traj(\n                ens=i,", also=[("infretis/classes/repex.py", "        size = self.n - 1\n        # we add all the i+ paths.", "        size = self.n - 1\n        lm1_ = self.config[\"simulation\"][\"tis_set\"][\"lambda_minus_one\"]\n        # we add all the i+ paths.")], why="the configuration value held in a local"),
    B("c10-first-weight-entry-constant", "infretis/core/tis.py", "    for idx, intf_i in enumerate(interfaces[:-1]):\n        if moves[idx + 1] == \"wf\":", "    cv.append(1.0)\n    for idx, intf_i in enumerate(interfaces[1:-1], start=1):\n        if moves[idx + 1] == \"wf\":", "R-10.4", control=True, why="seeded C10_k"),
    B("c10-wf-triple-starts-at-lambda-minus-one", "infretis/core/tis.py", "    cv = []\n    if minus:\n        if lambda_minus_one is not False:\n            return (1.0 if lambda_minus_one <= path_max else 0.0,)\n        else:\n            return (1.0 if interfaces[0] <= path_max else 0.0,)\n", "    left = interfaces[0] if lambda_minus_one is False else lambda_minus_one\n\n    cv = []\n    if minus:\n        return (1.0 if left <= path_max else 0.0,)\n", "R-10.4", control=True, also=[("infretis/core/tis.py", "            intfs = [interfaces[0], intf_i, intf_cap]\n            cv.append(compute_weight(path, intfs, moves[idx + 1]))", "            intfs = [left, intf_i, intf_cap]\n            cv.append(compute_weight(path, intfs, moves[idx + 1]))")], why="seeded C10_j"),
    K("c10-keep-minus-boundary-computed-once", "infretis/core/tis.py", "    cv = []\n    if minus:\n        if lambda_minus_one is not False:\n            return (1.0 if lambda_minus_one <= path_max else 0.0,)\n        else:\n            return (1.0 if interfaces[0] <= path_max else 0.0,)\n", "    left = interfaces[0] if lambda_minus_one is False else lambda_minus_one\n\n    cv = []\n    if minus:\n        return (1.0 if left <= path_max else 0.0,)\n", why="the [0-] branch of seed C10_j alone is an equivalent rewrite"),
    B("c10-scan-reads-flattened-order-vectors", TIS, "    for i in range(len(path.phasepoints[:-1])):\n        op1 = path.phasepoints[i].order[0]\n        op2 = path.phasepoints[i + 1].order[0]\n", "    orders = np.ravel([pp.order for pp in path.phasepoints])\n    for i in range(len(path.phasepoints[:-1])):\n        op1, op2 = orders[i], orders[i + 1]\n", "R-10.1", control=True, why="seeded C10_h"),
    K("c10-keep-scan-reads-hoisted-first-components", TIS, "    for i in range(len(path.phasepoints[:-1])):\n        op1 = path.phasepoints[i].order[0]\n        op2 = path.phasepoints[i + 1].order[0]\n", "    orders = [pp.order[0] for pp in path.phasepoints]\n    for i in range(len(path.phasepoints[:-1])):\n        op1, op2 = orders[i], orders[i + 1]\n"),
    B("c10-selection-sums-span-not-count", TIS, "        for ipath in path_arr:\n            sum_frames += ipath[2]\n", "        for ipath in path_arr:\n            sum_frames += ipath[1] - ipath[0]\n", "R-10.3", control=True, why="seeded C10_g"),
    K("c10-keep-selection-sums-recomputed-count", TIS, "        for ipath in path_arr:\n            sum_frames += ipath[2]\n", "        for ipath in path_arr:\n            sum_frames += ipath[1] - ipath[0] - 1\n"),
    B("c10-selection-against-last-interface", TIS, "        trial_path, wf_int[0], wf_int[2], return_seg=True, ens_set=ens_set", "        trial_path, wf_int[0], ens_set[\"interfaces\"][2], return_seg=True, ens_set=ens_set", "R-10.5", why="seeded C10_f"),
    K("c10-keep-selection-interfaces-unpacked", TIS, "    wf_int = list([ens_set[\"interfaces\"][1]] * 2) + [intf_cap]\n", "    _lo, middle, _hi = ens_set[\"interfaces\"]\n    wf_int = [middle, middle, intf_cap]\n"),
    # R-10.2: the transducer
    B("c10-left-bound-strict", TIS, _SCAN_OPEN_L, "        elif op2 > left > op1 and not key_l:\n            isave, key_l = i, True", "R-10.2", control=True, why="a frame exactly on the left interface is inside"),
    B("c10-right-right-counted", TIS, _SCAN_RR, "", "R-10.2", control=True, why="right-right runs must be discarded"),
    B("c10-count-plus-one", TIS, _SCAN_EMIT, "            path_arr.append((isave, i + 1, i - isave + 1))", "R-10.2", control=True),
    B("c10-segment-one-frame-short", TIS, _SCAN_EMIT, "            path_arr.append((isave, i, i - isave))", "R-10.2"),
    B("c10-right-entry-inclusive", TIS, _SCAN_OPEN_R, "        elif op2 <= right <= op1 and not key_r:\n            isave, key_r = i, True", "R-10.2"),
    B("c10-stale-start-for-right-entry", TIS, _SCAN_OPEN_R, "        elif op2 < right <= op1 and not key_r:\n            key_r = True", "R-10.2"),
    B("c10-jump-not-skipped", TIS, _JUMP, "        if False:\n            pass\n        elif op2 >= left > op1 and not key_l:", "R-10.2"),
    B("c10-left-exit-strict", TIS, "            op2 < left <= op1 or op2 >= right > op1\n        ):", "            op2 < left < op1 or op2 >= right > op1\n        ):", "R-10.2"),
    B("c10-right-exit-needs-strict", TIS, "            op2 < left <= op1 or op2 >= right > op1\n        ):", "            op2 < left <= op1 or op2 > right > op1\n        ):", "R-10.2"),
    B("c10-segment-range-short", TIS, "                for j in range(ipath[0], ipath[1] + 1):", "                for j in range(ipath[0], ipath[1]):", "R-10.2", why="consumer side of the segment layout"),
    K("c10-keep-or-instead-of-in", TIS, "        elif True in (key_l, key_r) and (", "        elif (key_l or key_r) and ("),
    K("c10-keep-any", TIS, "        elif True in (key_l, key_r) and (", "        elif any((key_l, key_r)) and ("),
    K("c10-keep-flags-reset-separately", TIS, _SCAN_RR, "        elif key_r and op2 >= right > op1:\n            key_l = False\n            key_r = False\n"),
    K("c10-keep-comparisons-respelled", TIS, _SCAN_OPEN_L, "        elif not key_l and op1 < left and left <= op2:\n            key_l = True\n            isave = i"),
    K("c10-keep-segment-layout-shifted-on-both-sides", TIS, _SCAN_EMIT, "            path_arr.append((isave, i + 2, i - isave))", also=[(TIS, "                for j in range(ipath[0], ipath[1] + 1):", "                for j in range(ipath[0], ipath[1]):")]),
    K("c10-keep-range-bound-respelled", TIS, "    for i in range(len(path.phasepoints[:-1])):", "    for i in range(len(path.phasepoints) - 1):"),
    # R-10.1
    # R-10.3: the selection law
    B("c10-selection-test-inverted", TIS, "            if sum_frames / n_frames >= subpath_select:", "            if sum_frames / n_frames <= subpath_select:", "R-10.3", control=True),
    B("c10-selection-global-rng", TIS, '        subpath_select = ens_set["rgen"].random()', "        subpath_select = np.random.random()", "R-10.3"),
    B("c10-selection-sums-wrong-component", TIS, "            sum_frames += ipath[2]", "            sum_frames += ipath[1]", "R-10.3"),
    B("c10-selection-not-normalised", TIS, "            if sum_frames / n_frames >= subpath_select:", "            if sum_frames >= subpath_select:", "R-10.3"),
    K("c10-keep-selection-multiplied-out", TIS, "            if sum_frames / n_frames >= subpath_select:", "            if sum_frames >= subpath_select * n_frames:"),
    # R-10.4: the weight vector
    B("c10-move-index-unshifted", TIS, '        if moves[idx + 1] == "wf":', '        if moves[idx] == "wf":', "R-10.4", control=True),
    B("c10-crossing-strict", TIS, "            cv.append(1.0 if intf_i <= path_max else 0.0)", "            cv.append(1.0 if intf_i < path_max else 0.0)", "R-10.4"),
    B("c10-no-trailing-zero", TIS, "    cv.append(0.0)\n    return tuple(cv)", "    return tuple(cv)", "R-10.4"),
    B("c10-cap-by-truthiness", TIS, "            intf_cap = cap if cap is not None else interfaces[-1]", "            intf_cap = cap if cap else interfaces[-1]", "R-10.4"),
    B("c10-doubling-inverted", TIS, "    ) != path.get_end_point(interfaces[0], interfaces[2]):", "    ) == path.get_end_point(interfaces[0], interfaces[2]):", "R-10.4", control=True),
    B("c10-doubling-factor", TIS, "            weight *= 2\n", "            weight *= 3\n", "R-10.4"),
    B("c10-count-from-outer-left", TIS, "            path, interfaces[1], interfaces[2]\n        )\n        weight = 1.0 * wf_weight", "            path, interfaces[0], interfaces[2]\n        )\n        weight = 1.0 * wf_weight", "R-10.4"),
    B("c10-minus-lambda-by-truthiness", TIS, "        if lambda_minus_one is not False:\n            return (1.0 if lambda_minus_one <= path_max else 0.0,)", "        if lambda_minus_one:\n            return (1.0 if lambda_minus_one <= path_max else 0.0,)", "R-10.4"),
    K("c10-keep-move-in-a-local", TIS, '        if moves[idx + 1] == "wf":\n            intf_cap = cap if cap is not None else interfaces[-1]\n            intfs = [interfaces[0], intf_i, intf_cap]\n            cv.append(compute_weight(path, intfs, moves[idx + 1]))\n        else:\n            cv.append(1.0 if intf_i <= path_max else 0.0)', '        move = moves[idx + 1]\n        if move == "wf":\n            intf_cap = cap if cap is not None else interfaces[-1]\n            intfs = [interfaces[0], intf_i, intf_cap]\n            cv.append(compute_weight(path, intfs, move))\n        else:\n            cv.append(1.0 if path_max >= intf_i else 0.0)', why="form of the independent tis refactoring"),
    K("c10-keep-doubling-spelled-out", TIS, "            weight *= 2\n", "            weight = 2 * weight\n"),
    K("c10-keep-cap-default-inverted-ifexp", TIS, "            intf_cap = cap if cap is not None else interfaces[-1]", "            intf_cap = interfaces[-1] if cap is None else cap"),
    # R-10.5: one (left, right)
    B("c10-statematrix-weight-ignores-cap", TIS, "            intfs = [interfaces[0], intf_i, intf_cap]", "            intfs = [interfaces[0], intf_i, interfaces[-1]]", "R-10.5", control=True),
    B("c10-acceptance-weight-ignores-cap", TIS, '    if move == "wf":\n        intf[2] = ens_set["tis_set"].get("interface_cap", intf[2])\n', "", "R-10.5"),
    B("c10-selection-from-outer-left", TIS, "        trial_path, wf_int[0], wf_int[2], return_seg=True, ens_set=ens_set", '        trial_path, ens_set["interfaces"][0], wf_int[2], return_seg=True, ens_set=ens_set', "R-10.5"),
    B("c10-zero-swap-cap-into-wrong-component", TIS, '        intf_w[i][2] = mc_move.get("interface_cap", intf_w[i][2])', '        intf_w[i][1] = mc_move.get("interface_cap", intf_w[i][1])', "R-10.5"),
    B("c10-zero-swap-weights-ignore-cap", TIS, '    for i, mc_move in enumerate([ens_set0["tis_set"], ens_set1["tis_set"]]):\n        intf_w[i][2] = mc_move.get("interface_cap", intf_w[i][2])\n', '', "R-10.5"),
    K("c10-keep-selection-bounds-direct", TIS, "        trial_path, wf_int[0], wf_int[2], return_seg=True, ens_set=ens_set", '        trial_path, ens_set["interfaces"][1], intf_cap, return_seg=True, ens_set=ens_set'),
]
