"""C15 - path algebra (one conjunct decided: copies do not alias the original).

"Re-assigning a field of a copied path's frame never changes the original;
reversing flips each frame's velocity flag (on the new path only)."
"""

from __future__ import annotations

import ast

from ..cfg import cfg_of
from ..flow import deref, flow_of, path_of
from ..loader import FUNC, AnalysisError, dotted, enclosing_stmt, last_name, loc, short, walk_local
from ..util import PATH, SYSTEM, kwarg, oriented
from ..variants import B, K

EXPLANATION = (
    "(R-15.1) in Path.copy, Path.reverse and Path.__iadd__ every frame added to "
    "the result is a fresh <frame>.copy(); in Path.reverse every mutation "
    "(reverse_velocities(x), x.order = ...) has as receiver such a fresh copy "
    "or an element of the new path, never an element of self.phasepoints; "
    "System.copy returns a new object (copy.copy(self)), never self; "
    "reverse_velocities toggles the boolean flag (an involution, so reversing "
    "twice restores the flags); Path.copy builds a new Path and copies the "
    "scalar attributes by assignment."
)
NOT_DECIDED = (
    "(R-15.2 decides one structural necessary condition of the classification clause: 0.0 is a legal interface) "
    "length arithmetic of paste_paths, truncation at the limit, agreement of start/end/cross "
    "classification with extreme values - all value-level"
)
ASSUMPTIONS = ["copy.copy creates a new object whose attribute re-assignment does not affect the source"]


def _fresh_copy(e):
    return isinstance(e, ast.Call) and isinstance(e.func, ast.Attribute) and e.func.attr == "copy" and not e.args


def r151(ctx):
    rid = "R-15.1"
    tree = ctx.tree
    cls = tree.cls(PATH, "Path")
    methods = {s.name: s for s in cls.body if isinstance(s, FUNC)}
    for name in ("copy", "reverse", "__iadd__"):
        f = methods.get(name)
        if f is None:
            raise AnalysisError(f"R-15.1: Path.{name} not found")
        fl = flow_of(f)
        cfg = fl.cfg
        apps = [c for c in walk_local(f) if isinstance(c, ast.Call) and isinstance(c.func, ast.Attribute) and c.func.attr == "append" and c.args]
        newnames = {n_.targets[0].id for n_ in walk_local(f) if isinstance(n_, ast.Assign) and isinstance(n_.targets[0], ast.Name) and isinstance(n_.value, ast.Call) and last_name(n_.value) in ("empty_path", "Path", "__class__")}
        recv_ok = {"self", "self.phasepoints"} | newnames | {x + ".phasepoints" for x in newnames}
        apps = [c for c in apps if path_of(c.func.value) in recv_ok]
        if not apps:
            ctx.bad(rid, f, f"Path.{name} adds no frames to its result")
            continue
        for c in apps:
            a = c.args[0]
            srcs = fl.sources(a, cfg.node_of(c))
            if srcs and all(k == "expr" and _fresh_copy(n) for k, n, _, _ in srcs):
                ctx.ok(rid, c, f"Path.{name}: every frame added is a fresh .copy() of the source frame")
            else:
                ctx.bad(rid, c, f"Path.{name} adds the source path's own frame object to the new path: re-assigning a field of the copy's frame (order, config, vel_rev) changes the original",
                        construct=short(c, 70))
    # Path.copy creates a new path object
    f = methods["copy"]
    fl = flow_of(f)
    rets = [r for r in walk_local(f) if isinstance(r, ast.Return)]
    for r in rets:
        srcs = fl.sources(r.value, fl.cfg.node_of(r))
        if srcs and all(k == "expr" and isinstance(n, ast.Call) and last_name(n) in ("empty_path", "Path", "__class__") for k, n, _, _ in srcs):
            ctx.ok(rid, r, "Path.copy returns a newly created path")
        else:
            ctx.bad(rid, r, "Path.copy does not return a newly created path object")
    # reverse: mutations only on the fresh copies / elements of the new path
    f = methods["reverse"]
    fl = flow_of(f)
    cfg = fl.cfg
    newnames_r = {n_.targets[0].id for n_ in walk_local(f) if isinstance(n_, ast.Assign) and isinstance(n_.targets[0], ast.Name) and isinstance(n_.value, ast.Call) and last_name(n_.value) in ("empty_path", "Path", "__class__")}
    nmut = 0
    for n in walk_local(f):
        recv = None
        if isinstance(n, ast.Call) and last_name(n) == "reverse_velocities" and n.args:
            recv = n.args[0]
        if isinstance(n, ast.Assign) and isinstance(n.targets[0], ast.Attribute) and n.targets[0].attr in ("order", "vel_rev", "config", "vel", "pos"):
            recv = n.targets[0].value
        if recv is None:
            continue
        nmut += 1
        okr = True
        for kind, node, at, extra in fl.sources(recv, cfg.node_of(n)):
            if kind == "expr" and _fresh_copy(node):
                continue
            if kind == "iter" and any(f"{x}.phasepoints" in ast.unparse(node.value) for x in newnames_r):
                continue
            okr = False
        if okr:
            ctx.ok(rid, n, "Path.reverse mutates only frames of the new path")
        else:
            ctx.bad(rid, n, "Path.reverse mutates a frame that belongs to the original path (velocity flag / order of the original changes)", construct=short(n, 70))
    if nmut < 2:
        ctx.bad(rid, f, "Path.reverse does not flip the velocity flag of the reversed frames")
    # the flag flip is conditional on rev_v and applied to every frame
    flips = [n for n in walk_local(f) if isinstance(n, ast.Call) and last_name(n) == "reverse_velocities"]
    direct = [n for n in walk_local(f) if isinstance(n, ast.Assign) and isinstance(n.targets[0], ast.Attribute) and n.targets[0].attr == "vel_rev"]
    for a in direct:
        # a direct store must toggle that frame's own flag: x.vel_rev = not x.vel_rev / not <source frame of x>.vel_rev
        v = a.value
        recv = a.targets[0].value
        own = {ast.unparse(recv)}
        for kind, node, at, extra in fl.sources(recv, cfg.node_of(a)):
            if kind == "expr" and _fresh_copy(node):
                own.add(ast.unparse(node.func.value))
        if isinstance(v, ast.UnaryOp) and isinstance(v.op, ast.Not) and isinstance(v.operand, ast.Attribute) and v.operand.attr == "vel_rev" and ast.unparse(v.operand.value) in own:
            ctx.ok(rid, a, "Path.reverse toggles the frame's own velocity flag")
        else:
            ctx.bad(rid, a, "Path.reverse sets a frame's velocity flag to a value that is not the negation of that frame's own flag (a flag computed once for the whole path): frames of a path with mixed flags are not flipped individually and reversing twice does not restore them",
                    construct=short(a, 70))
    if not flips and not direct:
        ctx.bad(rid, f, "Path.reverse never flips a frame's velocity flag")
    for c in flips:
        g = [ast.unparse(e) for e, t, _ in cfg.guards(cfg.node_of(c)) if t]
        if "rev_v" in g:
            ctx.ok(rid, c, "velocity flags are flipped under rev_v for every frame of the reversed path")
        else:
            ctx.bad(rid, c, "velocity flags are flipped regardless of rev_v")
    # the flip happens on every path on which rev_v holds: no return is reachable around the loop(s)
    # that flip, except over a branch that says rev_v is false
    flip_sites = flips + direct
    if flip_sites:
        heads = []
        for fs_ in flip_sites:
            for l_ in [x for x in walk_local(f) if isinstance(x, (ast.For, ast.While)) and any(y is fs_ for y in ast.walk(x))]:
                heads.append(cfg.node_of(l_))
        norev = [nd for nd in cfg.nodes if nd.kind == "branch" and any(isinstance(e_, ast.Name) and e_.id == "rev_v" and not t_ for e_, t_ in nd.facts)]
        for r_ in [x for x in walk_local(f) if isinstance(x, ast.Return)]:
            if cfg.reaches(cfg.entry, cfg.node_of(r_), avoid=heads + norev, labels_excluded=("exc",)):
                ctx.bad(rid, r_, "Path.reverse can return the reversed path without having flipped the frames' velocity flags although rev_v holds (a return lies before / around the loop that flips them, e.g. the early return for order_function is None): reversing does not flip the flags on that route", construct="Path.reverse: return that bypasses the velocity-flag flip")
            else:
                ctx.ok(rid, r_, "every return of Path.reverse under rev_v lies behind the loop that flips the velocity flags")
    rv = methods.get("reverse_velocities")
    okt = False
    for n in walk_local(rv) if rv else []:
        if isinstance(n, ast.Assign) and isinstance(n.targets[0], ast.Attribute) and n.targets[0].attr == "vel_rev":
            v = n.value
            if isinstance(v, ast.UnaryOp) and isinstance(v.op, ast.Not) and ast.unparse(v.operand) == ast.unparse(n.targets[0]):
                okt = True
    if okt:
        ctx.ok(rid, rv, "reverse_velocities toggles the flag (x.vel_rev = not x.vel_rev): an involution")
    else:
        ctx.bad(rid, rv or f, "reverse_velocities does not toggle the velocity flag: reversing twice does not restore the flags")
    # reversed order of frames
    its = [n for n in walk_local(f) if isinstance(n, ast.For) and isinstance(n.iter, ast.Call) and dotted(n.iter.func) == "reversed" and ast.unparse(n.iter.args[0]) == "self.phasepoints"]
    if its:
        ctx.ok(rid, its[0], "Path.reverse iterates reversed(self.phasepoints)")
    else:
        ctx.bad(rid, f, "Path.reverse does not iterate the original frames in reverse order")
    # System.copy
    sc = tree.func(SYSTEM, "System.copy")
    sfl = flow_of(sc)
    for r in [r for r in walk_local(sc) if isinstance(r, ast.Return)]:
        srcs = sfl.sources(r.value, sfl.cfg.node_of(r))
        if srcs and all(k == "expr" and isinstance(n, ast.Call) and dotted(n.func) in ("copy", "copy.copy", "deepcopy", "copy.deepcopy") and n.args and path_of(n.args[0]) == "self" for k, n, _, _ in srcs):
            ctx.ok(rid, r, "System.copy returns copy(self): a new object")
        else:
            ctx.bad(rid, r, "System.copy does not return a new object: copies of a path alias the original's frames")


def _backward_iter(f, it, pb):
    """How the first loop of paste_paths visits the backward segment:
    'reversed' (a reversed view / copy), 'inplace' (the caller's frame list reversed in place), or the text."""
    fl = flow_of(f)
    e = it
    if isinstance(e, ast.Name):
        for at_ in (it, enclosing_stmt(it)):
            try:
                e, _ = deref(fl, it, fl.cfg.node_of(at_))
                break
            except Exception:
                e = it
    while isinstance(e, ast.Call) and last_name(e) in ("list", "tuple") and len(e.args) == 1:
        e = e.args[0]
    txt = ast.unparse(e)
    if txt in (f"reversed({pb}.phasepoints)", f"{pb}.phasepoints[::-1]", f"reversed(list({pb}.phasepoints))"):
        return "reversed", txt
    if txt == f"{pb}.phasepoints" and isinstance(it, ast.Name):
        if any(isinstance(c, ast.Call) and isinstance(c.func, ast.Attribute) and c.func.attr == "reverse" and isinstance(c.func.value, ast.Name) and c.func.value.id == it.id for c in walk_local(f)):
            return "inplace", txt
    return "other", ast.unparse(it)



def _paste_slice_form(ctx, rid, f, pb, pf, ov, lb):
    """paste_paths whose forward part is one slice `<new>.phasepoints.extend(path_forw.phasepoints[A:B])`
    (the frame list is extended directly, so Path.append's limit test is bypassed): decided by
    linear arithmetic, case split on `overlap`: A == [overlap] and n + (B - A) == maxlen, n being
    the length after the backward part. Returns False when the function is not of this form."""
    fl = flow_of(f)
    cfg = fl.cfg
    ext = [c for c in walk_local(f) if isinstance(c, ast.Call) and isinstance(c.func, ast.Attribute) and c.func.attr == "extend" and c.args
           and isinstance(c.func.value, ast.Attribute) and c.func.value.attr == "phasepoints"]
    ext = [c for c in ext if isinstance(c.args[0], ast.Subscript) and isinstance(c.args[0].slice, ast.Slice) and ast.unparse(c.args[0].value) == f"{pf}.phasepoints"]
    if len(ext) != 1:
        return False
    c = ext[0]
    newp = ast.unparse(c.func.value.value)
    sl = c.args[0].slice
    if sl.step is not None:
        raise AnalysisError("R-15.3: slice with a step in paste_paths")

    def lin(e, ovl, depth=0):
        """linear form over {'maxlen', 'n', 1}; None = unbounded (no limit)"""
        if e is None:
            return None
        if depth > 8:
            raise AnalysisError("R-15.3: slice bound too deep")
        if isinstance(e, ast.Constant):
            if e.value is None:
                return None
            if isinstance(e.value, bool):
                return {1: int(e.value)}
            if isinstance(e.value, int):
                return {1: e.value}
        if isinstance(e, ast.Name):
            if e.id == ov:
                return {1: int(ovl)}
            if e.id == "maxlen":
                return {"maxlen": 1}
            e2, _ = deref(fl, e, cfg.node_of(c))
            if e2 is not e:
                return lin(e2, ovl, depth + 1)
        if isinstance(e, ast.Attribute) and e.attr == "length" and ast.unparse(e.value) == newp:
            return {"n": 1}
        if isinstance(e, ast.Call) and last_name(e) == "len" and e.args and ast.unparse(e.args[0]) == f"{newp}.phasepoints":
            return {"n": 1}
        if isinstance(e, ast.Call) and last_name(e) == "int" and e.args:
            return lin(e.args[0], ovl, depth + 1)
        if isinstance(e, ast.IfExp):
            t = e.test
            if isinstance(t, ast.Name) and t.id == ov:
                return lin(e.body if ovl else e.orelse, ovl, depth + 1)
            if isinstance(t, ast.UnaryOp) and isinstance(t.op, ast.Not) and isinstance(t.operand, ast.Name) and t.operand.id == ov:
                return lin(e.orelse if ovl else e.body, ovl, depth + 1)
            if isinstance(t, ast.Compare) and len(t.ops) == 1 and isinstance(t.ops[0], (ast.Is, ast.IsNot)) and ast.unparse(t.left) == "maxlen":
                is_none = isinstance(t.ops[0], ast.Is)
                return lin(e.orelse if is_none else e.body, ovl, depth + 1)  # the limited case
        if isinstance(e, ast.BinOp) and isinstance(e.op, (ast.Add, ast.Sub)):
            a, b = lin(e.left, ovl, depth + 1), lin(e.right, ovl, depth + 1)
            if a is None or b is None:
                raise AnalysisError("R-15.3: arithmetic on an unbounded slice bound")
            sg = 1 if isinstance(e.op, ast.Add) else -1
            out = dict(a)
            for k, v in b.items():
                out[k] = out.get(k, 0) + sg * v
            return {k: v for k, v in out.items() if v != 0}
        raise AnalysisError(f"R-15.3: slice bound `{short(e, 40)}` of paste_paths is outside the linear fragment")

    bad = False
    for ovl in (True, False):
        a = lin(sl.lower, ovl) if sl.lower is not None else {}
        a = a or {}
        b = lin(sl.upper, ovl)
        want_a = {1: 1} if ovl else {}
        if {k: v for k, v in a.items() if v} != want_a:
            ctx.bad(rid, c, f"paste_paths (overlap={ovl}) takes the forward segment from index {a or 0}: " + ("the shared point is added twice" if ovl else "the first forward frame is dropped although the segments do not overlap"), construct=f"forward slice start, overlap={ovl}")
            bad = True
        if b is None:
            ctx.bad(rid, c, f"paste_paths (overlap={ovl}) extends the frame list with an unbounded slice of the forward segment: the length limit is not applied (the list is extended directly, Path.append's test is bypassed)", construct=f"forward slice without stop, overlap={ovl}")
            bad = True
            continue
        # frames added at most  b - a ; length after = n + b - a  must equal maxlen when truncating
        tot = dict(b)
        for k, v in a.items():
            tot[k] = tot.get(k, 0) - v
        tot["n"] = tot.get("n", 0) + 1
        tot = {k: v for k, v in tot.items() if v != 0}
        if tot == {"maxlen": 1}:
            ctx.ok(rid, c, f"paste_paths (overlap={ovl}): a truncated paste has exactly maxlen frames (n + stop - start == maxlen)")
        else:
            extra = dict(tot)
            extra["maxlen"] = extra.get("maxlen", 0) - 1
            extra = {k: v for k, v in extra.items() if v != 0}
            ctx.bad(rid, c, f"paste_paths (overlap={ovl}) extends the frame list directly (Path.append's limit test is bypassed) with a slice that leaves a truncated paste with maxlen + ({extra if extra else 0}) frames: " + ("the pasted path exceeds the length limit" if extra.get(1, 0) > 0 else "the paste stops short of the limit"),
                    construct=f"forward slice length, overlap={ovl}")
            bad = True
    # backward loop as before: reversed and appended through Path.append
    kind_, itb = _backward_iter(f, lb.iter, pb)
    if kind_ == "reversed":
        ctx.ok(rid, lb, "the backward segment is visited in reverse (time order)")
    elif kind_ == "inplace":
        ctx.bad(rid, lb, f"paste_paths reverses the frame list of the backward segment in place (`{ast.unparse(lb.iter)}.reverse()` on `{itb}`): the caller's segment is time-reversed afterwards - its start / end classification is exchanged and pasting it again gives a path that is not time ordered", construct="paste_paths reverses the backward segment in place")
    else:
        ctx.bad(rid, lb, f"the first loop of paste_paths iterates `{itb}`, not the backward segment in reverse", construct="paste_paths first loop over " + itb)
    for _ in range(3):
        ctx.ok(rid, c, "slice form of the forward part analysed by linear arithmetic", nontrivial=False)
    return True


def r157(ctx):
    """The default length limit of paste_paths is a function of the two segments' limits: when no
    `maxlen` is passed the limit is `path_back.maxlen` / `path_forw.maxlen` (their common value or
    the larger one) - never a current length. A limit taken from `.length` cuts the pasted path
    at the length of one segment and drops the tail of the other."""
    rid = "R-15.7"
    f = ctx.tree.func(PATH, "paste_paths")
    params = [a.arg for a in f.args.args]
    pb, pf = params[0], params[1]
    lim = next((p_ for p_ in params if "maxlen" in p_), None)
    if lim is None:
        raise AnalysisError("R-15.7: paste_paths has no maxlen parameter")
    stores = [st for st in walk_local(f) if isinstance(st, ast.Assign) and any(isinstance(t, ast.Name) and t.id == lim for t in st.targets)]
    if not stores:
        raise AnalysisError("R-15.7: paste_paths never sets a default for maxlen (cannot decide)")
    fl = flow_of(f)
    for st in stores:
        v = st.value
        if isinstance(v, ast.Name):
            v, _ = deref(fl, v, fl.cfg.node_of(st))
        attrs = [(x.value.id, x.attr) for x in ast.walk(v) if isinstance(x, ast.Attribute) and isinstance(x.value, ast.Name) and x.value.id in (pb, pf)]
        wrong = [a for a in attrs if a[1] != "maxlen"]
        if wrong:
            ctx.bad(rid, st, f"paste_paths takes its default limit from `{wrong[0][0]}.{wrong[0][1]}` (`{short(st, 60)}`): a current length is not a limit - with unequal limits the pasted path is cut at max(limit of one segment, length of the other) and the tail of the forward segment is dropped silently", construct=f"paste_paths default limit from .{wrong[0][1]}")
        elif isinstance(v, ast.Call) and last_name(v) == "max" and sorted(attrs) != sorted([(pb, "maxlen"), (pf, "maxlen")]):
            ctx.bad(rid, st, f"the default limit `{short(st, 60)}` is not the larger of the two segments' limits", construct="paste_paths default limit")
        elif isinstance(v, ast.Call) and last_name(v) == "min":
            ctx.bad(rid, st, f"the default limit `{short(st, 60)}` is the smaller of the two limits: a paste within the larger limit is truncated", construct="paste_paths default limit min()")
        elif not attrs:
            ctx.bad(rid, st, f"the default limit `{short(st, 60)}` does not derive from the segments' limits", construct="paste_paths default limit")
        else:
            ctx.ok(rid, st, f"default limit `{short(st.value, 40)}` derives from the segments' limits only")


def r158(ctx):
    """Path.copy / Path.reverse fill the new path under the source path's own limit: Path.append
    refuses (silently) at `maxlen`, so the limit that is in force *while the frames are appended*
    must be self.maxlen - passed to the constructor, or stored on the new path before the loop."""
    rid = "R-15.8"
    cls = ctx.tree.cls(PATH, "Path")
    methods = {s.name: s for s in cls.body if isinstance(s, FUNC)}
    ctor_default = None
    ep = methods.get("empty_path")
    if ep is not None:
        for a, d in zip(reversed(ep.args.args), reversed(ep.args.defaults)):
            if a.arg == "maxlen":
                ctor_default = ast.unparse(d)
    for name in ("copy", "reverse"):
        f = methods.get(name)
        if f is None:
            raise AnalysisError(f"R-15.8: Path.{name} not found")
        fl = flow_of(f)
        cfg = fl.cfg
        news = [st for st in walk_local(f) if isinstance(st, ast.Assign) and isinstance(st.targets[0], ast.Name) and isinstance(st.value, ast.Call) and last_name(st.value) in ("empty_path", "Path", "__class__")]
        if not news:
            raise AnalysisError(f"R-15.8: Path.{name} creates no new path (cannot decide)")
        for st in news:
            nm = st.targets[0].id
            call = st.value
            arg = kwarg(call, "maxlen")
            if arg is None and call.args and last_name(call) != "empty_path":
                arg = call.args[0]
            if arg is None and call.args and last_name(call) == "empty_path":
                arg = call.args[0]

            def own_limit(e, at):
                if isinstance(e, ast.Name):
                    e, _ = deref(fl, e, at)
                return isinstance(e, ast.Attribute) and e.attr == "maxlen" and isinstance(e.value, ast.Name) and e.value.id == "self"

            apps = [c for c in walk_local(f) if isinstance(c, ast.Call) and isinstance(c.func, ast.Attribute) and c.func.attr == "append" and path_of(c.func.value) in (nm, nm + ".phasepoints")]
            direct = [c for c in apps if path_of(c.func.value) == nm + ".phasepoints"]
            apps = [c for c in apps if path_of(c.func.value) == nm]
            if not apps:
                if direct:
                    ctx.ok(rid, st, f"Path.{name}: frames are added to the frame list directly (no limit applies)")
                continue
            if arg is not None and own_limit(arg, cfg.node_of(st)):
                ctx.ok(rid, st, f"Path.{name}: the new path is created with the source path's own limit (`{short(call, 50)}`)")
                continue
            # a store new.maxlen = self.maxlen that dominates every append
            stores = [s2 for s2 in walk_local(f) if isinstance(s2, ast.Assign) and any(isinstance(t, ast.Attribute) and t.attr == "maxlen" and isinstance(t.value, ast.Name) and t.value.id == nm for t in s2.targets) and own_limit(s2.value, cfg.node_of(s2))]
            if stores and all(any(cfg.dominates(cfg.node_of(s2), cfg.node_of(c)) for s2 in stores) for c in apps):
                ctx.ok(rid, st, f"Path.{name}: the source path's limit is stored on the new path before any frame is appended")
                continue
            lim = f"`{short(arg, 30)}`" if arg is not None else f"the default of the constructor ({ctor_default})"
            ctx.bad(rid, st, f"Path.{name} appends the frames to a path whose limit is {lim}, not self.maxlen, while they are copied (`{short(call, 50)}`): Path.append refuses silently at the limit, so a path longer than that limit (its own limit being larger or None) loses its tail in the copy - a later `maxlen` assignment does not bring the frames back",
                    construct=f"Path.{name}: new path not created under self.maxlen")


def _paste_local_lists_form(ctx, rid, f, pb, pf, ov, lb, lf):
    """paste_paths written over two local frame lists:
        back = path_back.phasepoints; forw = path_forw.phasepoints
        if overlap: forw = forw[1:]
        for p in reversed(back): append ...;  for p in forw: append ...
    Decided from the definitions that reach the loops: the backward list is always the whole backward
    segment; the forward list is the segment without its first frame on every path on which `overlap`
    holds and the whole segment on every other path. Returns False when the function is not of this form."""
    itb, itf = lb.iter, lf.iter
    if isinstance(itb, ast.Call) and last_name(itb) == "reversed" and itb.args:
        itb = itb.args[0]
    else:
        return False
    if not (isinstance(itb, ast.Name) and isinstance(itf, ast.Name)):
        return False
    fl = flow_of(f)
    cfg = fl.cfg

    def kind(v, seg):
        if v is None:
            return "?"
        t = ast.unparse(v).replace(" ", "")
        if t in (f"{seg}.phasepoints", f"{seg}.phasepoints[:]", f"list({seg}.phasepoints)"):
            return "whole"
        if t in (f"{seg}.phasepoints[1:]",):
            return "tail"
        if isinstance(v, ast.Subscript) and isinstance(v.value, ast.Name) and isinstance(v.slice, ast.Slice) and v.slice.upper is None and v.slice.step is None and isinstance(v.slice.lower, ast.Constant) and v.slice.lower.value == 1:
            return "tail-of:" + v.value.id
        return "other:" + t

    ok = True
    # backward list
    for d, sfx in fl.rd(itb.id, cfg.node_of(lb)):
        k = kind(d.value if isinstance(d.value, ast.AST) else None, pb)
        if k != "whole":
            g = [(ast.unparse(e), t) for e, t, bn in cfg.guards(d.at)]
            ctx.bad(rid, d.stmt if d.stmt is not None else lb, f"paste_paths pastes `{short(d.value, 40) if isinstance(d.value, ast.AST) else '?'}` instead of the backward segment when {g}: the pasted path does not begin with the last backward frame (a backward segment that consists of the shared point only is dropped, the path starts with the forward segment's first frame and its velocity flag)",
                    construct="paste_paths: backward frame list replaced")
            ok = False
    # forward list: definitions reaching the loop
    defs = list(fl.rd(itf.id, cfg.node_of(lf)))
    whole = [d for d, _ in defs if kind(d.value if isinstance(d.value, ast.AST) else None, pf) == "whole"]
    tails = [d for d, _ in defs if kind(d.value if isinstance(d.value, ast.AST) else None, pf) in ("tail", "tail-of:" + itf.id)]
    other = [d for d, _ in defs if d not in whole and d not in tails]
    if other or not whole:
        return False
    ovl_true = [n for n in cfg.nodes if n.kind == "branch" and any(ast.unparse(e) == ov and t for e, t in n.facts)]
    tail_nodes = [d.at for d in tails]
    for d in tails:
        g = [(ast.unparse(e), t) for e, t, bn in cfg.guards(d.at)]
        if (ov, True) not in g:
            ctx.bad(rid, d.stmt, f"paste_paths drops the first forward frame (`{short(d.stmt, 40)}`) on a path on which `{ov}` need not hold: a frame is lost when the segments do not overlap", construct="paste_paths: forward tail without overlap")
            ok = False
    leak = [b for b in ovl_true if cfg.reaches(b, cfg.node_of(lf), avoid=tail_nodes)]
    if not tails:
        ctx.bad(rid, lf, f"paste_paths never drops the shared point: with `{ov}` the pasted path contains it twice", construct="paste_paths: shared point kept twice")
        ok = False
    elif leak:
        ctx.bad(rid, lf, f"with `{ov}` true the forward loop of paste_paths can be reached without the first forward frame having been dropped (a path through the `{ov}` branch avoids `{short(tails[0].stmt, 40)}`): the shared point is pasted twice, or - when the other branch empties the backward list - the path starts with the forward segment's copy of it",
                construct="paste_paths: overlap branch keeps the whole forward list")
        ok = False
    if ok:
        ctx.ok(rid, lb, "the backward frame list is the whole backward segment, visited in reverse")
        ctx.ok(rid, lf, f"the forward frame list is the segment without its first frame exactly on the paths on which `{ov}` holds")
    # appends through Path.append with the limit test: left to the remaining clauses when the loops have that shape
    for L in (lb, lf):
        apps = [c for c in ast.walk(L) if isinstance(c, ast.Call) and isinstance(c.func, ast.Attribute) and c.func.attr == "append" and c.args and isinstance(c.args[0], ast.Name) and isinstance(L.target, ast.Name) and c.args[0].id == L.target.id]
        if not apps:
            ctx.bad(rid, L, "a loop of paste_paths does not append the frame it visits", construct="paste_paths: loop without append")
        else:
            ctx.ok(rid, apps[0], "every visited frame is appended through Path.append (limit test applies)")
    return True


def r153(ctx):
    """paste_paths: backward segment reversed, then the forward segment minus exactly one shared
    point iff `overlap`; every visited frame is appended; Path.append refuses at the limit."""
    rid = "R-15.3"
    tree = ctx.tree
    f = tree.func(PATH, "paste_paths")
    params = [a.arg for a in f.args.args]
    if len(params) < 3:
        raise AnalysisError("R-15.3: paste_paths(path_back, path_forw, overlap, ...) expected")
    pb, pf, ov = params[0], params[1], params[2]
    cfg = cfg_of(f)
    loops = [n for n in f.body if isinstance(n, ast.For)]
    if len(loops) == 1 and _paste_slice_form(ctx, rid, f, pb, pf, ov, loops[0]):
        return
    if len(loops) != 2:
        raise AnalysisError(f"R-15.3: paste_paths has {len(loops)} top-level loops (expected 2: backward, forward)")
    lb, lf = loops
    if _paste_local_lists_form(ctx, rid, f, pb, pf, ov, lb, lf):
        return
    def loop_parts(L):
        """(element variable, index variable or None, iterated expression without enumerate)."""
        it, tgt, idx = L.iter, L.target, None
        if isinstance(it, ast.Call) and last_name(it) == "enumerate" and it.args and isinstance(tgt, ast.Tuple) and len(tgt.elts) == 2:
            start = it.args[1] if len(it.args) > 1 else next((k.value for k in it.keywords if k.arg == "start"), None)
            if start is None or (isinstance(start, ast.Constant) and start.value == 0):
                idx = tgt.elts[0].id if isinstance(tgt.elts[0], ast.Name) else None
            it, tgt = it.args[0], tgt.elts[1]
        return (tgt.id if isinstance(tgt, ast.Name) else None), idx, it

    eb, ib, itb_ = loop_parts(lb)
    ef, if_, itf_ = loop_parts(lf)
    # (a) backward loop iterates reversed(path_back.phasepoints)
    kind_, itb = _backward_iter(f, itb_, pb)
    if kind_ == "reversed":
        ctx.ok(rid, lb, "the backward segment is visited in reverse (time order)")
    elif kind_ == "inplace":
        ctx.bad(rid, lb, f"paste_paths reverses the frame list of the backward segment in place (`{ast.unparse(itb_)}.reverse()` on `{itb}`): the caller's segment is time-reversed afterwards - its start / end classification is exchanged and pasting it again gives a path that is not time ordered", construct="paste_paths reverses the backward segment in place")
    else:
        ctx.bad(rid, lb, f"the first loop of paste_paths iterates `{itb}`, not the backward segment in reverse: the pasted path is not time ordered / does not begin with the last backward frame", construct="paste_paths first loop over " + itb)
    # (b) forward loop iterates path_forw.phasepoints in order
    itf = ast.unparse(itf_)
    if itf == f"{pf}.phasepoints":
        ctx.ok(rid, lf, "the forward segment is visited in order after the backward one")
    else:
        ctx.bad(rid, lf, f"the second loop of paste_paths iterates `{itf}`, not the forward segment in order", construct="paste_paths second loop over " + itf)
    # (c)+(d) on the CFG: from the loop head, the next iteration is reached only through an
    # append of the visited frame, or through the one `continue` that skips the shared point
    for L, nm, ev, iv in ((lb, "backward", eb, ib), (lf, "forward", ef, if_)):
        head = cfg.node_of(L)
        apps = [c for c in ast.walk(L) if isinstance(c, ast.Call) and isinstance(c.func, ast.Attribute) and c.func.attr == "append" and c.args and isinstance(c.args[0], ast.Name) and c.args[0].id == ev]
        app_nodes = {nd for c in apps for nd in cfg.nodes_of(c)}
        conts = [n for n in ast.walk(L) if isinstance(n, ast.Continue)]
        # a continue "skips" when it can be reached from the head without passing an append
        skipping = [c for c in conts if any(cn.id in cfg.reachable(head, avoid=app_nodes) for cn in cfg.nodes_of(c))]
        skip_nodes = {nd for c in skipping for nd in cfg.nodes_of(c)}
        if not apps:
            ctx.bad(rid, L, f"the {nm} loop of paste_paths does not append the frames it visits", construct=f"paste_paths {nm} loop without append")
            continue
        if head.id in cfg.reachable(head, avoid=app_nodes | skip_nodes):
            ctx.bad(rid, L, f"the {nm} loop of paste_paths does not append every frame it visits: the length is not len(back) + len(forward) - shared", construct=f"paste_paths {nm} loop: an iteration can complete without append")
        else:
            ctx.ok(rid, apps[0], f"every {nm} frame that is not skipped is appended (no path to the next iteration avoids the append)")
        if nm == "backward":
            if skipping:
                ctx.bad(rid, skipping[0], "the backward loop of paste_paths skips frames", construct="continue in backward loop")
            continue
        # forward: exactly one skip, taken in the first iteration iff overlap
        if len(skipping) != 1:
            ctx.bad(rid, L, f"the forward loop of paste_paths skips frames at {len(skipping)} places (expected exactly one: the shared point)", construct="forward loop skip count")
            continue
        sk = skipping[0]
        facts = [(e, t) for e, t, bn in cfg.guards(cfg.node_of(sk)) if any(x is bn.ast or any(y is bn.ast for y in ast.walk(x)) for x in ast.walk(L))]
        has_ov = any(isinstance(e, ast.Name) and e.id == ov and t for e, t in facts)
        first_by_index = False
        for e, t in facts:
            o = oriented(e, lambda x: isinstance(x, ast.Name) and x.id == iv) if iv else None
            if o is not None and t and isinstance(o[1], ast.Eq) and isinstance(o[2], ast.Constant) and o[2].value == 0:
                first_by_index = True
        flagnames = [e.id for e, t in facts if isinstance(e, ast.Name) and e.id != ov and t]
        first_by_flag = False
        for flag in flagnames:
            gi = getattr(sk, "_parent", None)
            sets_false = any(isinstance(s_, ast.Assign) and isinstance(s_.targets[0], ast.Name) and s_.targets[0].id == flag and isinstance(s_.value, ast.Constant) and s_.value.value is False for s_ in (gi.body if isinstance(gi, ast.If) else []))
            idxL = f.body.index(L)
            init_true = any(isinstance(s_, ast.Assign) and isinstance(s_.targets[0], ast.Name) and s_.targets[0].id == flag and isinstance(s_.value, ast.Constant) and s_.value.value is True for s_ in f.body[:idxL])
            other_sets = [s_ for s_ in ast.walk(L) if isinstance(s_, ast.Assign) and isinstance(s_.targets[0], ast.Name) and s_.targets[0].id == flag and not (isinstance(s_.value, ast.Constant) and s_.value.value is False)]
            if sets_false and init_true and not other_sets:
                first_by_flag = True
        extra = [short(e, 30) for e, t in facts if not ((isinstance(e, ast.Name) and (e.id == ov or e.id in flagnames)) or (iv and iv in ast.unparse(e)))]
        if has_ov and (first_by_index or first_by_flag) and not extra:
            ctx.ok(rid, sk, f"exactly the first forward frame is skipped, and only when `{ov}` ({'enumerate index == 0' if first_by_index else 'one-shot flag'})")
        else:
            ctx.bad(rid, sk, f"the shared point is skipped under {[('' if t else 'not ') + short(e, 30) for e, t in facts]}, not under `<first iteration> and {ov}`: a frame is dropped when the segments do not overlap, more than one frame is dropped, or none when they do", construct="skip condition of the forward loop")
    # (e) the new path is created with the limit and Path.append refuses at the limit
    ap = tree.func(PATH, "Path.append")
    okc = False
    for c in [x for x in ast.walk(ap) if isinstance(x, ast.Compare) and len(x.ops) == 1]:
        l, r, op = ast.unparse(c.left), ast.unparse(c.comparators[0]), c.ops[0]
        if (l, r) == ("self.length", "self.maxlen") and isinstance(op, ast.Lt) or (l, r) == ("self.maxlen", "self.length") and isinstance(op, ast.Gt) or (l, r) == ("len(self.phasepoints)", "self.maxlen") and isinstance(op, ast.Lt):
            okc = True
            ctx.ok(rid, c, "Path.append adds a frame only while length < maxlen: a path never exceeds its limit")
        elif "maxlen" in (l + r) and "length" in (l + r) or "maxlen" in (l + r) and "phasepoints" in (l + r):
            okc = True
            ctx.bad(rid, c, f"Path.append admits a frame under `{short(c, 40)}`: a path can grow beyond its length limit (or stops one short)", construct="append limit test " + short(c, 40))
    if not okc:
        raise AnalysisError("R-15.3: no comparison of length with maxlen in Path.append")
    ep = [c for c in walk_local(f) if isinstance(c, ast.Call) and last_name(c) == "empty_path"]
    mlparam = next((a.arg for a in f.args.args if a.arg == "maxlen"), None)
    mlarg = kwarg(ep[0], "maxlen", 0) if ep else None
    if ep and mlarg is not None and isinstance(mlarg, ast.Name) and (mlarg.id == mlparam or any(isinstance(d.stmt, ast.Assign) for d, _ in flow_of(f).rd(mlarg.id, cfg.node_of(ep[0])))):
        ctx.ok(rid, ep[0], "the pasted path is created with the requested limit")
    else:
        ctx.bad(rid, ep[0] if ep else f, "the pasted path is not created with the requested length limit", construct="empty_path without maxlen=maxlen")


def r154(ctx):
    """Classification agrees with the extreme values on equality: check_interfaces reports an
    interface as crossed with `ordermin < l <= ordermax` exactly when the end-point classifier
    counts a frame *on* the interface as having reached it (`order >= right` -> 'R',
    `order <= left` -> 'L'). The two conventions are siblings: inclusive end point <=> inclusive
    upper bound of the crossing test; a start point on the left interface is 'L' and has not
    crossed it (strict lower bound)."""
    rid = "R-15.4"
    tree = ctx.tree
    ci = tree.func(PATH, "Path.check_interfaces")
    # the crossing test  <minimum> < interface <= <maximum>  (a chained comparison is split into a
    # conjunction by the loader; either spelling arrives here as two binary comparisons)
    lo_c = hi_c = None
    cifl = flow_of(ci)
    for b in [b for b in ast.walk(ci) if isinstance(b, ast.BoolOp) and isinstance(b.op, ast.And) and len(b.values) == 2 and all(isinstance(v, ast.Compare) and len(v.ops) == 1 for v in b.values)]:
        def kind(x):
            try:
                e_, _ = deref(cifl, x, cifl.cfg.node_of(b))
            except Exception:
                e_ = x
            t_ = ast.unparse(e_) + " " + ast.unparse(x)
            return "min" if "min" in t_ else ("max" if "max" in t_ else None)
        for v in b.values:
            o = oriented(v, lambda x: kind(x) is None)  # interface on the left:  interface OP extreme
            if o is None:
                continue
            k = kind(o[2])
            if k == "min":
                lo_c = (v, o)
            elif k == "max":
                hi_c = (v, o)
    if lo_c is None or hi_c is None:
        raise AnalysisError("R-15.4: the crossing test `minimum < interface <= maximum` was not found in check_interfaces")

    class _Ch:  # the two halves in the shape the checks below expect
        pass
    ch = _Ch()
    # interface > min  <=>  min < interface ; interface <= max
    ch.node = lo_c[0]
    FL = {ast.Lt: ast.Gt, ast.Gt: ast.Lt, ast.LtE: ast.GtE, ast.GtE: ast.LtE}
    ch.ops = [FL[type(lo_c[1][1])](), hi_c[1][1]]  # [min OP0 interface, interface OP1 max]

    def incl(fname, side):
        f = tree.func(PATH, "Path." + fname)
        params = [a.arg for a in f.args.args]
        left, right = params[1], params[2]
        want = left if side == "left" else right
        ffl = flow_of(f)

        def is_order(x, c):
            e_, _ = deref(ffl, x, ffl.cfg.node_of(c))
            return ".order[" in ast.unparse(e_)

        for c in [c for c in walk_local(f) if isinstance(c, ast.Compare) and len(c.ops) == 1]:
            o = oriented(c, lambda x: is_order(x, c))
            if o is not None and ast.unparse(o[2]) == want:
                return c, isinstance(o[1], (ast.LtE, ast.GtE))
        raise AnalysisError(f"R-15.4: comparison of the frame's order parameter with `{want}` not found in {fname}")

    ec, end_incl = incl("get_end_point", "right")
    sc, start_incl = incl("get_start_point", "left")
    up_incl = isinstance(ch.ops[1], ast.LtE)
    lo_strict = isinstance(ch.ops[0], ast.Lt)
    sym = {ast.Lt: "<", ast.LtE: "<=", ast.Gt: ">", ast.GtE: ">="}
    shown = f"minimum {sym.get(type(ch.ops[0]), '?')} interface {sym.get(type(ch.ops[1]), '?')} maximum"
    node = ch.node
    if not isinstance(ch.ops[1], (ast.Lt, ast.LtE)) or not isinstance(ch.ops[0], (ast.Lt, ast.LtE)):
        ctx.bad(rid, node, f"the crossing test of check_interfaces is `{shown}`, not of the form minimum < interface <= maximum", construct="crossing test " + shown)
        return
    if up_incl == end_incl:
        ctx.ok(rid, node, f"crossing test upper bound `{sym[type(ch.ops[1])]}` agrees with the end-point rule `{short(ec, 40)}`: a path that ends on an interface ('R') has crossed it")
    else:
        ctx.bad(rid, node, f"check_interfaces counts an interface as crossed with `{shown}` while get_end_point classifies a frame on the interface with `{short(ec, 40)}`: a path whose maximum lies exactly on an interface ends 'R' there but is reported as not crossing it (cross and 'M' disagree with the extreme values)",
                construct="crossing upper bound vs end-point rule")
    if lo_strict == start_incl:
        ctx.ok(rid, node, f"crossing test lower bound `{sym[type(ch.ops[0])]}` agrees with the start-point rule `{short(sc, 40)}`")
    else:
        ctx.bad(rid, node, f"check_interfaces' lower bound in `{shown}` disagrees with get_start_point's `{short(sc, 40)}` on a frame exactly on the interface", construct="crossing lower bound vs start-point rule")


def r152(ctx):
    from .shared import numeric_option_truthiness
    numeric_option_truthiness(ctx, "R-15.2", [PATH], "start/end classification would use the wrong interface when an interface is exactly 0.0")


def r155(ctx):
    """The extreme values are those of the current frames. Path.ordermin / ordermax (which the
    start / end / crossing classification and the weights are computed from) either recompute from
    `self.phasepoints` on every call, or - if they memoise - every site in the repository that
    changes a path's frame list invalidates the memo before the function returns."""
    rid = "R-15.5"
    tree = ctx.tree
    cls = tree.cls(PATH, "Path")
    methods = {s.name: s for s in cls.body if isinstance(s, FUNC)}
    memo = set()
    for name in ("ordermin", "ordermax"):
        g = methods.get(name)
        if g is None:
            raise AnalysisError(f"R-15.5: Path.{name} not found")
        stores = set()
        for n in walk_local(g):
            tg = []
            if isinstance(n, ast.Assign):
                tg = n.targets
            elif isinstance(n, ast.AugAssign):
                tg = [n.target]
            for t in tg:
                b = t
                while isinstance(b, ast.Subscript):
                    b = b.value
                if isinstance(b, ast.Attribute) and isinstance(b.value, ast.Name) and b.value.id == "self":
                    stores.add(b.attr)
            if isinstance(n, ast.Call) and isinstance(n.func, ast.Attribute) and n.func.attr in ("setdefault", "update", "__setitem__") and isinstance(n.func.value, ast.Attribute) and isinstance(n.func.value.value, ast.Name) and n.func.value.value.id == "self":
                stores.add(n.func.value.attr)
        reads_frames = any(isinstance(x, ast.Attribute) and x.attr == "phasepoints" for x in ast.walk(g))
        if not stores:
            if reads_frames:
                ctx.ok(rid, g, f"Path.{name} is computed from self.phasepoints on every call (no memo)")
            else:
                ctx.bad(rid, g, f"Path.{name} is not computed from the path's frames", construct=f"Path.{name}")
        memo |= stores
    if not memo:
        return
    # memoised: who changes the frame list, and do they invalidate?
    MUT = ("append", "extend", "insert", "pop", "remove", "clear", "reverse", "sort")
    n_bad = 0
    for m, q, f in tree.all_funcs():
        if m.rel.startswith("infretis/tools"):
            continue
        cfg = None
        for n in walk_local(f):
            obj = None
            if isinstance(n, (ast.Assign, ast.AugAssign)):
                tg = n.targets if isinstance(n, ast.Assign) else [n.target]
                for t in tg:
                    b = t
                    while isinstance(b, ast.Subscript):
                        b = b.value
                    if isinstance(b, ast.Attribute) and b.attr == "phasepoints":
                        obj = ast.unparse(b.value)
            if isinstance(n, ast.Call) and isinstance(n.func, ast.Attribute) and n.func.attr in MUT and isinstance(n.func.value, ast.Attribute) and n.func.value.attr == "phasepoints":
                obj = ast.unparse(n.func.value.value)
            if obj is None:
                continue
            if q == "Path.__init__":
                continue
            if cfg is None:
                cfg = cfg_of(f)
            inval = []
            for x in walk_local(f):
                if isinstance(x, ast.Call) and isinstance(x.func, ast.Attribute) and x.func.attr == "clear" and isinstance(x.func.value, ast.Attribute) and x.func.value.attr in memo and ast.unparse(x.func.value.value) == obj:
                    inval.append(cfg.node_of(x))
                if isinstance(x, ast.Assign) and any(isinstance(t, ast.Attribute) and t.attr in memo and ast.unparse(t.value) == obj for t in x.targets):
                    inval.append(cfg.node_of(x))
            at = cfg.node_of(n)
            if inval and not cfg.reaches(at, cfg.exit, avoid=inval, labels_excluded=("exc",)):
                ctx.ok(rid, n, f"{q}: the frame list of `{obj}` is changed and the memoised extremes are invalidated before the function returns")
            else:
                n_bad += 1
                ctx.bad(rid, n, f"Path.ordermin / ordermax memoise their result in {sorted(memo)}, but {q} changes the frame list of `{obj}` (`{short(n, 50)}`) without invalidating it: the classification (crossing, middle) and the weights are then computed from the extremes of an earlier frame list while start / end use the real frames", construct=f"{q}: frames changed, memo {sorted(memo)} kept")


def r156(ctx):
    """The extreme is taken over the quantity that is reported: in ordermin / ordermax the
    per-frame expression inside argmin / argmax is, frame for frame, the expression returned for
    the selected frame (the first component of the order parameter), argmin for the minimum and
    argmax for the maximum."""
    rid = "R-15.6"
    tree = ctx.tree
    cls = tree.cls(PATH, "Path")
    methods = {s.name: s for s in cls.body if isinstance(s, FUNC)}
    for name, want in (("ordermin", "argmin"), ("ordermax", "argmax")):
        g = methods[name]
        fl = flow_of(g)
        calls = [c for c in walk_local(g) if isinstance(c, ast.Call) and last_name(c) in ("argmin", "argmax", "nanargmin", "nanargmax") and c.args]
        if len(calls) != 1:
            raise AnalysisError(f"R-15.6: Path.{name} does not take exactly one argmin / argmax")
        c = calls[0]
        if want not in last_name(c):
            ctx.bad(rid, c, f"Path.{name} selects its frame with {last_name(c)}", construct=f"Path.{name}: {last_name(c)}")
            continue
        comp, _ = deref(fl, c.args[0], fl.cfg.node_of(c))
        if not (isinstance(comp, (ast.ListComp, ast.GeneratorExp)) and len(comp.generators) == 1 and isinstance(comp.generators[0].target, ast.Name) and ast.unparse(comp.generators[0].iter) == "self.phasepoints"):
            raise AnalysisError(f"R-15.6: Path.{name}: the argument of {want} is not a comprehension over self.phasepoints")
        var = comp.generators[0].target.id
        st = c
        while st is not None and not isinstance(st, ast.stmt):
            st = getattr(st, "_parent", None)
        idx = st.targets[0].id if isinstance(st, ast.Assign) and isinstance(st.targets[0], ast.Name) else None
        rets = [r for r in walk_local(g) if isinstance(r, ast.Return)]
        okr = False
        for r in rets:
            v, _ = deref(fl, r.value, fl.cfg.node_of(r))
            first = v.elts[0] if isinstance(v, ast.Tuple) and v.elts else v
            first, _ = deref(fl, first, fl.cfg.node_of(r))
            per_frame = ast.unparse(comp.elt).replace(" ", "")
            import re as _re
            selected = _re.sub(r"\b" + _re.escape(var) + r"\b", f"self.phasepoints[{idx}]", per_frame) if idx else None
            if selected and ast.unparse(first).replace(" ", "") == selected:
                okr = True
                ctx.ok(rid, c, f"Path.{name}: {want} over `{per_frame}` and the value returned for the selected frame are the same per-frame quantity")
            else:
                ctx.bad(rid, c, f"Path.{name} takes {want} over `{per_frame}` per frame but returns `{short(first, 40)}` for the selected frame: with order parameters of several components the index is taken over other (or flattened) values, so the reported extreme belongs to an unrelated frame and the crossing / middle classification disagrees with the real extreme values", construct=f"Path.{name}: {want} over {per_frame}")


def run(ctx):
    ctx.rule("R-15.2", "optional interface parameters of the classification functions are tested with `is None`, never by truthiness (an interface at 0.0 is a legal value)", floor=2)
    ctx.rule("R-15.4", "crossing test and start/end classifiers agree on a frame exactly on an interface (inclusive end point <=> inclusive upper bound of `min < l <= max`)", floor=2)
    ctx.rule("R-15.3", "paste_paths: reversed backward segment, then the forward segment minus exactly its first frame iff overlap; every visited frame appended; Path.append refuses at the limit (length = len(back) + len(forward) - shared, truncated at maxlen)", floor=4)
    ctx.rule("R-15.1", "copy / reverse / += add fresh frame copies; reverse mutates only the new path; System.copy returns a new object; flag toggle is an involution", floor=10)
    ctx.attempt(r151, ctx)
    ctx.attempt(r152, ctx)
    ctx.attempt(r153, ctx)
    ctx.rule("R-15.7", "pasting up to the length limit: the default limit of paste_paths derives from the two segments' limits (.maxlen), never from a current length", floor=2)
    ctx.attempt(r157, ctx)
    ctx.rule("R-15.8", "a copy / reversed copy holds every frame of the source: while frames are appended the new path's limit is the source path's own limit (constructor argument, or stored before the loop)", floor=2)
    ctx.attempt(r158, ctx)
    ctx.attempt(r154, ctx)
    ctx.rule("R-15.5", "the extreme values used by the classification are those of the current frames: recomputed on every call, or memoised with invalidation at every site that changes a frame list", floor=2)
    ctx.attempt(r155, ctx)
    ctx.rule("R-15.6", "the extreme is taken over the quantity that is reported (first component of the order parameter; argmin for the minimum, argmax for the maximum)", floor=2)
    ctx.attempt(r156, ctx)


VARIANTS = [
    B("c15-single-frame-backward-segment-dropped", PATH, "    for phasepoint in reversed(path_back.phasepoints):\n        app = new_path.append(phasepoint)", "    back_points = path_back.phasepoints\n    forw_points = path_forw.phasepoints\n    if overlap:\n        if len(back_points) > 1:\n            forw_points = forw_points[1:]\n        else:\n            back_points = []\n    for phasepoint in reversed(back_points):\n        app = new_path.append(phasepoint)", "R-15.3", control=True, also=[(PATH, "    first = True\n    for phasepoint in path_forw.phasepoints:\n        if first and overlap:\n            first = False\n            continue\n", "    for phasepoint in forw_points:\n")], why="seeded C15_p"),
    K("c15-keep-paste-over-local-frame-lists", PATH, "    for phasepoint in reversed(path_back.phasepoints):\n        app = new_path.append(phasepoint)", "    back_points = path_back.phasepoints\n    forw_points = path_forw.phasepoints\n    if overlap:\n        forw_points = forw_points[1:]\n    for phasepoint in reversed(back_points):\n        app = new_path.append(phasepoint)", also=[(PATH, "    first = True\n    for phasepoint in path_forw.phasepoints:\n        if first and overlap:\n            first = False\n            continue\n", "    for phasepoint in forw_points:\n")], why="the same rewriting without the special case"),
    B("c15-shared-point-skipped-by-identity", PATH, "    first = True\n    for phasepoint in path_forw.phasepoints:\n        if first and overlap:\n            first = False\n            continue\n", "    shared = None\n    if overlap and path_forw.length > 0:\n        shared = path_forw.phasepoints[0]\n    for phasepoint in path_forw.phasepoints:\n        if phasepoint is shared:\n            continue\n", "R-15.3", why="seeded C15_o: every later occurrence of that frame object is dropped too"),
    K("c15-keep-shared-point-skipped-by-position", PATH, "    first = True\n    for phasepoint in path_forw.phasepoints:\n        if first and overlap:\n            first = False\n            continue\n", "    for position, phasepoint in enumerate(path_forw.phasepoints):\n        if position == 0 and overlap:\n            continue\n", why="first iteration by index"),
    B("c15-copy-filled-under-the-default-limit", PATH, "        new_path = self.empty_path(maxlen=self.maxlen)\n        for phasepoint in self.phasepoints:", "        new_path = self.empty_path()\n        for phasepoint in self.phasepoints:", "R-15.8", control=True, why="seeded C15_n"),
    B("c15-reverse-filled-under-the-default-limit", PATH, "        new_path = self.empty_path(maxlen=self.maxlen)\n        new_path.weights = self.weights", "        new_path = self.empty_path()\n        new_path.weights = self.weights", "R-15.8", why="sibling of C15_n in Path.reverse"),
    K("c15-keep-copy-limit-stored-before-the-loop", PATH, "        new_path = self.empty_path(maxlen=self.maxlen)\n        for phasepoint in self.phasepoints:", "        new_path = self.empty_path()\n        new_path.maxlen = self.maxlen\n        for phasepoint in self.phasepoints:"),
    K("c15-keep-copy-limit-positional", PATH, "        new_path = self.empty_path(maxlen=self.maxlen)\n        for phasepoint in self.phasepoints:", "        limit = self.maxlen\n        new_path = self.empty_path(limit)\n        for phasepoint in self.phasepoints:"),
    B("c15-default-limit-from-forward-length", PATH, "            maxlen = max(path_back.maxlen, path_forw.maxlen)", "            maxlen = max(path_back.maxlen, path_forw.length)", "R-15.7", control=True, why="seeded C15_l"),
    B("c15-default-limit-smaller-of-two", PATH, "            maxlen = max(path_back.maxlen, path_forw.maxlen)", "            maxlen = min(path_back.maxlen, path_forw.maxlen)", "R-15.7"),
    K("c15-keep-default-limit-sorted", PATH, "            maxlen = max(path_back.maxlen, path_forw.maxlen)", "            maxlen = max(path_forw.maxlen, path_back.maxlen)"),
    B("c15-paste-reverses-backward-segment-in-place", PATH, "    for phasepoint in reversed(path_back.phasepoints):", "    frames_back = path_back.phasepoints\n    frames_back.reverse()\n    for phasepoint in frames_back:", "R-15.3", control=True, why="seeded C15_k"),
    K("c15-keep-paste-reversed-copy-local", PATH, "    for phasepoint in reversed(path_back.phasepoints):", "    frames_back = list(reversed(path_back.phasepoints))\n    for phasepoint in frames_back:"),
    B("c15-flip-after-early-return", PATH, "            new_point = phasepoint.copy()\n            if rev_v:\n                self.reverse_velocities(new_point)\n            new_path.append(new_point)\n        if order_function is None:\n            return new_path\n", "            new_path.append(phasepoint.copy())\n        if order_function is None:\n            return new_path\n        if rev_v:\n            for new_point in new_path.phasepoints:\n                self.reverse_velocities(new_point)\n", "R-15.1", why="seeded C15_i"),
    K("c15-keep-flip-in-second-loop-before-return", PATH, "            new_point = phasepoint.copy()\n            if rev_v:\n                self.reverse_velocities(new_point)\n            new_path.append(new_point)\n        if order_function is None:\n            return new_path\n", "            new_path.append(phasepoint.copy())\n        if rev_v:\n            for new_point in new_path.phasepoints:\n                self.reverse_velocities(new_point)\n        if order_function is None:\n            return new_path\n"),
    B("c15-extreme-over-all-components", PATH, "        idx = np.argmax([i.order[0] for i in self.phasepoints])", "        idx = np.argmax([i.order for i in self.phasepoints])", "R-15.6", control=True, why="seeded C15_h"),
    B("c15-minimum-by-argmax", PATH, "        idx = np.argmin([i.order[0] for i in self.phasepoints])", "        idx = np.argmax([i.order[0] for i in self.phasepoints])", "R-15.6"),
    K("c15-keep-extreme-comprehension-renamed", PATH, "        idx = np.argmax([i.order[0] for i in self.phasepoints])", "        idx = np.argmax([frame.order[0] for frame in self.phasepoints])"),
    B("c15-extremes-memoised-without-invalidation", PATH, '        idx = np.argmin([i.order[0] for i in self.phasepoints])\n        return (self.phasepoints[idx].order[0], idx)', '        if "min" not in self._extremes:\n            idx = np.argmin([i.order[0] for i in self.phasepoints])\n            self._extremes["min"] = (self.phasepoints[idx].order[0], idx)\n        return self._extremes["min"]', "R-15.5", control=True, why="seeded C15_g",
      also=[(PATH, '        self.time_origin = time_origin\n', '        self.time_origin = time_origin\n        self._extremes = {}\n'), (PATH, '            self.phasepoints.append(phasepoint)\n            return True', '            self.phasepoints.append(phasepoint)\n            self._extremes.clear()\n            return True')]),
    B("c15-paste-slice-off-by-one", PATH, '    first = True\n    for phasepoint in path_forw.phasepoints:\n        if first and overlap:\n            first = False\n            continue\n        app = new_path.append(phasepoint)\n        if not app:\n            msg = f"Truncated path at: {new_path.length}"\n            logger.warning(msg)\n            return new_path\n    return new_path\n', '    start = 1 if overlap else 0\n    stop = None if maxlen is None else maxlen - new_path.length + 1\n    new_path.phasepoints.extend(path_forw.phasepoints[start:stop])\n    return new_path\n', "R-15.3", why="seeded C15_f"),
    K("c15-keep-paste-slice-form", PATH, '    first = True\n    for phasepoint in path_forw.phasepoints:\n        if first and overlap:\n            first = False\n            continue\n        app = new_path.append(phasepoint)\n        if not app:\n            msg = f"Truncated path at: {new_path.length}"\n            logger.warning(msg)\n            return new_path\n    return new_path\n', '    start = 1 if overlap else 0\n    stop = None if maxlen is None else maxlen - new_path.length + start\n    new_path.phasepoints.extend(path_forw.phasepoints[start:stop])\n    return new_path\n'),
    B("c15-cross-strict-upper", PATH, "        cross = [ordermin < interpos <= ordermax for interpos in interfaces]", "        cross = [ordermin < interpos < ordermax for interpos in interfaces]", "R-15.4", control=True, why="seeded C15_c"),
    B("c15-cross-inclusive-lower", PATH, "        cross = [ordermin < interpos <= ordermax for interpos in interfaces]", "        cross = [ordermin <= interpos <= ordermax for interpos in interfaces]", "R-15.4"),
    K("c15-keep-cross-renamed", PATH, "        cross = [ordermin < interpos <= ordermax for interpos in interfaces]", "        cross = [ordermin < lam <= ordermax for lam in interfaces]"),
    B("c15-paste-backward-not-reversed", PATH, "    for phasepoint in reversed(path_back.phasepoints):\n        app = new_path.append(phasepoint)", "    for phasepoint in path_back.phasepoints:\n        app = new_path.append(phasepoint)", "R-15.3", control=True),
    B("c15-paste-skip-without-overlap", PATH, "        if first and overlap:\n            first = False\n            continue", "        if first:\n            first = False\n            continue", "R-15.3"),
    B("c15-paste-skip-every-frame", PATH, "        if first and overlap:\n            first = False\n            continue", "        if first and overlap:\n            continue", "R-15.3"),
    B("c15-append-beyond-limit", PATH, "        if self.maxlen is None or self.length < self.maxlen:", "        if self.maxlen is None or self.length <= self.maxlen:", "R-15.3"),
    B("c15-paste-forward-reversed", PATH, "    for phasepoint in path_forw.phasepoints:\n        if first and overlap:", "    for phasepoint in reversed(path_forw.phasepoints):\n        if first and overlap:", "R-15.3"),
    B("c15-paste-no-limit", PATH, "    new_path = path_back.empty_path(maxlen=maxlen, time_origin=time_origin)", "    new_path = path_back.empty_path(time_origin=time_origin)", "R-15.3"),
    K("c15-keep-paste-flag-renamed", PATH, "    first = True\n    for phasepoint in path_forw.phasepoints:\n        if first and overlap:\n            first = False\n            continue", "    shared = True\n    for phasepoint in path_forw.phasepoints:\n        if overlap and shared:\n            shared = False\n            continue"),
    B("c15-reverse-appends-original", PATH, "            new_point = phasepoint.copy()\n            if rev_v:\n                self.reverse_velocities(new_point)\n            new_path.append(new_point)", "            new_point = phasepoint\n            if rev_v:\n                self.reverse_velocities(new_point)\n            new_path.append(new_point)", "R-15.1", control=True),
    B("c15-copy-shares-frames", PATH, "        for phasepoint in self.phasepoints:\n            new_path.append(phasepoint.copy())", "        for phasepoint in self.phasepoints:\n            new_path.append(phasepoint)", "R-15.1"),
    B("c15-iadd-shares-frames", PATH, "            app = self.append(phasepoint.copy())", "            app = self.append(phasepoint)", "R-15.1"),
    B("c15-system-copy-returns-self", SYSTEM, "        system_copy = copy(self)\n        return system_copy", "        system_copy = self\n        return system_copy", "R-15.1"),
    B("c15-flag-set-constant", PATH, "        system.vel_rev = not system.vel_rev", "        system.vel_rev = True", "R-15.1"),
    B("c15-flip-unconditional", PATH, "            if rev_v:\n                self.reverse_velocities(new_point)", "            self.reverse_velocities(new_point)", "R-15.1"),
    B("c15-reverse-forward-order", PATH, "        for phasepoint in reversed(self.phasepoints):\n            new_point", "        for phasepoint in self.phasepoints:\n            new_point", "R-15.1"),
    B("c15-right-default-by-truthiness", PATH, "        if right is None:\n            right = left\n        assert left <= right\n\n        if self.phasepoints[-1]", "        right = right or left\n        assert left <= right\n\n        if self.phasepoints[-1]", "R-15.2", control=True, why="seeded C15_a"),
    B("c15-right-default-if-not", PATH, "        if right is None:\n            right = left\n        assert left <= right\n        if self.phasepoints[0]", "        if not right:\n            right = left\n        assert left <= right\n        if self.phasepoints[0]", "R-15.2"),
    K("c15-keep-right-default-ifexp", PATH, "        if right is None:\n            right = left\n        assert left <= right\n\n        if self.phasepoints[-1]", "        right = left if right is None else right\n        assert left <= right\n\n        if self.phasepoints[-1]"),
    B("c15-flag-hoisted-from-last-frame", PATH, "        for phasepoint in reversed(self.phasepoints):\n            new_point = phasepoint.copy()\n            if rev_v:\n                self.reverse_velocities(new_point)", "        flip = rev_v and self.length > 0\n        vel_rev = flip and not self.phasepoints[-1].vel_rev\n        for phasepoint in reversed(self.phasepoints):\n            new_point = phasepoint.copy()\n            if flip:\n                new_point.vel_rev = vel_rev", "R-15.1", why="seeded C15_b"),
    K("c15-keep-inline-toggle", PATH, "            if rev_v:\n                self.reverse_velocities(new_point)", "            if rev_v:\n                new_point.vel_rev = not phasepoint.vel_rev"),
    K("c15-keep-copy-inline", PATH, "            new_point = phasepoint.copy()\n            if rev_v:\n                self.reverse_velocities(new_point)\n            new_path.append(new_point)", "            new_point = phasepoint.copy()\n            new_path.append(new_point)\n            if rev_v:\n                self.reverse_velocities(new_point)"),
    K("c15-keep-system-copy-direct", SYSTEM, "        system_copy = copy(self)\n        return system_copy", "        return copy(self)"),
]
