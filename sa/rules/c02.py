"""C02 - swap probabilities equal the exact permanent ratios: the plumbing around the kernels.

Decided (DESIGN.md section 10.2) - each a necessary condition of "P is the permanent-ratio
matrix of the *current* weight matrix and busy set, zero on busy rows and columns":

R-2.1  cache coherence of the memoised P matrix (typestate NONE / OK / STALE over every method
       of REPEX_state, with callee summaries);
R-2.2  the getter computes from the live state matrix and busy flags;
R-2.3  busy rows and columns: one mask for both axes, zeros re-inserted on both axes at
       positions computed from the same mask;
R-2.4  the row sort is undone with the permutation that sorted;
R-2.5  every kernel result is written to the window of `out` it was computed from;
R-2.6  permanent_prob has the shape W[i][j] * perm(W without row i, column j), per-row rescaling.

Not decided: the numeric kernels themselves (fast_glynn_perm, quick_prob, find_blocks,
random_prob).
"""

from __future__ import annotations

import ast

from ..cfg import cfg_of
from ..flow import deref, flow_of, path_of
from ..loader import FUNC, AnalysisError, last_name, short, walk_local
from ..util import REPEX, is_self_attr, kwarg
from ..variants import B, K

EXPLANATION = (
    "(R-2.1) the P matrix is memoised in _last_prob; a three-state typestate (NONE = invalidated, OK = "
    "valid for the current state, STALE = valid for an earlier state) is propagated over the CFG of "
    "every method of REPEX_state - writes to state / _locks / _trajs make OK stale, `_last_prob = None` "
    "invalidates, `self.prob` recomputes when invalidated, calls of other methods apply their "
    "summaries - and no read of the cache may see STALE, nor may a method that is called from "
    "outside leave STALE behind. (R-2.2) the getter calls inf_retis(abs(self.state), self._locks) and "
    "stores a copy. (R-2.3) inf_retis drops busy rows and columns with one mask derived from its "
    "`locks` argument on both axes and returns the result of two insertions of 0, one per axis, at "
    "positions counted from that same mask. (R-2.4) the index array that sorted the rows is the "
    "one through which the result is written back. (R-2.5) each call of quick_prob / permanent_prob / "
    "random_prob on a window of the sorted matrix stores its result into the same window of `out`. "
    "(R-2.6) permanent_prob stores W[i][j] * kernel(rows != i, columns != j) at [i][j], skipping only "
    "zero entries, after dividing row i by a quantity computed from row i alone."
)
NOT_DECIDED = (
    "that fast_glynn_perm computes the permanent, that quick_prob is the closed form for 0/1 "
    "staircase blocks, that find_blocks finds the block structure, random_prob (Monte Carlo), "
    "double stochasticity as a numeric fact (the code asserts it at run time)"
)
ASSUMPTIONS = [
    "NumPy semantics of boolean masks, fancy-index assignment and np.insert as documented",
    "the cache is coherent when a method is entered from outside",
    "exceptional exits are not required to leave a coherent cache",
]

STATE_ATTRS = ("state", "_locks", "_trajs")
CACHE = "_last_prob"
KERNELS = ("quick_prob", "permanent_prob", "random_prob")

NONE, OK, STALE = "NONE", "OK", "STALE"


# ------------------------------------------------------------------------------------------
# R-2.1 typestate
# ------------------------------------------------------------------------------------------
def _base_self_attr(e):
    """`self.X[...]...` / `self.X` -> X (for stores)"""
    while isinstance(e, ast.Subscript):
        e = e.value
    if isinstance(e, ast.Attribute) and isinstance(e.value, ast.Name) and e.value.id == "self":
        return e.attr
    return None


class Typestate:
    def __init__(self, ctx, cls):
        self.ctx = ctx
        self.methods = {s.name: s for s in cls.body if isinstance(s, FUNC)}
        self.summ = {}
        self.busy = set()
        self.reports = {}

    # events of one expression, in evaluation order (approximation: operands before operators,
    # arguments before the call, value before the targets)
    def events(self, e, out):
        if e is None:
            return
        if isinstance(e, ast.Call):
            for a in e.args:
                self.events(a.value if isinstance(a, ast.Starred) else a, out)
            for k in e.keywords:
                self.events(k.value, out)
            f = e.func
            if isinstance(f, ast.Attribute) and isinstance(f.value, ast.Name) and f.value.id == "self" and f.attr in self.methods:
                out.append(("call", f.attr, e))
                return
            if isinstance(f, ast.Attribute) and f.attr in ("fill", "sort", "put", "resize", "itemset") and _base_self_attr(f.value) in STATE_ATTRS:
                out.append(("write", _base_self_attr(f.value), e))
                return
            self.events(f, out)
            return
        if isinstance(e, ast.Attribute):
            if isinstance(e.value, ast.Name) and e.value.id == "self" and isinstance(e.ctx, ast.Load):
                if e.attr == "prob":
                    out.append(("getter", None, e))
                    return
                if e.attr == CACHE:
                    par = getattr(e, "_parent", None)
                    # `self._last_prob is None` / isinstance(self._last_prob, ...) is a test, not a use
                    if isinstance(par, ast.Compare) and all(isinstance(o, (ast.Is, ast.IsNot)) for o in par.ops):
                        return
                    if isinstance(par, ast.Call) and last_name(par) == "isinstance":
                        return
                    out.append(("use", None, e))
                    return
            self.events(e.value, out)
            return
        for ch in ast.iter_child_nodes(e):
            if isinstance(ch, ast.expr):
                self.events(ch, out)
            elif isinstance(ch, (ast.comprehension,)):
                self.events(ch.iter, out)
                for i in ch.ifs:
                    self.events(i, out)
            elif isinstance(ch, ast.keyword):
                self.events(ch.value, out)

    def stmt_events(self, n):
        out = []
        a = n.ast
        if n.kind == "test":
            self.events(a, out)
        elif n.kind == "loop":
            self.events(a.iter, out)
        elif n.kind == "with":
            for it in a.items:
                self.events(it.context_expr, out)
        elif n.kind == "stmt" and a is not None:
            if isinstance(a, ast.Assign):
                self.events(a.value, out)
                for t in a.targets:
                    self.target_events(t, a, out)
            elif isinstance(a, ast.AugAssign):
                self.events(a.value, out)
                self.target_events(a.target, a, out, aug=True)
            elif isinstance(a, ast.AnnAssign):
                self.events(a.value, out)
                if a.value is not None:
                    self.target_events(a.target, a, out)
            elif isinstance(a, (ast.Expr, ast.Return)):
                self.events(a.value, out)
            elif isinstance(a, ast.Delete):
                for t in a.targets:
                    self.target_events(t, a, out)
            elif isinstance(a, (ast.Raise, ast.Pass, ast.Break, ast.Continue, ast.Global, ast.Nonlocal, ast.Import, ast.ImportFrom)):
                pass
            elif isinstance(a, (ast.FunctionDef, ast.AsyncFunctionDef, ast.ClassDef)):
                pass
            else:
                for ch in ast.iter_child_nodes(a):
                    if isinstance(ch, ast.expr):
                        self.events(ch, out)
        return out

    def target_events(self, t, st, out, aug=False):
        if isinstance(t, (ast.Tuple, ast.List)):
            for x in t.elts:
                self.target_events(x, st, out, aug)
            return
        if isinstance(t, ast.Subscript):
            self.events(t.slice, out)
            if aug and _base_self_attr(t) == CACHE:
                out.append(("use", None, t))
        b = _base_self_attr(t)
        if b in STATE_ATTRS:
            out.append(("write", b, st))
        elif b == CACHE:
            if isinstance(t, ast.Attribute) and isinstance(st, ast.Assign) and isinstance(st.value, ast.Constant) and st.value.value is None:
                out.append(("inval", None, st))
            elif isinstance(t, ast.Attribute):
                out.append(("set", None, st))
            else:
                out.append(("cachewrite", None, st))

    def refine(self, states, facts):
        for e, t in facts:
            txt = ast.unparse(e).replace(" ", "")
            isnone = None
            if txt == f"self.{CACHE}isNone":
                isnone = t
            elif txt == f"self.{CACHE}isnotNone":
                isnone = not t
            elif txt in (f"isinstance(self.{CACHE},type(None))",):
                isnone = t
            if isnone is True:
                states = states & {NONE}
            elif isnone is False:
                states = states - {NONE}
        return states

    def run(self, name, entry):
        """forward dataflow; returns (exit states, [(kind, node, detail)])"""
        key = (name, entry)
        if key in self.summ:
            return self.summ[key]
        if key in self.busy:
            return ({entry}, [])
        self.busy.add(key)
        f = self.methods[name]
        cfg = cfg_of(f)
        inn = {cfg.entry.id: {entry}}
        work = [cfg.entry.id]
        probs = {}
        is_getter = name == "prob"
        while work:
            nid = work.pop()
            n = cfg.nodes[nid]
            states = set(inn.get(nid, set()))
            if n.kind == "branch" and n.facts:
                states = self.refine(states, n.facts)
            outst = set()
            evs = self.stmt_events(n) if n.kind in ("stmt", "test", "loop", "with") else []
            for s in states:
                cur = {s}
                for kind, arg, node in evs:
                    nxt = set()
                    for c in cur:
                        if kind == "inval":
                            nxt.add(NONE)
                        elif kind == "write":
                            nxt.add(STALE if c in (OK, STALE) else NONE)
                        elif kind == "getter":
                            sub, sp = self.run("prob", c) if "prob" in self.methods and not is_getter else ({OK}, [])
                            if c == STALE:
                                probs[("stale-read", id(node))] = ("stale-read", node, "self.prob")
                                nxt.add(STALE)
                            else:
                                nxt |= sub
                        elif kind == "use":
                            if c == STALE:
                                probs[("stale-read", id(node))] = ("stale-read", node, f"self.{CACHE}")
                            if c == NONE and not is_getter:
                                probs[("none-use", id(node))] = ("none-use", node, f"self.{CACHE}")
                            nxt.add(c)
                        elif kind == "set":
                            # only the getter may store a matrix; it stores one computed from the live state
                            if not is_getter:
                                probs[("foreign-set", id(node))] = ("foreign-set", node, "")
                            nxt.add(OK)
                        elif kind == "cachewrite":
                            probs[("foreign-set", id(node))] = ("foreign-set", node, "")
                            nxt.add(c)
                        elif kind == "call":
                            sub, sp = self.run(arg, c)
                            for p in sp:
                                if p[0] == "stale-read" and c == STALE:
                                    probs[("stale-read-call", id(node))] = ("stale-read-call", node, arg)
                            nxt |= sub
                    cur = nxt
                outst |= cur
            for s2, lab in cfg.succ[nid]:
                if lab == "exc":
                    continue
                old = inn.get(s2, set())
                new = old | outst
                if new != old or s2 not in inn:
                    inn[s2] = new
                    work.append(s2)
        res = (set(inn.get(cfg.exit.id, set())), list(probs.values()))
        self.busy.discard(key)
        self.summ[key] = res
        return res


def r21(ctx):
    rid = "R-2.1"
    tree = ctx.tree
    cls = tree.cls(REPEX, "REPEX_state")
    ts = Typestate(ctx, cls)
    if "prob" not in ts.methods:
        raise AnalysisError("R-2.1: REPEX_state.prob not found")
    # who is called from outside the class (receiver other than self)?
    internal_only = set()
    called_self, called_other = set(), set()
    for m, q, f in tree.all_funcs():
        for c in [x for x in walk_local(f) if isinstance(x, ast.Call) and isinstance(x.func, ast.Attribute)]:
            if c.func.attr in ts.methods:
                if isinstance(c.func.value, ast.Name) and c.func.value.id == "self" and q.startswith("REPEX_state."):
                    called_self.add(c.func.attr)
                else:
                    called_other.add(c.func.attr)
    internal_only = called_self - called_other
    nwrites = 0
    for name, f in ts.methods.items():
        if name == "__init__":
            continue
        exits, probs = ts.run(name, OK)
        evs_all = [ev for n in cfg_of(f).nodes for ev in (ts.stmt_events(n) if n.kind in ("stmt", "test", "loop", "with") else [])]
        writes = any(k == "write" for k, _, _ in evs_all)
        touches = any(k in ("write", "getter", "use", "inval") or (k == "call" and (ts.run(a_, OK)[0] != {OK} or ts.run(a_, STALE)[0] != {STALE})) for k, a_, _ in evs_all)
        calls_dirty = False
        reported = False
        for kind, node, detail in probs:
            if kind in ("stale-read", "stale-read-call"):
                what = f"`{detail}`" if kind == "stale-read" else f"self.{detail}(), which reads the P matrix,"
                ctx.bad(rid, node, f"REPEX_state.{name} reads the memoised P matrix through {what} after the weight matrix / busy flags / slot list were modified and before `self.{CACHE} = None`: the probabilities belong to an earlier state (busy set or weights), so picks and recorded weights are not the permanent ratios of the current W", construct=f"{name}: stale read via {short(node, 50)}")
                reported = True
            elif kind == "foreign-set":
                ctx.bad(rid, node, f"REPEX_state.{name} stores a matrix into the P-matrix cache; only the getter `prob` may do so (with the matrix computed from the live state)", construct=f"{name}: {short(node, 50)}")
                reported = True
        if STALE in exits and name not in internal_only and name != "prob":
            ctx.bad(rid, f, f"REPEX_state.{name} can return with the memoised P matrix still valid although it modified the weight matrix / busy flags / slot list without `self.{CACHE} = None` afterwards (or before, with no recomputation in between): the next reader gets the probabilities of the earlier state", construct=f"{name}: exits with a stale P matrix")
            reported = True
        if not reported and (writes or any(k == "write" for k in [])):
            nwrites += 1
            if STALE in exits:
                ctx.ok(rid, f, f"{name}: modifies the state and leaves the cache to its callers (called only through self; every caller invalidates before the next read)")
            else:
                ctx.ok(rid, f, f"{name}: every path from a modification of state / _locks / _trajs to a read of the P matrix or to the exit passes `self.{CACHE} = None`")
        elif not reported and touches:
            ctx.ok(rid, f, f"{name}: reads / invalidates the P matrix or calls methods that modify the state; no read sees a stale matrix on any path and the method does not leave one behind")
        elif not reported:
            ctx.ok(rid, f, f"{name}: does not touch the state matrix, the busy flags or the cache", nontrivial=False)
    if nwrites < 4:
        raise AnalysisError(f"R-2.1: only {nwrites} state-modifying methods found (expected add_traj, lock, unlock, swap, ...)")


# ------------------------------------------------------------------------------------------
# R-2.2 getter
# ------------------------------------------------------------------------------------------
def r22(ctx):
    rid = "R-2.2"
    tree = ctx.tree
    g = tree.func(REPEX, "REPEX_state.prob")
    fl = flow_of(g)
    calls = [c for c in walk_local(g) if isinstance(c, ast.Call) and last_name(c) == "inf_retis"]
    if len(calls) != 1:
        raise AnalysisError("R-2.2: the getter does not call inf_retis exactly once")
    c = calls[0]
    a0 = kwarg(c, "input_mat", 0)
    a1 = kwarg(c, "locks", 1)
    if a0 is not None:
        a0, _ = deref(fl, a0, fl.cfg.node_of(c))
    if a1 is not None:
        a1, _ = deref(fl, a1, fl.cfg.node_of(c))
    t0 = ast.unparse(a0).replace(" ", "") if a0 is not None else ""
    t1 = ast.unparse(a1).replace(" ", "") if a1 is not None else ""
    if t0 in ("abs(self.state)", "np.abs(self.state)", "self.state", "np.absolute(self.state)") and t1 == "self._locks":
        ctx.ok(rid, c, "the P matrix is computed from the live weight matrix and the live busy flags")
    else:
        ctx.bad(rid, c, f"the getter computes the P matrix from `{t0}` and `{t1}`, not from the live weight matrix self.state and busy flags self._locks", construct=short(c, 70))
    sets = [s for s in walk_local(g) if isinstance(s, ast.Assign) and any(_base_self_attr(t) == CACHE for t in s.targets)]
    okc = False
    for s in sets:
        v, _ = deref(fl, s.value, fl.cfg.node_of(s))
        src = v
        if isinstance(v, ast.Call) and isinstance(v.func, ast.Attribute) and v.func.attr == "copy":
            src, _ = deref(fl, v.func.value, fl.cfg.node_of(s))
        if src is c or (isinstance(src, ast.Call) and last_name(src) == "inf_retis"):
            okc = True
    rets = [r for r in walk_local(g) if isinstance(r, ast.Return)]
    if okc and rets and all(ast.unparse(r.value) == f"self.{CACHE}" for r in rets):
        ctx.ok(rid, sets[0], "the result of inf_retis is what is memoised and returned")
    else:
        ctx.bad(rid, g, "the getter does not memoise / return the matrix computed by inf_retis", construct="prob getter result")


# ------------------------------------------------------------------------------------------
# R-2.3 .. R-2.5 inside inf_retis
# ------------------------------------------------------------------------------------------
def _mask_name(f, fl, locks_p):
    """name bound to the boolean busy mask derived from the `locks` parameter"""
    for n in walk_local(f):
        if isinstance(n, ast.Assign) and len(n.targets) == 1 and isinstance(n.targets[0], ast.Name):
            v = n.value
            if isinstance(v, ast.Compare) and len(v.ops) == 1 and isinstance(v.left, ast.Name) and v.left.id == locks_p and isinstance(v.comparators[0], ast.Constant):
                op, k = v.ops[0], v.comparators[0].value
                if (isinstance(op, ast.Eq) and k == 1) or (isinstance(op, ast.NotEq) and k == 0) or (isinstance(op, ast.Gt) and k == 0):
                    return n.targets[0].id, n, True
                if (isinstance(op, ast.Eq) and k == 0) or (isinstance(op, ast.NotEq) and k == 1):
                    return n.targets[0].id, n, False
            if isinstance(v, ast.Call) and isinstance(v.func, ast.Attribute) and v.func.attr == "astype" and isinstance(v.func.value, ast.Name) and v.func.value.id == locks_p and v.args and ast.unparse(v.args[0]) in ("bool", "np.bool_"):
                return n.targets[0].id, n, True
    return None, None, None


def r23(ctx):
    rid = "R-2.3"
    tree = ctx.tree
    f = tree.func(REPEX, "REPEX_state.inf_retis")
    ps = [a.arg for a in f.args.args]
    if len(ps) < 3:
        raise AnalysisError("R-2.3: inf_retis(self, input_mat, locks) expected")
    mat_p, locks_p = ps[1], ps[2]
    fl = flow_of(f)
    cfg = fl.cfg
    mask, mnode, busy_true = _mask_name(f, fl, locks_p)
    if mask is None:
        raise AnalysisError("R-2.3: the boolean busy mask derived from `locks` was not found")
    ctx.ok(rid, mnode, f"busy mask `{mask}` derived from the `{locks_p}` argument")

    def polarity(e, depth=0):
        """+1: selects busy entries, -1: selects idle entries, None: not derived from the mask.
        Locals such as `free = ~bool_locks` are looked through."""
        if depth > 4:
            return None
        if isinstance(e, ast.UnaryOp) and isinstance(e.op, ast.Invert):
            p_ = polarity(e.operand, depth + 1)
            return None if p_ is None else -p_
        if isinstance(e, ast.Call) and last_name(e) in ("logical_not", "invert") and len(e.args) == 1:
            p_ = polarity(e.args[0], depth + 1)
            return None if p_ is None else -p_
        if isinstance(e, ast.Name):
            if e.id == mask:
                return 1 if busy_true else -1
            defs = [d for d in fl.defs if d.path == e.id and d.kind == "assign" and d.value is not None]
            if len(defs) == 1 and len([d for d in fl.defs if d.path == e.id]) == 1:
                return polarity(defs[0].value, depth + 1)
        return None

    def idle_sel(e):
        return polarity(e) == -1

    def busy_sel(e):
        return polarity(e) == 1

    # the reduced matrix
    red = None
    for n in walk_local(f):
        if isinstance(n, ast.Assign) and len(n.targets) == 1 and isinstance(n.targets[0], ast.Name):
            subs = [x for x in ast.walk(n.value) if isinstance(x, ast.Subscript)]
            base_ok = any(isinstance(x.value, ast.Name) and x.value.id == mat_p for x in subs)
            if not base_ok:
                continue
            rows = cols = 0
            wrong = False
            for x in subs:
                sl = x.slice
                if isinstance(sl, ast.Tuple) and len(sl.elts) == 2:
                    r_, c_ = sl.elts
                    full = lambda s_: isinstance(s_, ast.Slice) and s_.lower is None and s_.upper is None and s_.step is None
                    if idle_sel(r_) and full(c_):
                        rows += 1
                    elif full(r_) and idle_sel(c_):
                        cols += 1
                    elif busy_sel(r_) or busy_sel(c_):
                        wrong = True
                elif idle_sel(sl):
                    rows += 1
                elif busy_sel(sl):
                    wrong = True
                elif isinstance(sl, ast.Call) and last_name(sl) == "ix_" and len(sl.args) == 2:
                    if idle_sel(sl.args[0]) and idle_sel(sl.args[1]):
                        rows += 1
                        cols += 1
                    else:
                        wrong = True
            red = (n, rows, cols, wrong)
            break
    if red is None:
        raise AnalysisError("R-2.3: the matrix reduced to the idle block was not found")
    n, rows, cols, wrong = red
    if rows == 1 and cols == 1 and not wrong:
        ctx.ok(rid, n, "busy rows and busy columns are dropped with the same mask (idle selector on both axes)")
    else:
        ctx.bad(rid, n, f"the idle block is selected with `{short(n.value, 60)}`: not the idle selector of the one busy mask on the row axis and on the column axis (rows: {rows}, columns: {cols}{', busy selector used' if wrong else ''}): probabilities are computed for busy ensembles / paths or idle ones are dropped", construct="idle block selection")
    # insert positions: loop over the mask, append counter on busy, count idle
    il = None
    for L in [x for x in walk_local(f) if isinstance(x, ast.For) and isinstance(x.iter, ast.Name) and x.iter.id == mask and isinstance(x.target, ast.Name)]:
        ev = L.target.id
        apps = [c for c in ast.walk(L) if isinstance(c, ast.Call) and isinstance(c.func, ast.Attribute) and c.func.attr == "append" and isinstance(c.func.value, ast.Name) and c.args and isinstance(c.args[0], ast.Name)]
        incs = [a for a in ast.walk(L) if isinstance(a, ast.AugAssign) and isinstance(a.target, ast.Name) and isinstance(a.op, ast.Add) and isinstance(a.value, ast.Constant) and a.value.value == 1]
        if len(apps) == 1 and len(incs) == 1 and apps[0].args[0].id == incs[0].target.id:
            fa = [(ast.unparse(e), t) for e, t, _ in cfg.guards(cfg.node_of(apps[0]))]
            fi = [(ast.unparse(e), t) for e, t, _ in cfg.guards(cfg.node_of(incs[0]))]
            cnt = incs[0].target.id
            inits = [d for d, sfx in fl.rd(cnt, cfg.node_of(L)) if not sfx and not any(d.stmt is x for x in ast.walk(L))]
            init0 = inits and all(d.kind == "assign" and isinstance(d.value, ast.Constant) and d.value.value == 0 for d in inits)
            good = (ev, busy_true) in fa and (ev, not busy_true) in fi and init0
            il = (apps[0].func.value.id, L, good)
    if il is None:
        raise AnalysisError("R-2.3: the loop that computes the re-insertion positions from the busy mask was not found")
    ilname, L, good = il
    if good:
        ctx.ok(rid, L, "re-insertion positions: for every busy entry of the same mask, the number of idle entries before it")
    else:
        ctx.bad(rid, L, "the re-insertion positions are not `number of idle entries before each busy entry` of the busy mask (append under the busy test, count under the idle test, counter from 0): zeros are re-inserted at the wrong rows / columns", construct="insert positions")
    # the returned value: two insertions of 0 at those positions, one per axis
    rets = [r for r in walk_local(f) if isinstance(r, ast.Return)]
    if len(rets) != 1:
        raise AnalysisError("R-2.3: inf_retis has more than one return")
    axes = []
    cur, at = deref(fl, rets[0].value, cfg.node_of(rets[0]))
    depth = 0
    okins = True
    why = ""
    while isinstance(cur, ast.Call) and last_name(cur) == "insert" and depth < 4:
        arr, pos, val, ax = kwarg(cur, "arr", 0), kwarg(cur, "obj", 1), kwarg(cur, "values", 2), kwarg(cur, "axis", 3)
        if not (isinstance(pos, ast.Name) and pos.id == ilname):
            okins, why = False, f"positions `{short(pos, 30)}` are not the list computed from the busy mask"
        if not (isinstance(val, ast.Constant) and val.value == 0 and not isinstance(val.value, bool)):
            okins, why = False, f"the inserted value is `{short(val, 20)}`, not 0"
        if isinstance(ax, ast.Constant):
            axes.append(ax.value)
        else:
            okins, why = False, "the axis of an insertion is not a constant"
        cur, at = deref(fl, arr, at)
        depth += 1
    if okins and sorted(axes) == [0, 1]:
        ctx.ok(rid, rets[0], "the result is returned with zeros inserted for busy rows (axis 0) and busy columns (axis 1) at the positions of the same mask")
    else:
        ctx.bad(rid, rets[0], f"inf_retis does not return its result with zeros re-inserted on both axes at the busy positions ({why or 'axes ' + str(sorted(axes))}): P is not zero on busy rows and columns / has the wrong shape", construct="re-insertion of busy rows and columns")
    return f, fl, cur


_PIPELINE = ("inf_retis", "find_blocks", "permanent_prob", "quick_prob", "random_prob", "fast_glynn_perm", "glynn_perm")
_INT_TYPES = {"int", "np.int64", "np.int32", "np.int_", "np.intp", "'int'", "'int64'", "'int32'", "'i8'", "'i4'", "np.uint8", "np.uint64", "'uint8'"}
_LOSSY_CALLS = {"floor", "ceil", "trunc", "rint", "round", "around", "fix", "floor_divide"}


def _value_use(e, derived):
    """A name of `derived` occurs in e as a value (not only under len() / .shape / .size / a comparison)."""
    for x in ast.walk(e):
        if isinstance(x, ast.Name) and x.id in derived:
            p_, child, shielded = getattr(x, "_parent", None), x, False
            while p_ is not None and child is not e:
                if (isinstance(p_, ast.Call) and last_name(p_) in ("len", "shape", "count_nonzero")) or (isinstance(p_, ast.Attribute) and p_.attr in ("shape", "size", "ndim")) or isinstance(p_, ast.Compare):
                    shielded = True
                child, p_ = p_, getattr(p_, "_parent", None)
            if not shielded:
                return True
    return False


def r216(ctx):
    """quick_prob looks at the zero pattern only, which gives the permanent ratios exactly when every
    path of the block has one constant weight (each column of the transposed block is its own first
    entry or zero). The gate in front of it is therefore a *per-path* comparison - the block compared
    element-wise with its own first row by broadcasting. A pooled membership test (isin / in1d /
    unique / set over the whole block) accepts a block whose deviating weights merely coincide with
    another path's first weight: quick_prob is applied to non-constant rows and P is no longer
    W_ij perm(W^ij)/perm(W), while rows and columns still sum to one."""
    rid = "R-2.16"
    f = ctx.tree.func(REPEX, "REPEX_state.inf_retis")
    fl = flow_of(f)
    POOLED = {"isin", "in1d", "unique", "intersect1d", "setdiff1d", "union1d", "set", "frozenset", "tolist"}
    n = 0
    for c in [x for x in walk_local(f) if isinstance(x, ast.Call) and is_self_attr(x.func, "quick_prob")]:
        at = fl.cfg.node_of(c)
        for ge, gt, bn in fl.cfg.guards(at):
            names = {x.id for x in ast.walk(ge) if isinstance(x, ast.Name)}
            if not any(isinstance(x, ast.Call) and last_name(x) in ("all", "any", "isin", "in1d", "unique", "array_equal", "allclose") for x in ast.walk(ge)):
                continue  # a size test (len(...) == 1), not the constancy gate
            n += 1
            pooled = [x for x in ast.walk(ge) if isinstance(x, ast.Call) and last_name(x) in POOLED]
            own_first = [x for x in ast.walk(ge) if isinstance(x, ast.Compare) and len(x.ops) == 1 and isinstance(x.ops[0], (ast.Eq, ast.NotEq)) and any(
                isinstance(a, ast.Name) and isinstance(b, ast.Subscript) and isinstance(b.value, ast.Name) and b.value.id == a.id and isinstance(b.slice, ast.Constant) and b.slice.value == 0
                for a, b in ((x.left, x.comparators[0]), (x.comparators[0], x.left)))]
            if pooled:
                ctx.bad(rid, pooled[0], f"the gate in front of quick_prob (`{short(ge, 70)}`) pools the weights of the whole block (`{last_name(pooled[0])}`): a block whose non-constant weights happen to equal another path's first weight passes as 'one constant weight per path', quick_prob sees only its zero pattern and the result is not the permanent ratio (e.g. W=[[2,4,4],[4,4,4],[4,4,2]] gives 1/3 everywhere) although rows and columns sum to one",
                        construct="quick_prob gate by pooled membership")
            elif own_first and gt:
                ctx.ok(rid, ge, "the block is compared element-wise with its own first row (one constant weight per path) before quick_prob is used")
            else:
                raise AnalysisError(f"R-2.16: the gate `{short(ge, 60)}` in front of quick_prob is neither a per-path comparison with the first row nor a pooled membership test (cannot decide)")
    if n == 0:
        raise AnalysisError("R-2.16: no constancy gate in front of quick_prob found")


def r215(ctx):
    """Weights are positive reals (high-acceptance weights are ratios; a row may be rescaled by any
    positive factor without changing P). Nothing in the permanent pipeline may truncate or round a
    weight matrix: `astype(int)` / `dtype=int` / floor / round / `//` on an array derived from the
    weight-matrix parameter changes its zero pattern (0.5 -> 0) and its ratios. `astype(bool)`,
    comparisons with 0 and float casts keep both."""
    rid = "R-2.15"
    cls = ctx.tree.cls(REPEX, "REPEX_state")
    methods = {s.name: s for s in cls.body if isinstance(s, FUNC)}
    n = 0
    for name in _PIPELINE:
        f = methods.get(name)
        if f is None:
            continue
        params = [a.arg for a in f.args.args if a.arg != "self"]
        if not params:
            continue
        # names derived from the matrix parameter by assignment (flow-insensitive closure is enough here)
        derived = {params[0]}
        changed = True
        while changed:
            changed = False
            for st in walk_local(f):
                if isinstance(st, ast.Assign) and len(st.targets) == 1 and isinstance(st.targets[0], ast.Name) and st.targets[0].id not in derived:
                    v = st.value
                    names = {x.id for x in ast.walk(v) if isinstance(x, ast.Name)}
                    # values, not shapes / masks: skip len(), .shape, comparisons
                    if names & derived and not isinstance(v, ast.Compare) and not (isinstance(v, ast.Call) and last_name(v) in ("len", "where", "argsort", "argmax", "argmin", "nonzero", "count_nonzero", "zeros", "zeros_like", "identity", "ones", "sum", "all", "any", "allclose", "arange", "shape")) and not (isinstance(v, ast.Attribute) and v.attr == "shape") and not (isinstance(v, ast.Subscript) and isinstance(v.value, ast.Attribute) and v.value.attr == "shape"):
                        derived.add(st.targets[0].id)
                        changed = True
        n += 1
        bad = []
        for c in walk_local(f):
            if isinstance(c, ast.Call) and isinstance(c.func, ast.Attribute) and c.func.attr == "astype" and c.args and ast.unparse(c.args[0]) in _INT_TYPES:
                root = c.func.value
                if _value_use(root, derived):
                    bad.append((c, f"`{short(c, 50)}` casts weights to integers"))
            if isinstance(c, ast.Call) and last_name(c) in _LOSSY_CALLS and c.args and _value_use(c.args[0], derived):
                bad.append((c, f"`{short(c, 50)}` rounds weights"))
            if isinstance(c, ast.Call) and last_name(c) in ("array", "asarray", "zeros_like", "empty_like", "full_like") and kwarg(c, "dtype") is not None and ast.unparse(kwarg(c, "dtype")) in _INT_TYPES and c.args and _value_use(c.args[0], derived) and last_name(c) in ("array", "asarray"):
                bad.append((c, f"`{short(c, 50)}` copies weights into an integer array"))
            if isinstance(c, ast.BinOp) and isinstance(c.op, ast.FloorDiv) and _value_use(c.left, derived):
                bad.append((c, f"`{short(c, 50)}` floor-divides weights"))
        for c, why in bad:
            ctx.bad(rid, c, f"REPEX_state.{name}: {why}: a positive weight below 1 becomes 0 and ratios are lost - e.g. the block structure is counted from a matrix with fewer non-zero entries than W, inf_retis splits a real block or never emits the last one, and P is no longer W_ij perm(W^ij)/perm(W) nor invariant under rescaling a row (rows and columns may still sum to one)",
                    construct=f"{name}: lossy cast of weights: {short(c, 50)}")
        if not bad:
            ctx.ok(rid, f, f"REPEX_state.{name}: no integer cast / rounding of an array derived from `{params[0]}`")
    if n < 4:
        raise AnalysisError(f"R-2.15: only {n} functions of the permanent pipeline found")


def r214(ctx):
    """The row order handed to find_blocks is the staircase order of the *reach* of each path: the
    sort keys are functions of the zero pattern of the idle block (W > 0 / W != 0) only, never of the
    weights' values. (With wire fencing the weights vary along a row; a key computed from values
    - e.g. argmax of the row itself = position of the largest weight - ties or mis-orders the rows,
    find_blocks cuts wrong blocks and the permanents are taken of the wrong sub-matrices while row
    and column sums stay one.)"""
    rid = "R-2.14"
    f = ctx.tree.func(REPEX, "REPEX_state.inf_retis")
    fl = flow_of(f)
    sort = None
    for n in walk_local(f):
        if isinstance(n, ast.Assign) and len(n.targets) == 1 and isinstance(n.targets[0], ast.Name) and isinstance(n.value, ast.Subscript) and isinstance(n.value.slice, ast.Name) and isinstance(n.value.value, ast.Name):
            idx = n.value.slice.id
            defs = [d for d in fl.defs if d.path == idx and d.kind == "assign" and d.value is not None]
            if defs and any("argsort" in ast.unparse(d.value) or "append" in ast.unparse(d.value) or "concatenate" in ast.unparse(d.value) for d in defs):
                sort = (n, idx, n.value.value.id)
                break
    if sort is None:
        raise AnalysisError("R-2.14: the row sort `sorted = non_locked[sort_idx]` was not found")
    sn, idx, block = sort
    closure, work, exprs = {idx}, [idx], []
    while work:
        nm = work.pop()
        for d in fl.defs:
            if d.path == nm and d.kind in ("assign", "aug") and d.value is not None:
                exprs.append(d)
                for x in ast.walk(d.value):
                    if isinstance(x, ast.Name) and x.id not in closure and x.id != block:
                        closure.add(x.id)
                        work.append(x.id)
    PATTERN_CALLS = {"count_nonzero", "nonzero", "flatnonzero", "sign", "isclose", "any", "all"}
    n = 0
    for d in exprs:
        for x in ast.walk(d.value):
            if not (isinstance(x, ast.Name) and x.id == block):
                continue
            n += 1
            ok, p_, child = False, getattr(x, "_parent", None), x
            while p_ is not None and not isinstance(p_, ast.stmt):
                if isinstance(p_, ast.Compare) and len(p_.ops) == 1 and isinstance(p_.ops[0], (ast.Gt, ast.NotEq, ast.Eq, ast.LtE)) and any(isinstance(o, ast.Constant) and o.value == 0 and not isinstance(o.value, bool) for o in [p_.left] + p_.comparators):
                    ok = True
                if isinstance(p_, ast.Call) and isinstance(p_.func, ast.Attribute) and p_.func.attr == "astype" and p_.func.value is child and p_.args and ast.unparse(p_.args[0]) in ("bool", "np.bool_"):
                    ok = True
                if isinstance(p_, ast.Call) and last_name(p_) in PATTERN_CALLS and child in p_.args:
                    ok = True
                if isinstance(p_, ast.Attribute) and p_.attr in ("shape", "ndim", "size") and p_.value is child:
                    ok = True
                if isinstance(p_, ast.Call) and last_name(p_) == "len" and child in p_.args:
                    ok = True
                child, p_ = p_, getattr(p_, "_parent", None)
            if ok:
                ctx.ok(rid, x, f"sort key `{short(d.value, 60)}` reads the idle block through its zero pattern only")
            else:
                ctx.bad(rid, x, f"the row order of the idle block is computed from the *values* of the weights (`{short(d.value, 70)}` reads `{block}` outside a comparison with 0): with weights that vary along a row (wire fencing) the key is the position of the largest weight, not the reach of the path - rows are not brought into staircase order, find_blocks cuts wrong diagonal blocks and P is not W_ij perm(W^ij)/perm(W) although rows and columns still sum to one",
                        construct=f"inf_retis sort key from weight values: {short(d.value, 60)}")
    if n == 0:
        raise AnalysisError("R-2.14: the sort index does not derive from the idle block (cannot decide)")


def r24_25(ctx):
    tree = ctx.tree
    f = tree.func(REPEX, "REPEX_state.inf_retis")
    fl = flow_of(f)
    cfg = fl.cfg
    # R-2.4: sorted = X[IDX]; later OUT[IDX] = ...
    rid = "R-2.4"
    sort_assign = None
    for n in walk_local(f):
        if isinstance(n, ast.Assign) and len(n.targets) == 1 and isinstance(n.targets[0], ast.Name) and isinstance(n.value, ast.Subscript) and isinstance(n.value.slice, ast.Name) and isinstance(n.value.value, ast.Name):
            idx = n.value.slice.id
            defs = [d for d in fl.defs if d.path == idx and d.kind == "assign" and d.value is not None]
            if defs and any("argsort" in ast.unparse(d.value) or "append" in ast.unparse(d.value) or "concatenate" in ast.unparse(d.value) for d in defs):
                if sort_assign is None:
                    sort_assign = (n, idx, n.targets[0].id)
    if sort_assign is None:
        raise AnalysisError("R-2.4: the row sort `sorted = non_locked[sort_idx]` was not found")
    sn, idx, sorted_name = sort_assign
    backs = [n for n in walk_local(f) if isinstance(n, ast.Assign) and len(n.targets) == 1 and isinstance(n.targets[0], ast.Subscript) and isinstance(n.targets[0].slice, ast.Name) and isinstance(n.targets[0].value, ast.Name)]
    outs = [n for n in backs if n.targets[0].slice.id == idx]
    reapplied = [n for n in walk_local(f) if isinstance(n, ast.Assign) and n is not sn and isinstance(n.value, ast.Subscript) and isinstance(n.value.slice, ast.Name) and n.value.slice.id == idx]
    if len(outs) == 1 and not reapplied:
        o = outs[0]
        outname = o.targets[0].value.id
        v = o.value
        src = v.func.value if isinstance(v, ast.Call) and isinstance(v.func, ast.Attribute) and v.func.attr == "copy" else v
        if isinstance(src, ast.Name) and src.id == outname and cfg.reaches(cfg.node_of(sn), cfg.node_of(o)):
            ctx.ok(rid, o, f"the result rows are written back through `{idx}`, the index array that sorted them (inverse permutation)")
        else:
            ctx.bad(rid, o, f"the write-back through `{idx}` does not restore the result matrix itself", construct=short(o, 60))
    else:
        ctx.bad(rid, sn, f"the row sort by `{idx}` is not undone by exactly one assignment `out[{idx}] = out` (found {len(outs)}; the permutation is applied again {len(reapplied)} time(s)): probabilities are attributed to the wrong paths", construct="undo of the row sort")
        outname = outs[0].targets[0].value.id if outs else None
    # R-2.5: kernel windows
    rid = "R-2.5"
    n = 0
    for c in [c for c in walk_local(f) if isinstance(c, ast.Call) and last_name(c) in KERNELS and isinstance(c.func, ast.Attribute)]:
        if not c.args:
            continue
        at = cfg.node_of(c)
        a, aat = deref(fl, c.args[0], at)
        if not (isinstance(a, ast.Subscript) and isinstance(a.value, ast.Name) and a.value.id == sorted_name):
            ctx.bad(rid, c, f"{last_name(c)} is applied to `{short(a, 50)}`, not to a window of the row-sorted idle block", construct=f"{last_name(c)} argument")
            n += 1
            continue
        # where does the result go?
        st = getattr(c, "_parent", None)
        while st is not None and not isinstance(st, ast.stmt):
            st = getattr(st, "_parent", None)
        tgt = None
        if isinstance(st, ast.Assign) and len(st.targets) == 1:
            t = st.targets[0]
            if isinstance(t, ast.Subscript):
                tgt = t
            elif isinstance(t, ast.Name):
                # temp = kernel(...); out[...] = temp   (the nearest following store of temp)
                stores = [s for s in walk_local(f) if isinstance(s, ast.Assign) and isinstance(s.value, ast.Name) and s.value.id == t.id and len(s.targets) == 1 and isinstance(s.targets[0], ast.Subscript)
                          and any(d.stmt is st for d, sfx in fl.rd(t.id, cfg.node_of(s)))]
                if len(stores) == 1:
                    tgt = stores[0].targets[0]
        n += 1
        if tgt is None or not (isinstance(tgt.value, ast.Name)):
            ctx.bad(rid, c, f"the result of {last_name(c)} is not stored into a window of the result matrix", construct=f"{last_name(c)} result")
            continue
        w_read = ast.unparse(a.slice).replace(" ", "")
        w_write = ast.unparse(tgt.slice).replace(" ", "")
        if w_read == w_write:
            ctx.ok(rid, c, f"{last_name(c)}: computed from and stored to the window [{w_read}]")
        else:
            ctx.bad(rid, c, f"{last_name(c)} is computed from the window [{w_read}] of the sorted matrix but stored to [{w_write}] of the result: the probabilities land on other rows / columns (or in the other column order) than the weights they belong to", construct=f"{last_name(c)}: read window [{w_read}] vs write window [{w_write}]")
    if n < 5:
        raise AnalysisError(f"R-2.5: only {n} kernel calls found in inf_retis (expected 5)")


# ------------------------------------------------------------------------------------------
# R-2.6 permanent_prob
# ------------------------------------------------------------------------------------------
def r26(ctx):
    rid = "R-2.6"
    tree = ctx.tree
    f = tree.func(REPEX, "REPEX_state.permanent_prob")
    fl = flow_of(f)
    cfg = fl.cfg
    # the store out[i][j] = <kernel> * W[i][j]
    stores = []
    for s in walk_local(f):
        if isinstance(s, ast.Assign) and len(s.targets) == 1 and isinstance(s.targets[0], ast.Subscript):
            t = s.targets[0]
            ij = None
            if isinstance(t.value, ast.Subscript) and isinstance(t.slice, ast.Name) and isinstance(t.value.slice, ast.Name):
                ij = (t.value.slice.id, t.slice.id, t.value.value)
            elif isinstance(t.slice, ast.Tuple) and len(t.slice.elts) == 2 and all(isinstance(x, ast.Name) for x in t.slice.elts):
                ij = (t.slice.elts[0].id, t.slice.elts[1].id, t.value)
            if ij and isinstance(s.value, ast.BinOp) and isinstance(s.value.op, ast.Mult):
                stores.append((s, ij))
    if len(stores) != 1:
        raise AnalysisError(f"R-2.6: {len(stores)} stores of the form out[i][j] = a * b in permanent_prob (expected 1)")
    s, (iv, jv, outv) = stores[0]
    at = cfg.node_of(s)

    def entry_of(e):
        """W[i][j] / W[i, j] -> (matrix name, i, j)"""
        e, _ = deref(fl, e, at)
        if isinstance(e, ast.Subscript):
            if isinstance(e.value, ast.Subscript) and isinstance(e.slice, ast.Name) and isinstance(e.value.slice, ast.Name) and isinstance(e.value.value, ast.Name):
                return (e.value.value.id, e.value.slice.id, e.slice.id)
            if isinstance(e.slice, ast.Tuple) and len(e.slice.elts) == 2 and all(isinstance(x, ast.Name) for x in e.slice.elts) and isinstance(e.value, ast.Name):
                return (e.value.id, e.slice.elts[0].id, e.slice.elts[1].id)
        return None

    l, r = s.value.left, s.value.right
    el, er = entry_of(l), entry_of(r)
    ent, ker = (el, r) if el else (er, l)
    if ent is None:
        raise AnalysisError("R-2.6: the product stored by permanent_prob has no factor W[i][j]")
    W = ent[0]
    if (ent[1], ent[2]) == (iv, jv):
        ctx.ok(rid, s, f"the entry stored at [{iv}][{jv}] is weighted with {W}[{iv}][{jv}]")
    else:
        ctx.bad(rid, s, f"the entry stored at [{iv}][{jv}] is weighted with {W}[{ent[1]}][{ent[2]}]: not W_ij * perm(minor_ij)", construct=short(s, 60))
    # the kernel factor: fast_glynn_perm(M), M = W[rows != i][:, cols != j]
    k, kat = deref(fl, ker, at)
    if not (isinstance(k, ast.Call) and last_name(k) == "fast_glynn_perm" and k.args):
        ctx.bad(rid, s, "the other factor is not the permanent kernel applied to the minor", construct="kernel factor")
        return
    M, mat_at = deref(fl, k.args[0], kat)

    def excl(e, at_):
        """list `[r for r in range(n) if r != X]` -> X"""
        e, _ = deref(fl, e, at_)
        if isinstance(e, ast.ListComp) and len(e.generators) == 1 and len(e.generators[0].ifs) == 1:
            g = e.generators[0]
            c = g.ifs[0]
            if isinstance(c, ast.Compare) and len(c.ops) == 1 and isinstance(c.ops[0], ast.NotEq):
                names = [x.id for x in (c.left, c.comparators[0]) if isinstance(x, ast.Name)]
                tv = g.target.id if isinstance(g.target, ast.Name) else None
                oth = [x for x in names if x != tv]
                if isinstance(e.elt, ast.Name) and e.elt.id == tv and len(oth) == 1:
                    return oth[0]
        return None

    rows_x = cols_x = None
    cur, cat = M, mat_at
    for _ in range(4):
        if not isinstance(cur, ast.Subscript):
            break
        sl = cur.slice
        if isinstance(sl, ast.Tuple) and len(sl.elts) == 2:
            a, b = sl.elts
            fa = isinstance(a, ast.Slice) and a.lower is None and a.upper is None
            fb = isinstance(b, ast.Slice) and b.lower is None and b.upper is None
            if fa and not fb:
                cols_x = excl(b, cat)
            elif fb and not fa:
                rows_x = excl(a, cat)
        else:
            rows_x = excl(sl, cat)
        nxt = cur.value
        if isinstance(nxt, ast.Name) and nxt.id == W:
            cur = nxt
            break
        cur, cat = deref(fl, nxt, cat)
    base_ok = isinstance(cur, ast.Name) and cur.id == W
    if base_ok and rows_x == iv and cols_x == jv:
        ctx.ok(rid, k, f"the kernel is applied to {W} without row {iv} and without column {jv}")
    else:
        ctx.bad(rid, k, f"the permanent kernel is applied to a matrix without row `{rows_x}` and column `{cols_x}` of `{short(cur, 20)}`, not to {W} without row {iv} and column {jv}: the entry is not W_ij * perm(W without row i and column j)", construct="minor of the permanent formula")
    # skip only zero entries
    conts = [c for c in walk_local(f) if isinstance(c, ast.Continue)]
    okskip = True
    for c in conts:
        facts = [(e, t) for e, t, _ in cfg.guards(cfg.node_of(c))]
        z = False
        for e, t in facts:
            if t and isinstance(e, ast.Compare) and len(e.ops) == 1 and isinstance(e.ops[0], ast.Eq) and isinstance(e.comparators[0], ast.Constant) and e.comparators[0].value == 0 and entry_of(e.left) == (W, iv, jv):
                z = True
        okskip = okskip and z
    if okskip:
        ctx.ok(rid, conts[0] if conts else s, "entries are skipped only where the weight is zero (P is zero wherever W is)")
    else:
        ctx.bad(rid, conts[0], "an entry is skipped under a condition other than W[i][j] == 0", construct="skip condition")
    # row rescaling: W[i, :] /= f(W[i, :])
    resc = [a for a in walk_local(f) if isinstance(a, ast.AugAssign) and isinstance(a.op, ast.Div) and isinstance(a.target, ast.Subscript) and isinstance(a.target.value, ast.Name) and a.target.value.id == W]
    for a in resc:
        tt = ast.unparse(a.target).replace(" ", "")
        used = [ast.unparse(x).replace(" ", "") for x in ast.walk(a.value) if isinstance(x, ast.Subscript)]
        if used and all(u == tt for u in used):
            ctx.ok(rid, a, "each row is divided by a quantity computed from that row alone: P is unchanged when one path's weights are rescaled")
        else:
            ctx.bad(rid, a, f"row `{tt}` is rescaled by `{short(a.value, 40)}`, which is not computed from that row alone: rescaling one path's weights changes other paths' probabilities", construct="row rescaling")
    # the input is not overwritten
    wdefs = [d for d in fl.defs if d.path == W and d.kind == "assign" and d.value is not None]
    if resc:
        if wdefs and all(isinstance(d.value, ast.Call) and isinstance(d.value.func, ast.Attribute) and d.value.func.attr == "copy" or (isinstance(d.value, ast.Call) and last_name(d.value) in ("array", "copy")) for d in wdefs):
            ctx.ok(rid, wdefs[0].stmt, "the rescaling works on a copy: the state matrix window handed in is not modified")
        else:
            ctx.bad(rid, resc[0], "permanent_prob rescales the matrix it was given in place (a window of the sorted state): the weights of the state are altered", construct="in-place rescaling of the argument")


def r27(ctx):
    """quick_prob uses its argument only through the zero pattern and the shape: the fast path is
    invariant under any rescaling of a path's weights and is zero wherever the weight is zero."""
    rid = "R-2.7"
    tree = ctx.tree
    f = tree.func(REPEX, "REPEX_state.quick_prob")
    ps = [a.arg for a in f.args.args]
    if len(ps) < 2:
        raise AnalysisError("R-2.7: quick_prob(self, arr) expected")
    arr = ps[1]
    fl = flow_of(f)
    uses = [n for n in walk_local(f) if isinstance(n, ast.Name) and n.id == arr and isinstance(n.ctx, ast.Load)]
    pattern_names = set()
    n_ok = 0
    for u in uses:
        par = getattr(u, "_parent", None)
        if isinstance(par, ast.Attribute) and par.attr in ("shape", "ndim", "dtype"):
            n_ok += 1
            continue
        if isinstance(par, ast.Call) and last_name(par) in ("len",):
            n_ok += 1
            continue
        if isinstance(par, ast.Compare) and len(par.ops) == 1 and isinstance(par.ops[0], (ast.NotEq, ast.Eq, ast.Gt)) and any(isinstance(x, ast.Constant) and x.value == 0 for x in [par.left] + par.comparators):
            n_ok += 1
            st = par
            while st is not None and not isinstance(st, ast.stmt):
                st = getattr(st, "_parent", None)
            if isinstance(st, ast.Assign):
                pattern_names |= {t.id for t in st.targets if isinstance(t, ast.Name)}
            continue
        ctx.bad(rid, u, f"quick_prob uses the weights themselves in `{short(par, 50)}`, not only their zero pattern: the fast path is no longer unchanged when a path's weights are rescaled", construct=short(par, 50))
    if n_ok and len(uses) == n_ok:
        ctx.ok(rid, f, f"quick_prob reads its argument {n_ok} times: shape and zero pattern only")
    # the zero pattern multiplies every entry that is written
    stores = [s_ for s_ in walk_local(f) if isinstance(s_, ast.Assign) and any(isinstance(t, ast.Subscript) for t in s_.targets)]
    for s_ in stores:
        tgt = next(t for t in s_.targets if isinstance(t, ast.Subscript))
        if not isinstance(tgt.value, ast.Name):
            continue
        rets = [r for r in walk_local(f) if isinstance(r, ast.Return) and isinstance(r.value, ast.Name)]
        if not rets or tgt.value.id != rets[0].value.id:
            continue
        # names derived from the zero pattern (flow-insensitive closure)
        derived = set(pattern_names)
        changed = True
        while changed:
            changed = False
            for n_ in walk_local(f):
                tg, src = [], None
                if isinstance(n_, ast.Assign):
                    tg, src = [t for t in n_.targets if isinstance(t, ast.Name)], n_.value
                elif isinstance(n_, ast.For):
                    tg = [x for x in ast.walk(n_.target) if isinstance(x, ast.Name)]
                    src = n_.iter
                if src is not None and any(isinstance(x, ast.Name) and x.id in derived for x in ast.walk(src)):
                    for t in tg:
                        if t.id not in derived:
                            derived.add(t.id)
                            changed = True
        v_, _ = deref(fl, s_.value, fl.cfg.node_of(s_))
        defs_ = [v_]
        if isinstance(s_.value, ast.Name):
            defs_ = [d.value for d in fl.defs if d.path == s_.value.id and d.kind == "assign" and d.value is not None] or [v_]
        factor = all(isinstance(d_, ast.BinOp) and isinstance(d_.op, ast.Mult) and any(isinstance(o_, ast.Name) and o_.id in derived - {s_.value.id if isinstance(s_.value, ast.Name) else ""} for o_ in (d_.left, d_.right)) for d_ in defs_)
        if factor:
            ctx.ok(rid, s_, "every column written to the result carries the zero pattern as a factor: P is zero wherever the weight is zero")
        else:
            ctx.bad(rid, s_, "a column of the fast-path result does not depend on the zero pattern of the weights: entries with zero weight can get a probability", construct=short(s_, 60))


def r28(ctx):
    """Index units inside inf_retis. After busy rows and columns are dropped, the number of [0-]
    type ensembles in the *reduced* matrix is the local `offset = self._offset - <busy minus
    ensembles>`; `self._offset` counts them in the full matrix. Every index or slice into a matrix
    derived from the reduced one uses the reduced count, and the full count is used only on
    full-size objects (the mask, the input matrix)."""
    rid = "R-2.8"
    tree = ctx.tree
    f = tree.func(REPEX, "REPEX_state.inf_retis")
    ps = [a.arg for a in f.args.args]
    mat_p, locks_p = ps[1], ps[2]
    fl = flow_of(f)
    mask, _mn, _bt = _mask_name(f, fl, locks_p)
    full = {mat_p, locks_p} | ({mask} if mask else set())
    # the local reduced offset: a name defined from self._offset minus something
    red_off = None
    for n in walk_local(f):
        if isinstance(n, ast.Assign) and len(n.targets) == 1 and isinstance(n.targets[0], ast.Name) and isinstance(n.value, ast.BinOp) and isinstance(n.value.op, ast.Sub) and ast.unparse(n.value.left) == "self._offset":
            red_off = (n.targets[0].id, n)
    if red_off is None:
        raise AnalysisError("R-2.8: the reduced offset `self._offset - <busy minus ensembles>` was not found in inf_retis")
    # names derived from the reduced matrix (closure over assignments); polarity aliases of the mask stay full-size
    reduced = set()
    changed = True
    while changed:
        changed = False
        for n in walk_local(f):
            if not (isinstance(n, ast.Assign) and len(n.targets) == 1 and isinstance(n.targets[0], ast.Name)):
                continue
            t = n.targets[0].id
            if t in reduced or t in full or t == red_off[0]:
                continue
            names = {x.id for x in ast.walk(n.value) if isinstance(x, ast.Name)}
            inv = [x for x in ast.walk(n.value) if isinstance(x, ast.UnaryOp) and isinstance(x.op, ast.Invert)]
            from_mask_only = names and names <= full - {mat_p} and not any(isinstance(x, ast.Subscript) for x in ast.walk(n.value))
            if from_mask_only:
                full.add(t)  # e.g. free = ~bool_locks
                changed = True
                continue
            sel = any(isinstance(x, ast.Subscript) and isinstance(x.value, ast.Name) and x.value.id == mat_p for x in ast.walk(n.value))
            if sel or names & reduced:
                if isinstance(n.value, (ast.Subscript, ast.Attribute, ast.Call, ast.Name, ast.BinOp)):
                    reduced.add(t)
                    changed = True
    if not reduced:
        raise AnalysisError("R-2.8: no matrix derived from the idle block found in inf_retis")
    n_sites = 0

    def base_name(e):
        while isinstance(e, (ast.Subscript, ast.Attribute)):
            e = e.value
        return e.id if isinstance(e, ast.Name) else None

    for sub in [x for x in walk_local(f) if isinstance(x, ast.Subscript)]:
        b = base_name(sub.value) if not isinstance(sub.value, ast.Name) else sub.value.id
        if b is None:
            continue
        idx_names = {ast.unparse(x) for x in ast.walk(sub.slice) if isinstance(x, (ast.Attribute, ast.Name))}
        uses_full = "self._offset" in idx_names
        uses_red = red_off[0] in idx_names
        if not (uses_full or uses_red):
            continue
        n_sites += 1
        if b in reduced and uses_full:
            ctx.bad(rid, sub, f"`{short(sub, 60)}` indexes a matrix of the idle block with self._offset, the number of minus ensembles in the *full* matrix; with a busy [0-] the idle block has `{red_off[0]}` = self._offset - 1 of them: the minus / plus split is taken one column off, so paths are tested (and probabilities computed) in the wrong block", construct=f"reduced matrix indexed with self._offset: {short(sub, 50)}")
        elif b in full and uses_red:
            ctx.bad(rid, sub, f"`{short(sub, 60)}` indexes a full-size object with the reduced offset `{red_off[0]}`", construct=f"full-size object indexed with the reduced offset: {short(sub, 50)}")
        else:
            ctx.ok(rid, sub, f"`{short(sub, 50)}`: {'reduced' if b in reduced else 'full-size'} object indexed with the {'reduced' if uses_red else 'full'} minus count")
    for c in [x for x in walk_local(f) if isinstance(x, ast.Call) and isinstance(x.func, ast.Attribute) and is_self_attr(x.func)]:
        args = list(c.args) + [k.value for k in c.keywords]
        if any(isinstance(a, ast.Name) and a.id in reduced for a in args) and any(ast.unparse(a) == "self._offset" for a in args):
            n_sites += 1
            ctx.bad(rid, c, f"`{short(c, 60)}` hands a matrix of the idle block to a helper together with self._offset (the full-matrix minus count) instead of the reduced `{red_off[0]}`", construct=f"helper called with self._offset: {short(c, 50)}")
    if n_sites < 6:
        raise AnalysisError(f"R-2.8: only {n_sites} offset-indexed sites found in inf_retis")


def r29(ctx, rid="R-2.9"):
    """Normalisation of the Monte-Carlo estimate: random_prob accumulates permutation matrices in
    `out` (each doubly stochastic) and divides by the number it accumulated. Counting: the initial
    value contributes 1 if it is an identity / permutation matrix (np.eye) and 0 if zeros; the
    sampling loop `for _ in range(n)` adds the current state exactly once per iteration; the
    divisor of the returned matrix must be that total. Otherwise rows and columns do not sum to 1
    and inf_retis' own assertion stops the sampler whenever a block of more than 12 idle ensembles
    with unequal weights occurs."""
    tree = ctx.tree
    f = tree.func(REPEX, "REPEX_state.random_prob")
    fl = flow_of(f)
    cfg = fl.cfg
    rets = [r for r in walk_local(f) if isinstance(r, ast.Return)]
    if len(rets) != 1:
        raise AnalysisError(f"{rid}: random_prob has {len(rets)} returns")
    v, _ = deref(fl, rets[0].value, cfg.node_of(rets[0]))
    if not (isinstance(v, ast.BinOp) and isinstance(v.op, ast.Div) and isinstance(v.left, ast.Name)):
        raise AnalysisError(f"{rid}: random_prob does not return <accumulator> / <count>")
    acc = v.left.id

    def lin(e):
        if isinstance(e, ast.Constant) and isinstance(e.value, int) and not isinstance(e.value, bool):
            return {1: e.value}
        if isinstance(e, ast.Name):
            return {e.id: 1}
        if isinstance(e, ast.BinOp) and isinstance(e.op, (ast.Add, ast.Sub)):
            a, b = lin(e.left), lin(e.right)
            if a is None or b is None:
                return None
            sg = 1 if isinstance(e.op, ast.Add) else -1
            out = dict(a)
            for k, x in b.items():
                out[k] = out.get(k, 0) + sg * x
            return {k: x for k, x in out.items() if x != 0}
        return None

    div = lin(v.right)
    # initial contribution
    inits = [d for d in fl.defs if d.path == acc and d.kind == "assign" and d.value is not None]
    if len(inits) != 1 or not isinstance(inits[0].value, ast.Call):
        raise AnalysisError(f"{rid}: the accumulator of random_prob is not initialised once by a constructor call")
    ctor = last_name(inits[0].value)
    w0 = {"eye": 1, "identity": 1, "zeros": 0, "zeros_like": 0}.get(ctor)
    if w0 is None:
        raise AnalysisError(f"{rid}: initial value `{short(inits[0].value, 30)}` of the accumulator is not eye / zeros")
    # the sampling loop
    adds = [a for a in walk_local(f) if isinstance(a, ast.AugAssign) and isinstance(a.op, ast.Add) and isinstance(a.target, ast.Name) and a.target.id == acc]
    if len(adds) != 1:
        raise AnalysisError(f"{rid}: {len(adds)} accumulations into `{acc}`")
    a = adds[0]
    loops = [l for l in loops_of_(a) if isinstance(l, ast.For)]
    if len(loops) != 1 or not (isinstance(loops[0].iter, ast.Call) and last_name(loops[0].iter) == "range" and len(loops[0].iter.args) == 1):
        raise AnalysisError(f"{rid}: the accumulation is not inside one `for _ in range(n)` loop")
    L = loops[0]
    head = cfg.node_of(L)
    an = cfg.node_of(a)
    body_first = [s2 for s2, lab in cfg.succ[head.id] if lab == "T"]
    skip = any(head.id in cfg.reachable(cfg.nodes[b], avoid=[an], labels_excluded=("exc",)) for b in body_first)
    nloop = lin(L.iter.args[0])
    if skip or nloop is None or div is None:
        raise AnalysisError(f"{rid}: the sample count of random_prob is not decidable (conditional accumulation or non-linear bounds)")
    total = dict(nloop)
    total[1] = total.get(1, 0) + w0
    total = {k: x for k, x in total.items() if x != 0}
    if total == div:
        ctx.ok(rid, rets[0], f"random_prob divides by {div}: the initial {ctor} matrix ({w0} sample) plus one matrix per iteration - rows and columns of the estimate sum to 1")
    else:
        ctx.bad(rid, rets[0], f"random_prob accumulates {total} permutation matrices (initial {ctor}: {w0}, plus one per iteration of `range({short(L.iter.args[0], 20)})`) but divides by {div}: rows and columns of the estimate do not sum to 1, so inf_retis' assertion fails - with more than 12 idle ensembles of unequal weight in one block no job can be drawn and the step's restart file is never written", construct=f"random_prob: {total} samples / {div}")


def loops_of_(node):
    out = []
    n = getattr(node, "_parent", None)
    while n is not None and not isinstance(n, FUNC):
        if isinstance(n, (ast.For, ast.While)):
            out.append(n)
        n = getattr(n, "_parent", None)
    return out


def r210(ctx):
    """The choice of kernel for a block depends on that block: every size / uniformity test that
    guards a kernel call in the block loop of inf_retis refers to the array handed to the kernel
    (or its transpose), not to the whole idle matrix. (The exact permanent is affordable up to a
    block size; testing the size of the whole matrix sends small blocks to the Monte-Carlo
    estimate, which is not exact and draws from the scheduler stream.)"""
    rid = "R-2.10"
    tree = ctx.tree
    f = tree.func(REPEX, "REPEX_state.inf_retis")
    fl = flow_of(f)
    cfg = fl.cfg
    n = 0
    for c in [c for c in walk_local(f) if isinstance(c, ast.Call) and last_name(c) in KERNELS and isinstance(c.func, ast.Attribute) and c.args and isinstance(c.args[0], ast.Name)]:
        blk = c.args[0].id
        # aliases of the block: transposes / plain copies
        alias = {blk}
        for d in fl.defs:
            if d.kind == "assign" and d.value is not None and isinstance(d.value, ast.Attribute) and d.value.attr == "T" and isinstance(d.value.value, ast.Name) and d.value.value.id == blk:
                alias.add(d.path)
        at = cfg.node_of(c)
        for e, t, bn in cfg.guards(at):
            lens = [x for x in ast.walk(e) if isinstance(x, ast.Call) and last_name(x) == "len" and x.args]
            for l in lens:
                n += 1
                a = l.args[0]
                nm = a.id if isinstance(a, ast.Name) else None
                if nm in alias:
                    ctx.ok(rid, l, f"{last_name(c)}({blk}): the size test `{short(e, 40)}` refers to the block itself")
                elif isinstance(bn.ast, ast.AST) and any(bn.ast is y for L in walk_local(f) if isinstance(L, ast.For) for y in ast.walk(L)):
                    ctx.bad(rid, l, f"the test `{short(e, 50)}` that decides whether `{blk}` goes to {last_name(c)} looks at `{short(a, 30)}`, not at the block: with more idle ensembles than the threshold even small blocks are sent to the other kernel (the Monte-Carlo estimate instead of the exact permanent, or the other way round)", construct=f"kernel dispatch for {blk}: {short(e, 50)}")
    if n < 2:
        raise AnalysisError(f"R-2.10: only {n} size tests guard the kernel calls of the block loop")


def r212(ctx, rid="R-2.12", what=""):
    """The probability budget of quick_prob is never negative when it is used: every path from a
    subtraction `budget -= column` to the next use of the budget passes the clamp of negative
    values (`budget[budget < 0] = 0`, numpy.maximum / clip). A budget that is exactly zero
    mathematically carries a rounding residue of either sign; unclamped, a residue of -1e-19 is
    multiplied into the next column and P gets negative entries (rgen.choice then refuses the
    distribution: no job can be drawn)."""
    f = ctx.tree.func(REPEX, "REPEX_state.quick_prob")
    cfg = cfg_of(f)
    subs = [st for st in walk_local(f) if isinstance(st, ast.AugAssign) and isinstance(st.op, ast.Sub) and isinstance(st.target, ast.Name)]
    subs += [st for st in walk_local(f) if isinstance(st, ast.Assign) and len(st.targets) == 1 and isinstance(st.targets[0], ast.Name) and isinstance(st.value, ast.BinOp) and isinstance(st.value.op, ast.Sub) and isinstance(st.value.left, ast.Name) and st.value.left.id == st.targets[0].id]
    if not subs:
        raise AnalysisError(f"{rid}: quick_prob does not subtract the assigned column from a budget any more (cannot decide)")
    for sb in subs:
        b = sb.target.id if isinstance(sb, ast.AugAssign) else sb.targets[0].id

        def is_clamp(st):
            if isinstance(st, ast.Assign) and len(st.targets) == 1:
                t = st.targets[0]
                if isinstance(t, ast.Subscript) and isinstance(t.value, ast.Name) and t.value.id == b and isinstance(st.value, ast.Constant) and st.value.value == 0:
                    cmps = [c for c in ast.walk(t.slice) if isinstance(c, ast.Compare) and len(c.ops) == 1]
                    for c in cmps:
                        l, r, op = c.left, c.comparators[0], c.ops[0]
                        if isinstance(l, ast.Name) and l.id == b and isinstance(r, ast.Constant) and r.value == 0 and isinstance(op, (ast.Lt, ast.LtE)):
                            return True
                        if isinstance(r, ast.Name) and r.id == b and isinstance(l, ast.Constant) and l.value == 0 and isinstance(op, (ast.Gt, ast.GtE)):
                            return True
                if isinstance(t, ast.Name) and t.id == b and isinstance(st.value, ast.Call) and last_name(st.value) in ("maximum", "clip", "fmax") and any(isinstance(a, ast.Name) and a.id == b for a in st.value.args) and any(isinstance(a, ast.Constant) and a.value == 0 for a in st.value.args):
                    return True
            if isinstance(st, ast.Expr) and isinstance(st.value, ast.Call) and last_name(st.value) in ("clip", "maximum") and any(k.arg == "out" and isinstance(k.value, ast.Name) and k.value.id == b for k in st.value.keywords):
                return True
            return False

        stmts = [st for st in walk_local(f) if isinstance(st, ast.stmt) and st is not f and not isinstance(st, (ast.FunctionDef, ast.For, ast.While, ast.If, ast.With, ast.Try))]
        clamps = [cfg.node_of(st) for st in stmts if is_clamp(st)]
        uses = [st for st in stmts if st is not sb and not is_clamp(st) and not isinstance(st, (ast.For, ast.While, ast.If)) and any(isinstance(x, ast.Name) and x.id == b and isinstance(x.ctx, ast.Load) for x in ast.walk(st)) and not isinstance(st, ast.Return)]
        bad = [u for u in uses if cfg.reaches(cfg.node_of(sb), cfg.node_of(u), avoid=clamps, labels_excluded=("exc",))]
        if bad:
            ctx.bad(rid, sb, f"quick_prob uses the budget `{b}` in `{short(bad[0], 50)}` after `{short(sb, 40)}` without the clamp of negative values in between ({'no clamp at all' if not clamps else 'the clamp runs before the subtraction'}): the rounding residue of an exhausted budget (about -1e-19) is multiplied into the next column, P gets negative entries{what}", construct=f"quick_prob: budget {b} used unclamped after the subtraction")
        else:
            ctx.ok(rid, sb, f"quick_prob: every use of the budget `{b}` after the subtraction passes the clamp of negative values")


def run(ctx):
    ctx.rule("R-2.1", "cache coherence of the memoised P matrix: typestate NONE/OK/STALE over every method of REPEX_state with callee summaries; no stale read, no stale exit of an externally called method; only the getter stores a matrix", floor=20)
    ctx.rule("R-2.2", "the getter computes P from the live weight matrix and busy flags and memoises that result", floor=2)
    ctx.rule("R-2.3", "busy rows and columns: one mask from `locks`, idle selector on both axes, zeros re-inserted on both axes at positions counted from the same mask", floor=4)
    ctx.rule("R-2.4", "the row sort is undone through the index array that sorted", floor=1)
    ctx.rule("R-2.16", "the zero-pattern kernel is used only for blocks with one constant weight per path: the gate compares the block element-wise with its own first row, never by pooled membership", floor=1)
    ctx.attempt(r216, ctx)
    ctx.rule("R-2.15", "weights stay real numbers through the whole permanent pipeline: no integer cast, rounding or floor division of an array derived from the weight matrix (zero pattern and ratios preserved; scale invariance)", floor=4)
    ctx.attempt(r215, ctx)
    ctx.rule("R-2.14", "the staircase order of the idle block is computed from its zero pattern only (sort keys read W through W > 0, never the weights' values)", floor=1)
    ctx.attempt(r214, ctx)
    ctx.rule("R-2.5", "every kernel result is stored to the window it was computed from", floor=5)
    ctx.rule("R-2.6", "permanent_prob: out[i][j] = W[i][j] * kernel(W without row i, column j), skipped only for zero weights, per-row rescaling on a copy", floor=5)
    ctx.attempt(r21, ctx)
    ctx.attempt(r22, ctx)
    ctx.attempt(r23, ctx)
    ctx.attempt(r24_25, ctx)
    ctx.rule("R-2.11", "P exists for every lock subset: a length guard in the block code implies that the index it protects is in range - `len(W) <= offset` before `W[offset, ...]`, the idle block may be [0-] alone (shared with C05 R-5.5)", floor=1)
    from . import c05 as _c05
    from .shared import RuleProxy as _RP2b
    ctx.attempt(_c05.r55, _RP2b(ctx, "R-2.11", " (for the lock subset `only [0-] idle` the P matrix [[1]] is not produced: IndexError)"))
    ctx.attempt(r26, ctx)
    ctx.rule("R-2.8", "index units in inf_retis: matrices of the idle block are indexed with the reduced minus count, full-size objects with self._offset", floor=6)
    ctx.attempt(r28, ctx)
    ctx.rule("R-2.7", "quick_prob touches its argument only through shape and zero pattern (scale invariance of the fast path; zero where the weight is zero)", floor=2)
    ctx.attempt(r27, ctx)
    ctx.rule("R-2.12", "quick_prob: the probability budget is clamped to >= 0 between every subtraction and its next use (no negative entries of P from rounding residues)", floor=1)
    ctx.attempt(r212, ctx)
    ctx.rule("R-2.13", "random_prob: the swap acceptance ratios are looked up for the current arrangement in every sweep (nothing derived from the arrangement arrays the sweep mutates is computed before the loop)", floor=1)
    from .shared import hoisted_stale_value
    ctx.attempt(hoisted_stale_value, ctx, "R-2.13", REPEX, "REPEX_state.random_prob", " - the swap chain keeps the acceptance ratios of the identity arrangement, moves into zero-weight assignments and no longer samples the permanent distribution (P stays doubly stochastic, so the row / column asserts pass)")
    ctx.rule("R-2.9", "random_prob divides by the number of permutation matrices it accumulated (initial identity + one per iteration): the estimate is doubly stochastic", floor=1)
    ctx.attempt(r29, ctx)
    ctx.rule("R-2.10", "the kernel chosen for a block depends on that block (size tests of the dispatch refer to the array handed to the kernel)", floor=2)
    ctx.attempt(r210, ctx)


VARIANTS = [
    B("c02-constancy-gate-by-pooled-membership", REPEX, "                elif np.all(subarr_T[np.where(subarr_T != subarr_T[0])] == 0):", "                elif np.all(np.isin(subarr_T, np.append(subarr_T[0], 0))):", "R-2.16", control=True, why="seeded C02_l"),
    K("c02-keep-constancy-gate-as-a-disjunction", REPEX, "                elif np.all(subarr_T[np.where(subarr_T != subarr_T[0])] == 0):", "                elif np.all((subarr_T == subarr_T[0]) | (subarr_T == 0)):"),
    B("c02-block-search-on-integer-work-copy", REPEX, "        temp_arr = arr.copy()\n", "        temp_arr = arr.astype(int)\n", "R-2.15", control=True, why="seeded C02_k"),
    K("c02-keep-block-search-on-boolean-work-copy", REPEX, "        temp_arr = arr.copy()\n", "        temp_arr = (arr != 0).astype(float)\n", why="only the zero pattern is counted"),
    K("c02-keep-block-search-on-float-copy", REPEX, "        temp_arr = arr.copy()\n", "        temp_arr = arr.astype(float)\n"),
    B("c02-plus-sort-key-from-weight-values", REPEX, "np.argsort(-1 * np.argmax(non_locked[offset:, ::-1] > 0, axis=1))", "np.argsort(-1 * np.argmax(non_locked[offset:, ::-1], axis=1))", "R-2.14", control=True, why="seeded C02_j"),
    B("c02-minus-sort-key-from-weight-values", REPEX, "minus_idx = np.argsort(np.argmax(non_locked[:offset] > 0, axis=1))", "minus_idx = np.argsort(np.argmax(non_locked[:offset], axis=1))", "R-2.14"),
    K("c02-keep-sort-key-nonzero-test", REPEX, "np.argsort(-1 * np.argmax(non_locked[offset:, ::-1] > 0, axis=1))", "np.argsort(-1 * np.argmax(non_locked[offset:, ::-1] != 0, axis=1))", why="weights are non-negative: != 0 is the same pattern"),
    K("c02-keep-sort-key-pattern-local", REPEX, "        minus_idx = np.argsort(np.argmax(non_locked[:offset] > 0, axis=1))\n        pos_idx = (\n            np.argsort(-1 * np.argmax(non_locked[offset:, ::-1] > 0, axis=1))\n            + offset\n        )", "        reach = non_locked > 0\n        minus_idx = np.argsort(np.argmax(reach[:offset], axis=1))\n        pos_idx = (\n            np.argsort(-1 * np.argmax(reach[offset:, ::-1], axis=1))\n            + offset\n        )"),
    B("c02-sweep-ratios-hoisted", REPEX, "            temp_left = prob_left[temp]\n            temp_right = prob_right[temp]\n", "", "R-2.13", control=True, also=[(REPEX, "        temp = np.where(current_state == 1)\n", "        temp = np.where(current_state == 1)\n        temp_left = prob_left[temp]\n        temp_right = prob_right[temp]\n")], why="seeded C02_i"),
    B("c02-budget-clamped-before-subtraction", REPEX, "            total_traj_prob -= ens\n            # force negative values to 0\n            total_traj_prob[np.where(total_traj_prob < 0)] = 0\n", "            # force negative values to 0\n            total_traj_prob[np.where(total_traj_prob < 0)] = 0\n            total_traj_prob -= ens\n", "R-2.12", control=True, why="seeded C05_k"),
    B("c02-budget-never-clamped", REPEX, "            total_traj_prob[np.where(total_traj_prob < 0)] = 0\n", "", "R-2.12"),
    K("c02-keep-budget-clamp-maximum", REPEX, "            total_traj_prob[np.where(total_traj_prob < 0)] = 0\n", "            total_traj_prob = np.maximum(total_traj_prob, 0)\n"),
    K("c02-keep-budget-clamp-mask", REPEX, "            total_traj_prob[np.where(total_traj_prob < 0)] = 0\n", "            total_traj_prob[total_traj_prob < 0] = 0\n"),
    B("c02-minus-only-guard-strict", REPEX, "if len(sorted_non_locked_T) <= offset:", "if len(sorted_non_locked_T) < offset:", "R-2.11", control=True, why="seeded C02_f"),
    # R-2.1
    B("c02-sort-reads-stale-matrix", REPEX, "        self._last_prob = None\n        self.prob\n\n    def lock(self, ens):", "        self.prob\n\n    def lock(self, ens):", "R-2.1", control=True, why="swaps of the re-sort without invalidation"),
    B("c02-lock-without-invalidation", REPEX, "        # invalidate last prob\n        self._last_prob = None\n        assert self._locks[ens] == 0", "        assert self._locks[ens] == 0", "R-2.1", control=True),
    B("c02-read-between-swap-and-lock", REPEX, "        self.swap(traj, ens)\n        self.lock(ens)\n        return self._trajs[ens]", "        self.swap(traj, ens)\n        logger.debug(str(self.prob))\n        self.lock(ens)\n        return self._trajs[ens]", "R-2.1"),
    B("c02-direct-state-write-in-treat-output", REPEX, "        self.sort_trajstate()\n        self.config[\"current\"][\"traj_num\"] = traj_num", "        self.sort_trajstate()\n        self.state[0, :] = abs(self.state[0, :])\n        self.config[\"current\"][\"traj_num\"] = traj_num", "R-2.1"),
    B("c02-insert-without-any-invalidation", REPEX, "        # invalidate last prob\n        self._last_prob = None\n        self._trajs[ens] = traj", "        self._trajs[ens] = traj", "R-2.1",
      also=[(REPEX, "        # invalidate last prob\n        self._last_prob = None\n        assert self._locks[ens] == 1", "        assert self._locks[ens] == 1")]),
    B("c02-cache-set-elsewhere", REPEX, "        self.sort_trajstate()\n        self.config[\"current\"][\"traj_num\"] = traj_num", "        self.sort_trajstate()\n        self._last_prob = np.eye(self.n)\n        self.config[\"current\"][\"traj_num\"] = traj_num", "R-2.1"),
    K("c02-keep-insert-relies-on-unlock", REPEX, "        # invalidate last prob\n        self._last_prob = None\n        self._trajs[ens] = traj", "        self._trajs[ens] = traj", why="unlock() invalidates after the writes and before the read"),
    K("c02-keep-swap-invalidates-itself", REPEX, "        self._trajs[traj] = temp1\n", "        self._trajs[traj] = temp1\n        self._last_prob = None\n"),
    # R-2.2
    B("c02-getter-ignores-busy-flags", REPEX, "            prob = self.inf_retis(abs(self.state), self._locks)", "            prob = self.inf_retis(abs(self.state), np.zeros_like(self._locks))", "R-2.2", control=True),
    # R-2.3
    B("c02-columns-of-busy-ensembles-kept", REPEX, "        non_locked = input_mat[~bool_locks, :][:, ~bool_locks]", "        non_locked = input_mat[~bool_locks, :][:, bool_locks]", "R-2.3", control=True),
    B("c02-zeros-inserted-on-one-axis-twice", REPEX, "        final_out = np.insert(final_out_rows, insert_list, 0, axis=1)", "        final_out = np.insert(final_out_rows, insert_list, 0, axis=0)", "R-2.3"),
    B("c02-ones-inserted-for-busy", REPEX, "        final_out_rows = np.insert(out, insert_list, 0, axis=0)", "        final_out_rows = np.insert(out, insert_list, 1, axis=0)", "R-2.3"),
    B("c02-insert-positions-count-busy", REPEX, "            if lock:\n                insert_list.append(i)\n            else:\n                i += 1", "            if not lock:\n                insert_list.append(i)\n            else:\n                i += 1", "R-2.3"),
    K("c02-keep-mask-astype", REPEX, "        bool_locks = locks == 1", "        bool_locks = locks.astype(bool)"),
    K("c02-keep-insert-order-swapped", REPEX, "        final_out_rows = np.insert(out, insert_list, 0, axis=0)", "        final_out_rows = np.insert(out, insert_list, 0, axis=1)", also=[(REPEX, "        final_out = np.insert(final_out_rows, insert_list, 0, axis=1)", "        final_out = np.insert(final_out_rows, insert_list, 0, axis=0)")]),
    # R-2.4
    B("c02-sort-applied-twice", REPEX, "        out[sort_idx] = out.copy()  # COPY REQUIRED TO NOT BRAKE STATE!!!", "        out = out[sort_idx]", "R-2.4", control=True),
    # R-2.5
    B("c02-minus-block-written-unreversed", REPEX, "            out[:offset, ::-1] = self.quick_prob(", "            out[:offset, :] = self.quick_prob(", "R-2.5", control=True),
    B("c02-permanent-block-written-to-diagonal-window", REPEX, "                    temp = self.permanent_prob(subarr)\n                    out[start:stop, cstart:cstop:direction] = temp", "                    temp = self.permanent_prob(subarr)\n                    out[start:stop, start:stop] = temp", "R-2.5"),
    # R-2.6
    B("c02-minor-removes-row-twice", REPEX, "                columns = [r for r in range(n) if r != j]", "                columns = [r for r in range(n) if r != i]", "R-2.6", control=True),
    B("c02-entry-weighted-transposed", REPEX, "                out[i][j] = f * scaled_arr[i][j]", "                out[i][j] = f * scaled_arr[j][i]", "R-2.6"),
    B("c02-rescale-by-global-maximum", REPEX, "            scaled_arr[i, :] /= np.max(scaled_arr[i, :])", "            scaled_arr[i, :] /= np.max(scaled_arr)", "R-2.6"),
    B("c02-rescale-in-place", REPEX, "        scaled_arr = arr.copy()", "        scaled_arr = arr", "R-2.6"),
    B("c02-fast-path-uses-weights", REPEX, "        working_mat = np.where(arr != 0, 1, 0)  # convert non-zero numbers to 1", "        working_mat = np.where(arr != 0, arr, 0)", "R-2.7", control=True),
    B("c02-fast-path-column-without-pattern", REPEX, "            out_mat[:, -(i + 1)] = ens\n", "            out_mat[:, -(i + 1)] = total_traj_prob / max(total_traj_prob.sum(), 1)\n", "R-2.7"),
    B("c02-plus-block-split-with-full-offset", REPEX, "                sorted_non_locked_T[:, offset:][\n                    np.where(\n                        sorted_non_locked_T[:, offset:]\n                        != sorted_non_locked_T[offset, offset:]", "                sorted_non_locked_T[:, self._offset :][\n                    np.where(\n                        sorted_non_locked_T[:, self._offset :]\n                        != sorted_non_locked_T[offset, self._offset :]", "R-2.8", control=True, why="seeded C02_c"),
    B("c02-blocks-with-full-offset", REPEX, "            blocks = self.find_blocks(sorted_non_locked, offset=offset)", "            blocks = self.find_blocks(sorted_non_locked, offset=self._offset)", "R-2.8"),
    B("c02-mask-sliced-with-reduced-offset", REPEX, "        offset = self._offset - sum(bool_locks[: self._offset])\n", "        offset = self._offset - sum(bool_locks[: self._offset])\n        n_busy_minus = sum(bool_locks[:offset])\n", "R-2.8"),
    B("c02-montecarlo-divisor-off-by-one", REPEX, "        return out / (n + 1)\n", "        return out / n\n", "R-2.9", control=True, why="seeded C05_h"),
    K("c02-keep-montecarlo-from-zeros", REPEX, "        out = np.eye(len(arr), dtype=\"longdouble\")\n        current_state = np.eye(len(arr))", "        out = np.zeros((len(arr), len(arr)), dtype=\"longdouble\")\n        current_state = np.eye(len(arr))", also=[(REPEX, "        return out / (n + 1)\n", "        return out / n\n")]),
    B("c02-exact-kernel-threshold-on-whole-matrix", REPEX, "                elif len(subarr) <= 12:", "                elif len(sorted_non_locked) <= 12:", "R-2.10", control=True, why="seeded C02_e"),
    K("c02-keep-tuple-index-store", REPEX, "                out[i][j] = f * scaled_arr[i][j]", "                out[i, j] = f * scaled_arr[i, j]"),
]
