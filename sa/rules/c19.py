"""C19 - configuration / trajectory codecs are lossless (layout agreement only).

Writer/reader layout agreement by constant folding and format-string
parsing; reverse-velocity siblings negate velocities and nothing else.
Round-trip equality of values and the template editors are not decided.
"""

from __future__ import annotations

import ast
import string

from ..flow import deref, flow_of, path_of
from ..loader import FUNC, AnalysisError, const_fold, dotted, last_name, loc, short, walk_local
from ..cfg import cfg_of
from ..util import ASE, CP2K, ENGBASE, ENGPARTS, GROMACS, LAMMPS, TURTLE, kwarg, loops_of, oriented
from ..variants import B, K

EXPLANATION = (
    "(R-19.1) g96: the width of every float field of _G96_FMT equals the slice "
    "width used by read_gromos96_file, the number of float fields equals the "
    "number of slices taken and the first slice starts where the writer's text "
    "prefix ends; box formats have 9/3 fields matching the len(box) dispatch; "
    "(R-19.2) xyz: _XYZ_BIG_VEL_FMT has as many fields as the reader has "
    "column keys, the 'Box:' header token is the one searched (case-folded), "
    "the writer emits the 2 header lines per frame that the on-the-fly reader "
    "counts; (R-19.3) lammpstrj: header line count and column slices agree "
    "across write_lammpstrj, read_lammpstrj, lammpstrj_reader and the "
    "mandatory dump line of check_lammps_input; (R-19.4) TRR: 13 integers + 2 "
    "reals = len(_HEAD_ITEMS), TRR_DATA_ITEMS lists exactly the <key>_size "
    "fields consumed by read_trr_data in file order, swap_endian is an "
    "involution, both precisions dispatch on `double` in read_matrix and "
    "read_coord; (R-19.5) every _reverse_velocities writes the positions, box "
    "and identities it read and the negated velocities."
)
NOT_DECIDED = (
    "equality of values to the written precision; extraction of frame k of a multi-frame file by value; "
    "idempotence and locality of the three template editors (_modify_input, update_cp2k_input, write_for_run)"
)
ASSUMPTIONS = ["GROMOS96 BOX record order xx yy zz xy xz yx yz zx zy (format specification, frozen with this reason)", "GROMOS96 fixed-column layout: 24-character record prefix, %15.9f fields (format specification, frozen with this reason)", "str.format / struct format semantics", "numpy.genfromtxt(skip_header=, max_rows=) semantics"]


def _fields(fmt):
    return [(name, spec) for _, name, spec, _ in string.Formatter().parse(fmt) if name is not None]


def _width(spec):
    digits = ""
    for ch in spec.lstrip("<>^=+- #0"):
        if ch.isdigit():
            digits += ch
        else:
            break
    return int(digits) if digits else None


def _local_consts(f):
    out = {}
    for n in walk_local(f):
        if isinstance(n, ast.Assign) and len(n.targets) == 1 and isinstance(n.targets[0], ast.Name):
            try:
                out[n.targets[0].id] = ast.Constant(const_fold(n.value, out))
            except (ValueError, TypeError):
                pass
    return out


def _literal_between(fmt, i):
    """Literal text between replacement field i-1 and field i of a format string contains a blank."""
    import string as _string
    parts = list(_string.Formatter().parse(fmt))
    # parts[k] = (literal before field k, name, spec, conv)
    return i < len(parts) and parts[i][0] is not None and any(ch.isspace() for ch in parts[i][0])


def _iter_of(func, comp):
    """Iterable of a comprehension's first generator, followed through a local (`columns = range(...)`)."""
    it = comp.generators[0].iter
    if isinstance(it, ast.Name):
        from ..flow import deref as _deref, flow_of as _flow_of
        fl = _flow_of(func)
        try:
            it2, _ = _deref(fl, it, fl.cfg.node_of(comp))
        except AnalysisError:
            return it
        return it2
    return it


def r191(ctx):
    rid = "R-19.1"
    tree = ctx.tree
    mod = tree.mod(GROMACS)
    try:
        fmt = const_fold(mod.consts["_G96_FMT"], mod.consts)
        b9 = const_fold(mod.consts["_G96_BOX_FMT"], mod.consts)
        b3 = const_fold(mod.consts["_G96_BOX_FMT_3"], mod.consts)
    except (KeyError, ValueError) as exc:
        raise AnalysisError(f"R-19.1: g96 format constants not foldable: {exc}")
    fs = _fields(fmt)
    floats = [(n, s) for n, s in fs if s and s.endswith("f")]
    rd = tree.func(GROMACS, "read_gromos96_file")
    lc = _local_consts(rd)
    # roles by use: field width = step of the range that drives the float slices (and the slice width);
    # prefix width = the non-zero start of such a range = the upper bound of the text-prefix slice
    wname = pname = None
    for n in walk_local(rd):
        if isinstance(n, ast.ListComp) and any(isinstance(c, ast.Call) and last_name(c) == "float" and c.args and isinstance(c.args[0], ast.Subscript) and isinstance(c.args[0].slice, ast.Slice) for c in ast.walk(n.elt)):
            it = _iter_of(rd, n)
            if isinstance(it, ast.Call) and last_name(it) == "range" and len(it.args) == 3:
                if isinstance(it.args[2], ast.Name):
                    wname = it.args[2].id
                if isinstance(it.args[0], ast.Name):
                    pname = it.args[0].id
    # a record block (loop over rawdata[<key>]) whose numbers are taken by whitespace tokens: decided by
    # the writer's format - float fields that follow each other without a literal blank cannot be
    # recovered by .split() once a value fills its field
    sep_free = [i for i in range(1, len(fs)) if fs[i][1] and fs[i][1].endswith("f") and fs[i - 1][1] and fs[i - 1][1].endswith("f") and not _literal_between(fmt, i)]
    tokenised = []
    for n in walk_local(rd):
        if isinstance(n, ast.ListComp) and any(isinstance(c, ast.Call) and last_name(c) == "float" for c in ast.walk(n.elt)):
            it = n.generators[0].iter
            if isinstance(it, ast.Call) and isinstance(it.func, ast.Attribute) and it.func.attr == "split" and not it.args:
                for L in loops_of(n):
                    if isinstance(L, ast.For) and isinstance(L.iter, ast.Subscript) and not isinstance(L.iter.slice, ast.Constant) and "rawdata" in ast.unparse(L.iter.value):
                        tokenised.append((n, L))
    for n, L in tokenised:
        if sep_free:
            ctx.bad(rid, n, f"g96: the numbers of the `{short(L.iter, 30)}` records are taken by whitespace tokens (`{short(n, 60)}`) although the writer's format {fmt!r} puts the float fields next to each other without a blank: a value that fills its 15-character field (|x| >= 10000, or x <= -1000) is glued to its neighbour and the line written by write_gromos96_file / GROMACS cannot be read back",
                    construct=f"read_gromos96_file: {short(L.iter, 30)} parsed by .split()")
        else:
            ctx.ok(rid, n, f"g96: `{short(L.iter, 30)}` records are tokenised by blanks and the writer separates all float fields by a literal blank")
    if tokenised and (wname not in lc or pname not in lc):
        return
    if wname not in lc or pname not in lc:
        raise AnalysisError("R-19.1: the field width / prefix width locals of read_gromos96_file were not found (range(start, stop, step) of the float slices)")
    _len, _pos = lc[wname].value, lc[pname].value
    # GROMOS96 POSITION/VELOCITY records are fixed-column: "%5d %-5s %-5s%7d" (24 characters) then 3 x %15.9f
    if (_pos, _len) == (24, 15):
        ctx.ok(rid, rd, "g96: reader columns (prefix 24, fields 15) are those of the GROMOS96 format written by GROMACS")
    else:
        ctx.bad(rid, rd, f"g96: reader uses prefix width {_pos} / field width {_len}; GROMOS96 records written by GROMACS have a 24-character prefix and 15-character fields",
                construct=f"_pos = {_pos}, _len = {_len}")
    widths = {_width(s) for _, s in floats}
    if widths == {_len}:
        ctx.ok(rid, mod.consts["_G96_FMT"], f"g96: every float field is {_len} wide = the reader's slice width")
    else:
        ctx.bad(rid, mod.consts["_G96_FMT"], f"g96: writer float field widths {sorted(widths)} differ from the reader's slice width {_len}: numbers are cut at the wrong columns",
                construct=f"_G96_FMT widths {sorted(w for w in widths if w)} vs _len {_len}")
    # slices taken by the reader
    nsl = []
    starts = []
    for n in walk_local(rd):
        if isinstance(n, ast.ListComp) and any(isinstance(c, ast.Call) and last_name(c) == "float" and c.args and isinstance(c.args[0], ast.Subscript) and isinstance(c.args[0].slice, ast.Slice) for c in ast.walk(n.elt)):
            it = _iter_of(rd, n)
            try:
                rng = eval(compile(ast.Expression(ast.fix_missing_locations(ast.Call(func=ast.Name("list", ast.Load()), args=[it], keywords=[]))), "<r>", "eval"), {"list": list, "range": range, wname: _len, pname: _pos})
            except Exception as exc:
                raise AnalysisError(f"R-19.1: cannot fold the reader's slice range {short(it, 40)}: {exc}")
            nsl.append(len(rng))
            starts.append(rng[0] if rng else None)
    if nsl and all(x == len(floats) for x in nsl):
        ctx.ok(rid, rd, f"g96: reader takes {nsl} slices per line = {len(floats)} float fields written")
    else:
        ctx.bad(rid, rd, f"g96: reader takes {nsl} slices per line but the writer formats {len(floats)} float fields")
    if starts and _pos in starts:
        # the writer's prefix is the text the reader cut at _pos
        wr = tree.func(GROMACS, "write_gromos96_file")
        # the writer formats (<raw text item>, x, y, z): the first argument is the loop variable over the raw lines
        ok = False
        for c in walk_local(wr):
            if isinstance(c, ast.Call) and isinstance(c.func, ast.Attribute) and c.func.attr == "format" and "_G96_FMT" in ast.unparse(c.func.value) and c.args and isinstance(c.args[0], ast.Name):
                for L in loops_of(c):
                    if isinstance(L, ast.For) and c.args[0].id in {x.id for x in ast.walk(L.target) if isinstance(x, ast.Name)}:
                        ok = True
        pre = any(isinstance(n, ast.Subscript) and isinstance(n.slice, ast.Slice) and n.slice.lower is None and isinstance(n.slice.upper, ast.Name) and n.slice.upper.id == pname for n in walk_local(rd))
        if ok and pre:
            ctx.ok(rid, wr, f"g96: the writer's text prefix is the reader's line[:_pos] (= {_pos} characters), the first float slice starts at {_pos}")
        else:
            ctx.bad(rid, wr, "g96: the text prefix written in front of the numbers is not the prefix the reader cut at _pos")
    else:
        ctx.bad(rid, rd, f"g96: the float slices start at {starts} but the prefix ends at {_pos}")
    n9, n3 = len(_fields(b9)), len(_fields(b3))
    wr = tree.func(GROMACS, "write_gromos96_file")
    bpar = [p.arg for p in wr.args.args]
    # which format is used under which truth value of `len(box) == 3` (facts of the CFG, so that
    # `if len(box) != 3` / inverted branches are the same thing)
    wcfg = cfg_of(wr)
    use = {}
    for nm in [x for x in walk_local(wr) if isinstance(x, ast.Name) and x.id in ("_G96_BOX_FMT_3", "_G96_BOX_FMT")]:
        facts_ = [(e, t) for e, t, bn in wcfg.guards(wcfg.node_of(nm))]
        # a conditional expression selects like an if statement
        par_, child_ = getattr(nm, "_parent", None), nm
        while par_ is not None and not isinstance(par_, ast.stmt):
            if isinstance(par_, ast.IfExp) and child_ is not par_.test:
                facts_.append((par_.test, child_ is par_.body))
            par_, child_ = getattr(par_, "_parent", None), par_
        for e, t in facts_:
            o = oriented(e, lambda x: isinstance(x, ast.Call) and last_name(x) == "len")
            if o is not None and isinstance(o[2], ast.Constant) and o[2].value == 3 and isinstance(o[1], (ast.Eq, ast.NotEq)):
                is3 = t if isinstance(o[1], ast.Eq) else (not t)
                use.setdefault(nm.id, set()).add(is3)
    disp = [n for n in walk_local(wr) if isinstance(n, ast.If)]
    if n9 == 9 and n3 == 3 and use.get("_G96_BOX_FMT_3") == {True} and use.get("_G96_BOX_FMT") == {False}:
        ctx.ok(rid, disp[0] if disp else wr, "g96 box: 3-field format for len(box) == 3, 9-field format otherwise")
    else:
        ctx.bad(rid, wr, f"g96 box: formats have {n3}/{n9} fields or the len(box) dispatch does not select them consistently")


def _expand_arith_locals(e, f, depth=4):
    """e with every local name replaced by its definition when that local has exactly one
    assignment in f and the assigned value is pure integer arithmetic over names and constants
    (`frame_start = block_size * frame`): hoisting such a product into a local must not change
    what a rule sees."""
    import copy as _copy
    defs = {}
    for n in walk_local(f):
        if isinstance(n, ast.Assign) and len(n.targets) == 1 and isinstance(n.targets[0], ast.Name):
            defs.setdefault(n.targets[0].id, []).append(n.value)

    def pure(v):
        return all(isinstance(x, (ast.BinOp, ast.Name, ast.Constant, ast.Add, ast.Sub, ast.Mult, ast.Load, ast.UnaryOp, ast.USub)) for x in ast.walk(v))

    class R(ast.NodeTransformer):
        def visit_Name(self, node):
            vs = defs.get(node.id)
            if vs and len(vs) == 1 and pure(vs[0]) and isinstance(node.ctx, ast.Load):
                return _copy.deepcopy(vs[0])
            return node

    out = _copy.deepcopy(e)
    for _ in range(depth):
        before = ast.dump(out)
        out = R().visit(out)
        if ast.dump(out) == before:
            break
    return ast.fix_missing_locations(out)


def _mod_block_name(f):
    """Name on the right of `<index> % <block>` in f (the block-size variable), or None."""
    for b in walk_local(f):
        if isinstance(b, ast.BinOp) and isinstance(b.op, ast.Mod) and isinstance(b.right, ast.Name):
            return b.right.id
    return None


def _const_offset(f, name):
    """Constant term of the linear definition `name = <something> + k` (largest one found)."""
    best = None
    for n in walk_local(f):
        if isinstance(n, ast.Assign) and isinstance(n.targets[0], ast.Name) and n.targets[0].id == name and isinstance(n.value, ast.BinOp):
            lf = _lin_names(n.value)
            if lf is not None and any(k for k in lf if k):
                best = lf.get(frozenset(), 0)
    return best


def r192(ctx):
    rid = "R-19.2"
    tree = ctx.tree
    mod = tree.mod(ENGPARTS)
    try:
        fmt = const_fold(mod.consts["_XYZ_BIG_VEL_FMT"], mod.consts)
    except (KeyError, ValueError) as exc:
        raise AnalysisError(f"R-19.2: xyz format constant not foldable: {exc}")
    nf = len(_fields(fmt))
    rx = tree.func(ENGPARTS, "read_xyz_file")
    keys = None
    for n in walk_local(rx):
        if isinstance(n, ast.Assign) and isinstance(n.value, (ast.Tuple, ast.List)):
            try:
                k_ = const_fold(n.value)
            except ValueError:
                continue
            if all(isinstance(x, str) for x in k_) and {"x", "y", "z"} <= set(k_):
                keys = k_
    wr = tree.func(ENGPARTS, "write_xyz_trajectory")
    call = [c for c in walk_local(wr) if isinstance(c, ast.Call) and isinstance(c.func, ast.Attribute) and c.func.attr == "format" and "_XYZ_BIG_VEL_FMT" in ast.unparse(c.func.value)]
    if keys and nf == len(keys) and call and len(call[0].args) == nf:
        ctx.ok(rid, call[0], f"xyz: {nf} format fields = {len(keys)} reader columns {keys}; {len(call[0].args)} values formatted")
    else:
        ctx.bad(rid, wr, f"xyz: writer formats {nf} fields / {len(call[0].args) if call else '?'} values but the reader maps {len(keys) if keys else '?'} columns")
    # column order: name, pos x y z, vel x y z
    if call:
        wfl_ = flow_of(wr)
        a = [ast.unparse(deref(wfl_, x, wfl_.cfg.node_of(call[0]))[0]) for x in call[0].args]
        wp = [p.arg for p in wr.args.args]  # (filename, pos, vel, names, box, ...)
        lv = None
        for L in loops_of(call[0]):
            if isinstance(L, ast.For):
                t_ = L.target.elts[0] if isinstance(L.target, ast.Tuple) else L.target
                if isinstance(t_, ast.Name):
                    lv = t_.id
                    break
        want = [f"{wp[3]}[{lv}]"] + [f"{wp[1]}[{lv}, {k}]" for k in range(3)] + [f"{wp[2]}[{lv}, {k}]" for k in range(3)]
        if a == want:
            ctx.ok(rid, call[0], "xyz: columns written as name, x, y, z, vx, vy, vz - the reader's key order")
        else:
            ctx.bad(rid, call[0], f"xyz: columns are written as {a} but the reader assigns them to {list(keys) if keys else '?'} in order", construct="xyz column order: " + ", ".join(a))
    # box token
    hdr = [n for n in walk_local(wr) if isinstance(n, ast.JoinedStr) and any(isinstance(v, ast.Constant) and "ox:" in str(v.value) for v in n.values)]
    gb = tree.func(ENGPARTS, "get_box_from_header")
    toks = {c.args[0].value for c in walk_local(gb) if isinstance(c, ast.Call) and isinstance(c.func, ast.Attribute) and c.func.attr in ("find", "split") and c.args and isinstance(c.args[0], ast.Constant)}
    lowered = any(isinstance(c, ast.Call) and isinstance(c.func, ast.Attribute) and c.func.attr == "lower" for c in walk_local(gb))
    wtok = None
    for n in hdr:
        for v in n.values:
            if isinstance(v, ast.Constant) and "ox:" in str(v.value):
                wtok = v.value.strip().split()[0]
    if wtok and lowered and toks == {wtok.lower()}:
        ctx.ok(rid, gb, f"xyz: header token written {wtok!r} is the token searched {sorted(toks)} (case-folded)")
    else:
        ctx.bad(rid, gb, f"xyz: the box header token written ({wtok!r}) is not the one the reader searches for ({sorted(toks)}, lower-cased: {lowered})")
    # header lines per frame
    writes_before = 0
    loop = [n for n in walk_local(wr) if isinstance(n, ast.For)]
    for n in walk_local(wr):
        if isinstance(n, ast.Call) and isinstance(n.func, ast.Attribute) and n.func.attr == "write" and not any(n in list(walk_local(l)) for l in loop):
            writes_before += 1
    xr = tree.func(ENGPARTS, "xyz_reader")
    bname = _mod_block_name(xr)
    blk = _const_offset(xr, bname) if bname else None
    if blk == writes_before == 2:
        ctx.ok(rid, xr, "xyz: 2 header lines written per frame = N + 2 lines per block expected by the on-the-fly reader")
    else:
        ctx.bad(rid, xr, f"xyz: writer emits {writes_before} header line(s) per frame, the on-the-fly reader expects N + {blk}")


def r193(ctx):
    rid = "R-19.3"
    tree = ctx.tree
    wr = tree.func(LAMMPS, "write_lammpstrj")
    # header lines: newlines in the literal + box loop (3) + atoms header
    lits = [n for n in walk_local(wr) if isinstance(n, (ast.JoinedStr, ast.Constant)) and "ITEM" in ast.unparse(n)]
    txt = ""
    for n in walk_local(wr):
        if isinstance(n, ast.JoinedStr):
            for v in n.values:
                if isinstance(v, ast.Constant):
                    txt += v.value
        elif isinstance(n, ast.Constant) and isinstance(n.value, str) and "ITEM" in n.value and not isinstance(getattr(n, "_parent", None), ast.JoinedStr):
            txt += n.value
    H = txt.count("\n") + 3
    rd = tree.func(LAMMPS, "read_lammpstrj")
    lc = {}
    consts = []
    shs = [kwarg(n, "skip_header") for n in walk_local(rd) if isinstance(n, ast.Call) and dotted(n.func) == "np.genfromtxt"]
    rparams = [a.arg for a in rd.args.args]  # (infile, frame, n_atoms)
    frp = rparams[1] if len(rparams) > 1 else "frame"
    for sh in shs:
        lf = _lin_names(_expand_arith_locals(sh, rd)) if sh is not None else None
        if lf is not None:
            consts.append(("skip", lf.get(frozenset(), 0)))
            # block size = coefficient of the frame number: <n_atoms> + H
            h = lf.get(frozenset([frp]))
            if h is not None:
                consts.append(("block", h))
    consts = sorted(set(consts), key=lambda x: (x[0], x[1]))
    blk = [v for k, v in consts if k == "block"]
    skips = sorted(v for k, v in consts if k == "skip")
    if blk == [H] and skips == [5, H]:
        ctx.ok(rid, rd, f"lammpstrj: writer emits {H} non-atom lines; read_lammpstrj uses block = n + {blk[0]}, box at +{skips[0]}, atoms at +{skips[1]}")
    else:
        ctx.bad(rid, rd, f"lammpstrj: writer emits {H} non-atom lines per frame but read_lammpstrj uses block = n + {blk}, skip_header offsets {skips}")
    perm = {n.targets[0].id for n in walk_local(rd) if isinstance(n, ast.Assign) and isinstance(n.targets[0], ast.Name) and isinstance(n.value, ast.Call) and last_name(n.value) == "argsort"}
    sl = sorted(ast.unparse(n.slice.elts[1]).replace(" ", "") for n in walk_local(rd) if isinstance(n, ast.Subscript) and isinstance(n.slice, ast.Tuple) and len(n.slice.elts) == 2 and isinstance(n.slice.elts[0], ast.Name) and n.slice.elts[0].id in perm)
    if sl == ["2:5", "5:8", ":2"]:
        ctx.ok(rid, rd, "lammpstrj: read_lammpstrj columns id/type = :2, positions = 2:5, velocities = 5:8")
    else:
        ctx.bad(rid, rd, f"lammpstrj: read_lammpstrj column slices {sl} do not match id type x y z vx vy vz")
    # writer row layout: id_type (2) + pos (3) + vel (3)
    wpar = [p.arg for p in wr.args.args]  # (outfile, id_type, pos, vel, box, ...)
    row = [n for n in walk_local(wr) if isinstance(n, ast.For) and ast.unparse(n.iter) == f"zip({wpar[1]}, {wpar[2]}, {wpar[3]})"]
    if row:
        ctx.ok(rid, row[0], "lammpstrj: rows are written as id/type, position, velocity")
    else:
        ctx.bad(rid, wr, "lammpstrj: rows are not written in the order id/type, position, velocity")
    # on-the-fly reader
    of = tree.func(ENGPARTS, "lammpstrj_reader")
    bname2 = _mod_block_name(of)
    blk2 = _const_offset(of, bname2) if bname2 else None
    # roles of the locals by construction: line number within the block = <index> % <block>; tokens = <line>.split(); index = enumerate variable of the line loop
    lnr = {n.targets[0].id for n in walk_local(of) if isinstance(n, ast.Assign) and isinstance(n.targets[0], ast.Name) and isinstance(n.value, ast.BinOp) and isinstance(n.value.op, ast.Mod)}
    toks_ = {n.targets[0].id for n in walk_local(of) if isinstance(n, ast.Assign) and isinstance(n.targets[0], ast.Name) and isinstance(n.value, ast.Call) and last_name(n.value) == "split"}
    from .c13 import _line_loop
    _loop, idxv, _linev = _line_loop(of)
    cmps = {}
    for n in walk_local(of):
        if isinstance(n, ast.Compare) and isinstance(n.left, ast.Name) and n.left.id in lnr and isinstance(n.comparators[0], ast.Constant):
            cmps.setdefault(type(n.ops[0]).__name__, []).append(n.comparators[0].value)
        if isinstance(n, ast.Compare) and isinstance(n.left, ast.Call) and last_name(n.left) == "len" and n.left.args and isinstance(n.left.args[0], ast.Name) and n.left.args[0].id in toks_ and isinstance(n.comparators[0], ast.Constant):
            cmps.setdefault("ncols", []).append(n.comparators[0].value)
    # column counts accepted for a box-bounds line: orthogonal dumps have 2 columns, triclinic ones 3 (xy xz yz)
    ncol_names = {n.targets[0].id for n in walk_local(of) if isinstance(n, ast.Assign) and isinstance(n.targets[0], ast.Name) and isinstance(n.value, ast.Call) and last_name(n.value) == "len" and n.value.args and isinstance(n.value.args[0], ast.Name) and n.value.args[0].id in toks_}

    def _is_ncols(e):
        return (isinstance(e, ast.Name) and e.id in ncol_names) or (isinstance(e, ast.Call) and last_name(e) == "len" and e.args and isinstance(e.args[0], ast.Name) and e.args[0].id in toks_)

    box_counts = None
    for n in walk_local(of):
        if isinstance(n, ast.Compare) and len(n.ops) == 1 and _is_ncols(n.left):
            c0 = n.comparators[0]
            if isinstance(n.ops[0], (ast.In, ast.NotIn)) and isinstance(c0, (ast.List, ast.Tuple, ast.Set)) and all(isinstance(e_, ast.Constant) and isinstance(e_.value, int) for e_ in c0.elts):
                box_counts = (sorted(e_.value for e_ in c0.elts), n)
            elif isinstance(n.ops[0], (ast.Eq, ast.NotEq)) and isinstance(c0, ast.Constant) and c0.value in (2, 3):
                box_counts = ([c0.value], n)
    if box_counts is None:
        raise AnalysisError("R-19.3: the column-count test of the box-bounds lines of lammpstrj_reader was not found (cannot decide)")
    if box_counts[0] == [2, 3]:
        ctx.ok(rid, box_counts[1], "lammpstrj: a box-bounds line is complete with 2 (orthogonal) or 3 (triclinic: tilt factor) columns")
    else:
        ctx.bad(rid, box_counts[1], f"lammpstrj: the on-the-fly reader accepts a box-bounds line only with {box_counts[0]} column(s): the writer (and LAMMPS itself, `ITEM: BOX BOUNDS xy xz yz`) produces 2 or 3 - complete lines of the other layout are taken for partial writes, the reader returns early at every poll and never delivers a frame", construct="lammpstrj_reader: box line column counts " + str(box_counts[0]))
    cols = [ast.unparse(n.slice) for n in walk_local(of) if isinstance(n, ast.Subscript) and isinstance(n.value, ast.Name) and n.value.id in toks_ and isinstance(n.slice, ast.Slice)]
    natoms_line = [n.comparators[0].value for n in walk_local(of) if isinstance(n, ast.Compare) and isinstance(n.left, ast.Name) and n.left.id == idxv and isinstance(n.ops[0], ast.Eq) and isinstance(n.comparators[0], ast.Constant)]
    ok = blk2 == H and sorted(cmps.get("GtE", [])) == [5, H] and cmps.get("LtE") == [7] and [v for v in cmps.get("ncols", []) if v not in (2, 3)] == [9] and cols == ["2:8"] and 3 in natoms_line
    if ok:
        ctx.ok(rid, of, f"lammpstrj: on-the-fly reader block = N + {blk2}, atom count on line 3, box lines 5..7, atoms from {H}, 9 columns, data = spl[2:8]")
    else:
        ctx.bad(rid, of, f"lammpstrj: on-the-fly reader layout (block N + {blk2}, comparisons {cmps}, slices {cols}, atom-count line {natoms_line}) does not match the dump layout with {H} non-atom lines and 9 columns")
    ci = tree.func(LAMMPS, "check_lammps_input")
    dump = None
    for n in walk_local(ci):
        if isinstance(n, ast.Constant) and isinstance(n.value, str) and " id type " in " " + n.value + " ":
            toks = n.value.split()
            dump = toks[toks.index("id"):]
    if dump and len(dump) == 9 and dump[0] == dump[-1] == "id" and dump[2:8] == ["x", "y", "z", "vx", "vy", "vz"]:
        ctx.ok(rid, ci, "lammpstrj: the mandatory dump line has 9 tokens `id type x y z vx vy vz id` (sentinel id last)")
    else:
        ctx.bad(rid, ci, f"lammpstrj: the mandatory dump line {dump} is not `id type x y z vx vy vz id`: the on-the-fly reader's column test and sentinel no longer match")


def _trr_dtype_form(ctx, rid, g, gp):
    """read_matrix / read_coord written with a NumPy dtype instead of a struct format: the dtype
    carries the byte order the header detected and the precision selected by `double`."""
    fn = g.name
    endian = next((p_ for p_ in gp if "endian" in p_), None)
    dbl = next((p_ for p_ in gp if "double" in p_), None)
    if endian is None or dbl is None:
        raise AnalysisError(f"R-19.4: {fn} does not take (endian, double) (cannot decide)")
    # a discarded newbyteorder(): dtype objects are immutable, the call returns a new dtype
    for st in walk_local(g):
        if isinstance(st, ast.Expr) and isinstance(st.value, ast.Call) and last_name(st.value) == "newbyteorder":
            ctx.bad(rid, st, f"{fn}: the result of `{short(st.value, 40)}` is discarded - newbyteorder() returns a new dtype and leaves the old one unchanged, so the data block of a little-endian TRR file is decoded big-endian (header, sizes and box still decode correctly: silently wrong coordinates)", construct=f"{fn}: newbyteorder result discarded")
            return
    order_ok = False
    for x in walk_local(g):
        if isinstance(x, ast.JoinedStr) and x.values and isinstance(x.values[0], ast.FormattedValue) and isinstance(x.values[0].value, ast.Name) and x.values[0].value.id == endian:
            order_ok = True
        if isinstance(x, ast.Assign) and isinstance(x.value, ast.Call) and last_name(x.value) == "newbyteorder" and x.value.args and isinstance(x.value.args[0], ast.Name) and x.value.args[0].id == endian:
            order_ok = True
        if isinstance(x, ast.BinOp) and isinstance(x.op, ast.Add) and isinstance(x.left, ast.Name) and x.left.id == endian:
            order_ok = True
    if not order_ok:
        ctx.bad(rid, g, f"{fn}: the dtype used to decode the block does not carry the byte order `{endian}` detected from the header: little-endian TRR files decode to byte-swapped numbers", construct=f"{fn}: dtype without the file's byte order")
        return
    gcfg = cfg_of(g)
    prec = {}
    for x in walk_local(g):
        if isinstance(x, ast.IfExp) and isinstance(x.test, ast.Name) and x.test.id == dbl:
            for br, truth in ((x.body, True), (x.orelse, False)):
                t_ = ast.unparse(br)
                if "8" in t_ or t_.rstrip("'\"").endswith("d"):
                    prec.setdefault(8, set()).add(truth)
                if "4" in t_ or t_.rstrip("'\"").endswith("f"):
                    prec.setdefault(4, set()).add(truth)
        elif isinstance(x, (ast.JoinedStr, ast.Constant)) and isinstance(getattr(x, "_parent", None), (ast.Assign, ast.Call, ast.keyword)):
            t_ = ast.unparse(x).rstrip("'\"")
            try:
                nd_ = gcfg.node_of(x)
            except Exception:
                continue
            for e, t, bn in gcfg.guards(nd_):
                if isinstance(e, ast.Name) and e.id == dbl:
                    if t_.endswith("8") or t_.endswith("d"):
                        prec.setdefault(8, set()).add(t)
                    if t_.endswith("4") or t_.endswith("f"):
                        prec.setdefault(4, set()).add(t)
    if prec.get(8) == {True} and prec.get(4) == {False}:
        ctx.ok(rid, g, f"{fn}: dtype = file byte order + 8-byte floats under `{dbl}`, 4-byte floats otherwise")
    else:
        ctx.bad(rid, g, f"{fn} does not select 8-byte floats exactly under `{dbl}` and 4-byte floats otherwise ({prec})", construct=f"{fn}: precision dispatch of the dtype")


def r194(ctx):
    rid = "R-19.4"
    tree = ctx.tree
    mod = tree.mod(GROMACS)
    try:
        head_fmt = const_fold(mod.consts["_HEAD_FMT"], mod.consts)
        items = const_fold(mod.consts["_HEAD_ITEMS"], mod.consts)
        data_items = const_fold(mod.consts["TRR_DATA_ITEMS"], mod.consts)
    except (KeyError, ValueError) as exc:
        raise AnalysisError(f"R-19.4: TRR constants not foldable: {exc}")
    import re
    m = re.search(r"(\d+)i", head_fmt)
    nint = int(m.group(1)) if m else 0
    rh = tree.func(GROMACS, "read_trr_header")
    reals = set()
    for n in walk_local(rh):
        if isinstance(n, ast.JoinedStr):
            t = "".join(v.value for v in n.values if isinstance(v, ast.Constant))
            mm = re.fullmatch(r"(\d+)([df])", t)
            if mm:
                reals.add(int(mm.group(1)))
    if reals == {2} and nint + 2 == len(items):
        ctx.ok(rid, mod.consts["_HEAD_ITEMS"], f"TRR header: {nint} integers + 2 reals = {len(items)} header items")
    else:
        ctx.bad(rid, mod.consts["_HEAD_ITEMS"], f"TRR header: {nint} integers + {sorted(reals)} reals do not match {len(items)} header items: header fields are mis-assigned")
    # integer items assigned positionally
    if list(items[-2:]) == ["time", "lambda"] and all(i.endswith("_size") or i in ("natoms", "step", "nre") for i in items[:-2]):
        ctx.ok(rid, rh, "TRR header: the two reals are time and lambda, the integers come first")
    else:
        ctx.bad(rid, rh, "TRR header item table does not end with (time, lambda)")
    rt = tree.func(GROMACS, "read_trr_data")
    # which block is read by which decoder, in which order: the loops of read_trr_data run over constant
    # key tables, so they are unrolled here with the loop variable (and string locals derived from it) bound
    order, decoder = [], {}
    consts_ = tree.mod(GROMACS).consts

    def _sval(e, env):
        """value of a string expression over the bound loop variable, or None"""
        try:
            code = compile(ast.Expression(ast.fix_missing_locations(__import__("copy").deepcopy(e))), "<trr>", "eval")
            return eval(code, {"__builtins__": {}, "len": len, "str": str}, dict(env))
        except Exception:
            return None

    def _walk(stmts, env):
        for st in stmts:
            if isinstance(st, ast.Assign) and len(st.targets) == 1 and isinstance(st.targets[0], ast.Name):
                v = _sval(st.value, env)
                if isinstance(v, str):
                    env[st.targets[0].id] = v
            if isinstance(st, ast.If):
                t = _sval(st.test, env)
                if t is None or not isinstance(t, bool):
                    # a test on the header contents: both outcomes happen (`continue` in the true branch ends this key)
                    ends = any(isinstance(x, ast.Continue) for x in st.body)
                    _walk(st.body, dict(env)) if not ends else None
                    if st.orelse:
                        _walk(st.orelse, dict(env))
                    continue
                _walk(st.body if t else st.orelse, env)
                continue
            for c in [x for x in ast.walk(st) if isinstance(x, ast.Call) and last_name(x) in ("read_matrix", "read_coord")]:
                tgt = st.targets[0] if isinstance(st, ast.Assign) else None
                k = _sval(tgt.slice, env) if isinstance(tgt, ast.Subscript) else None
                if isinstance(k, str):
                    order.append(f"{k}_size")
                    decoder[k] = last_name(c)

    for n in rt.body:
        if isinstance(n, ast.For) and isinstance(n.target, ast.Name):
            try:
                keys = const_fold(n.iter, consts_)
            except (ValueError, KeyError):
                continue
            for k in keys:
                _walk(n.body, {n.target.id: k})
    want = {"box": "read_matrix", "vir": "read_matrix", "pres": "read_matrix", "x": "read_coord", "v": "read_coord", "f": "read_coord"}
    wrong = {k: d for k, d in decoder.items() if want.get(k) != d}
    if wrong:
        k0 = sorted(wrong)[0]
        ctx.bad(rid, rt, f"TRR data: the `{k0}` block is decoded by {wrong[k0]} (expected {want.get(k0)}): box, vir and pres are 3x3 matrices, x, v and f are natoms x 3 arrays - a frame that carries the block is read with the wrong number of reals, and every block after it (positions, velocities) from the wrong bytes",
                construct=f"read_trr_data: {k0} decoded by {wrong[k0]}")
    elif tuple(order) == tuple(data_items):
        ctx.ok(rid, rt, f"TRR data: bytes skipped/required = bytes read: TRR_DATA_ITEMS equals the <key>_size fields consumed by read_trr_data in file order {order}, each by its decoder")
    else:
        ctx.bad(rid, rt, f"TRR data: TRR_DATA_ITEMS {list(data_items)} differs from the blocks read_trr_data consumes {order}: size guards and skips disagree with what is read",
                construct=f"TRR_DATA_ITEMS {list(data_items)} vs read order {order}")
    for fn in ("skip_trr_data", "get_data"):
        g = tree.func(GROMACS, fn)
        if any(isinstance(c, ast.Call) and dotted(c.func) == "sum" and "TRR_DATA_ITEMS" in ast.unparse(c) for c in walk_local(g)):
            ctx.ok(rid, g, f"{fn}: byte count = sum over TRR_DATA_ITEMS")
        else:
            ctx.bad(rid, g, f"{fn} does not compute the frame's data size from TRR_DATA_ITEMS")
    se = tree.func(GROMACS, "swap_endian")
    mapping = {}
    scfg = cfg_of(se)
    for r_ in [x for x in walk_local(se) if isinstance(x, ast.Return) and isinstance(x.value, ast.Constant)]:
        for e, t, bn in scfg.guards(scfg.node_of(r_)):
            o = oriented(e, lambda x: isinstance(x, ast.Name))
            if t and o is not None and isinstance(o[1], ast.Eq) and isinstance(o[2], ast.Constant):
                mapping[o[2].value] = r_.value.value
    if mapping == {">": "<", "<": ">"}:
        ctx.ok(rid, se, "swap_endian is an involution on {'>', '<'}")
    else:
        ctx.bad(rid, se, f"swap_endian maps {mapping}: not an involution on the two byte orders")
    for fn in ("read_matrix", "read_coord"):
        g = tree.func(GROMACS, fn)
        # the format string ends in d under `double` and in f otherwise (CFG facts: orientation of the if does not matter)
        gcfg = cfg_of(g)
        gp = [a_.arg for a_ in g.args.args]
        seen_ = {}
        for s_ in [x for x in walk_local(g) if isinstance(x, (ast.JoinedStr, ast.Constant)) and isinstance(getattr(x, "_parent", None), (ast.Assign, ast.Call, ast.keyword))]:
            txt_ = ast.unparse(s_).rstrip("'\"")
            if not txt_ or txt_[-1] not in "df":
                continue
            try:
                nd_ = gcfg.node_of(s_)
            except Exception:
                continue
            for e, t, bn in gcfg.guards(nd_):
                if isinstance(e, ast.Name) and e.id in gp and "double" in e.id:
                    seen_.setdefault(txt_[-1], set()).add(t)
        ok = seen_.get("d") == {True} and seen_.get("f") == {False}
        uses_dtype = any(isinstance(c_, ast.Call) and last_name(c_) in ("frombuffer", "fromfile", "dtype") for c_ in walk_local(g))
        if ok:
            ctx.ok(rid, g, f"{fn}: double -> ...d, single -> ...f with the same element count")
        elif uses_dtype:
            _trr_dtype_form(ctx, rid, g, gp)
        else:
            ctx.bad(rid, g, f"{fn} does not dispatch both precisions on `double` with the same element count")


def r195(ctx):
    rid = "R-19.5"
    tree = ctx.tree
    from .c16 import WRITERS, READERS, _mutations_between
    n = 0
    for m, cname, c in tree.subclasses("EngineBase"):
        f = [s for s in c.body if isinstance(s, FUNC) and s.name == "_reverse_velocities"]
        if not f or m.rel.endswith("ams.py"):
            continue
        f = f[0]
        n += 1
        fl = flow_of(f)
        cfg = fl.cfg
        if m.rel == ASE:
            sets = [x for x in walk_local(f) if isinstance(x, ast.Call) and isinstance(x.func, ast.Attribute) and x.func.attr == "set_velocities"]
            okv = sets and isinstance(sets[0].args[0], ast.UnaryOp) and isinstance(sets[0].args[0].op, ast.USub)
            others = [x for x in walk_local(f) if isinstance(x, ast.Call) and isinstance(x.func, ast.Attribute) and x.func.attr in ("set_positions", "set_cell", "rattle", "translate")]
            if okv and not others:
                ctx.ok(rid, f, f"{cname}: velocities negated (set_velocities(-vel)), nothing else set")
            else:
                ctx.bad(rid, f, f"{cname}._reverse_velocities does not negate exactly the velocities")
            continue
        ws = [x for x in walk_local(f) if isinstance(x, ast.Call) and last_name(x) in WRITERS]
        if not ws:
            ctx.bad(rid, f, f"{cname}._reverse_velocities has no recognised writer call")
            continue
        W = ws[0]
        roles = WRITERS[last_name(W)]
        wn = cfg.node_of(W)
        ok = True
        for role in ("pos", "ids", "box"):
            i = roles[role]
            if i >= len(W.args):
                continue
            a = W.args[i]
            p = path_of(a)
            rds = fl.rd(p, wn) if p else []
            good = rds and all(d.kind == "unpack" and isinstance(d.value, ast.Call) and last_name(d.value) in READERS for d, _ in rds)
            muts = []
            for d, _ in rds:
                muts += _mutations_between(fl, cfg, p, d.at, wn)
            if not good or muts:
                ctx.bad(rid, W, f"{cname}._reverse_velocities: the {role} written is not exactly the {role} read (reversing velocities must change nothing else)",
                        construct=f"{last_name(W)}(..., {role}={short(a, 30)})")
                ok = False
        v = W.args[roles["vel"]]
        neg = False
        if isinstance(v, ast.UnaryOp) and isinstance(v.op, ast.USub):
            neg = True
        if isinstance(v, ast.BinOp) and isinstance(v.op, ast.Mult):
            for x in (v.left, v.right):
                try:
                    if float(ast.literal_eval(x)) == -1.0:
                        neg = True
                except Exception:
                    pass
        if path_of(v):
            for d, _ in fl.rd(path_of(v), wn):
                if d.kind == "aug" and isinstance(d.stmt.op, ast.Mult):
                    try:
                        if float(ast.literal_eval(d.stmt.value)) == -1.0:
                            neg = True
                    except Exception:
                        pass
        if not neg:
            ctx.bad(rid, W, f"{cname}._reverse_velocities writes velocities that are not the negated velocities read", construct=f"{last_name(W)}(..., vel={short(v, 30)})")
            ok = False
        if ok:
            ctx.ok(rid, W, f"{cname}: positions/box/identities written as read; velocities negated")
    if n < 5:
        raise AnalysisError(f"R-19.5: only {n} _reverse_velocities implementations found")


def _fold_ints(e, env):
    """Fold an integer / range / list-of-int expression with the bindings of env."""
    if isinstance(e, ast.Constant) and isinstance(e.value, int):
        return e.value
    if isinstance(e, ast.Name) and e.id in env:
        return env[e.id]
    if isinstance(e, ast.Call) and dotted(e.func) == "range":
        a = [_fold_ints(x, env) for x in e.args]
        return list(range(*a))
    if isinstance(e, (ast.List, ast.Tuple)):
        return [_fold_ints(x, env) for x in e.elts]
    if isinstance(e, ast.BinOp) and isinstance(e.op, (ast.Add, ast.Sub)):
        a, b = _fold_ints(e.left, env), _fold_ints(e.right, env)
        return a + b if isinstance(e.op, ast.Add) else a - b
    raise ValueError(ast.unparse(e))


def _fold_bool(e, env):
    if isinstance(e, ast.Compare) and len(e.ops) == 1:
        a, b = _fold_ints(e.left, env), _fold_ints(e.comparators[0], env)
        return {ast.Eq: a == b, ast.NotEq: a != b, ast.Lt: a < b, ast.LtE: a <= b, ast.Gt: a > b, ast.GtE: a >= b}[type(e.ops[0])]
    if isinstance(e, ast.BoolOp):
        vals = [_fold_bool(v, env) for v in e.values]
        return all(vals) if isinstance(e.op, ast.And) else any(vals)
    if isinstance(e, ast.UnaryOp) and isinstance(e.op, ast.Not):
        return not _fold_bool(e.operand, env)
    raise ValueError(ast.unparse(e))


def _fold_index_list(e, env, locals_, mat):
    """List of (i, j) index pairs denoted by a list expression over `mat[i, j]`."""
    if isinstance(e, ast.Call) and last_name(e) in ("array", "asarray", "list") and e.args:
        return _fold_index_list(e.args[0], env, locals_, mat)
    if isinstance(e, ast.Name) and e.id in locals_:
        return _fold_index_list(locals_[e.id], env, locals_, mat)
    if isinstance(e, ast.BinOp) and isinstance(e.op, ast.Add):
        return _fold_index_list(e.left, env, locals_, mat) + _fold_index_list(e.right, env, locals_, mat)
    if isinstance(e, (ast.List, ast.Tuple)):
        out = []
        for x in e.elts:
            out += _fold_index_list(x, env, locals_, mat)
        return out
    if isinstance(e, ast.Subscript) and path_of(e.value) == mat:
        sl = e.slice
        if isinstance(sl, ast.Tuple) and len(sl.elts) == 2:
            return [(_fold_ints(sl.elts[0], env), _fold_ints(sl.elts[1], env))]
        raise ValueError(ast.unparse(e))
    if isinstance(e, (ast.ListComp, ast.GeneratorExp)):
        out = []

        def rec(gi, env2):
            if gi == len(e.generators):
                out.extend(_fold_index_list(e.elt, env2, locals_, mat))
                return
            g = e.generators[gi]
            it = g.iter
            if isinstance(it, ast.Name) and it.id in locals_:
                it = locals_[it.id]
            for v in _fold_ints(it, env2):
                env3 = dict(env2)
                if isinstance(g.target, ast.Name):
                    env3[g.target.id] = v
                else:
                    raise ValueError("tuple target")
                if all(_fold_bool(c, env3) for c in g.ifs):
                    rec(gi + 1, env3)

        rec(0, dict(env))
        return out
    raise ValueError(ast.unparse(e))


G96_BOX_ORDER = [(0, 0), (1, 1), (2, 2), (0, 1), (0, 2), (1, 0), (1, 2), (2, 0), (2, 1)]  # xx yy zz xy xz yx yz zx zy (GROMOS96 BOX record)


def r196(ctx):
    """The flattened 9-component box has the element order of the g96 BOX record."""
    rid = "R-19.6"
    tree = ctx.tree
    f = tree.func(ENGPARTS, "box_matrix_to_list")
    mat = f.args.args[0].arg
    locals_ = {}
    for n in walk_local(f):
        if isinstance(n, ast.Assign) and len(n.targets) == 1 and isinstance(n.targets[0], ast.Name):
            locals_[n.targets[0].id] = n.value
    rets = [r for r in walk_local(f) if isinstance(r, ast.Return) and r.value is not None and not (isinstance(r.value, ast.Constant) and r.value.value is None)]
    full = None
    diag = None
    for r in rets:
        try:
            idx = _fold_index_list(r.value, {}, locals_, mat)
        except (ValueError, KeyError, TypeError) as exc:
            raise AnalysisError(f"R-19.6: cannot fold the element order of box_matrix_to_list: {exc}")
        if len(idx) == 9:
            full = (r, idx)
        elif len(idx) == 3:
            diag = (r, idx)
    if full is None:
        raise AnalysisError("R-19.6: box_matrix_to_list has no 9-element return")
    if full[1] == G96_BOX_ORDER:
        ctx.ok(rid, full[0], "box_matrix_to_list emits xx yy zz xy xz yx yz zx zy - the order of the g96 BOX record and of its own documentation")
    else:
        names = "xyz"
        ctx.bad(rid, full[0], "box_matrix_to_list emits the box elements as " + " ".join(names[i] + names[j] for i, j in full[1]) +
                " instead of xx yy zz xy xz yx yz zx zy (g96 BOX record): triclinic boxes extracted from TRR frames / CP2K cells are written transposed",
                construct="box element order " + " ".join(names[i] + names[j] for i, j in full[1]))
    if diag is not None and diag[1] != G96_BOX_ORDER[:3]:
        ctx.bad(rid, diag[0], "the 3-component form of the box is not (xx, yy, zz)")
    elif diag is not None:
        ctx.ok(rid, diag[0], "3-component form = (xx, yy, zz)")


def _lin_names(e):
    """Linear/bilinear form over names: {frozenset(names): coeff, frozenset(): const}."""
    if isinstance(e, ast.Constant) and isinstance(e.value, int) and not isinstance(e.value, bool):
        return {frozenset(): e.value}
    if isinstance(e, ast.Name):
        return {frozenset([e.id]): 1}
    if isinstance(e, ast.BinOp) and isinstance(e.op, (ast.Add, ast.Sub)):
        a, b = _lin_names(e.left), _lin_names(e.right)
        if a is None or b is None:
            return None
        out = dict(a)
        for k, v in b.items():
            out[k] = out.get(k, 0) + (v if isinstance(e.op, ast.Add) else -v)
        return {k: v for k, v in out.items() if v != 0}
    if isinstance(e, ast.BinOp) and isinstance(e.op, ast.Mult):
        a, b = _lin_names(e.left), _lin_names(e.right)
        if a is None or b is None:
            return None
        out = {}
        for k1, v1 in a.items():
            for k2, v2 in b.items():
                if k1 & k2:
                    return None
                out[k1 | k2] = out.get(k1 | k2, 0) + v1 * v2
        return {k: v for k, v in out.items() if v != 0}
    return None


def r1910(ctx):
    """Template editing: the regular expressions that find `key <delim> value` in the writer
    (_modify_input) and in the reader (_read_input_settings) have the same structure, and the key
    group is lazy - the key is the text before the *first* delimiter, so a value or comment that
    contains the delimiter again (`nsteps = 5 ; 2*5 = 10 ps`) does not move the split point."""
    import re as _re
    try:
        from re import _parser as _sre
    except ImportError:  # pragma: no cover
        import sre_parse as _sre
    rid = "R-19.10"
    from ..util import ENGBASE
    pats = {}
    for fname in ("_modify_input", "_read_input_settings"):
        f = ctx.tree.func(ENGBASE, "EngineBase." + fname)
        calls = [c for c in walk_local(f) if isinstance(c, ast.Call) and dotted(c.func) in ("re.compile", "re.match", "re.search") and c.args]
        if len(calls) != 1:
            raise AnalysisError(f"R-19.10: exactly one regular expression expected in {fname}")
        a = calls[0].args[0]
        if isinstance(a, ast.Constant) and isinstance(a.value, str):
            txt = a.value
        elif isinstance(a, ast.JoinedStr):
            txt = ""
            for v in a.values:
                if isinstance(v, ast.Constant):
                    txt += v.value
                else:
                    txt += "="  # the delimiter (escaped or not): one literal character
        else:
            raise AnalysisError(f"R-19.10: pattern of {fname} is not a (formatted) string literal")
        try:
            parsed = _sre.parse(txt)
        except Exception as exc:
            raise AnalysisError(f"R-19.10: cannot parse the pattern of {fname}: {exc}")
        pats[fname] = (calls[0], txt, parsed)

    def shape(p):
        out = []
        for op, av in p:
            name = str(op)
            if name in ("MAX_REPEAT", "MIN_REPEAT"):
                out.append((name, av[0], str(av[1]), shape(av[2])))
            elif name == "SUBPATTERN":
                out.append((name, shape(av[3])))
            else:
                out.append((name, str(av)))
        return out

    s1, s2 = shape(pats["_modify_input"][2]), shape(pats["_read_input_settings"][2])
    if s1 == s2:
        ctx.ok(rid, pats["_modify_input"][0], f"writer and reader of the input template split lines with the same pattern {pats['_modify_input'][1]!r}")
    else:
        ctx.bad(rid, pats["_modify_input"][0], f"_modify_input splits `key = value` lines with {pats['_modify_input'][1]!r} but _read_input_settings with {pats['_read_input_settings'][1]!r}: an entry the reader finds under one key is not the entry the writer changes (the requested entry stays, a duplicate is appended)",
                construct="template regex disagreement")
    for fname, (call, txt, parsed) in pats.items():
        first = list(parsed)[0] if len(list(parsed)) else None
        lazy = False
        if first is not None and str(first[0]) == "SUBPATTERN":
            inner = list(first[1][3])
            lazy = bool(inner) and str(inner[0][0]) == "MIN_REPEAT"
        if lazy:
            ctx.ok(rid, call, f"{fname}: the key group is lazy - the key ends at the first delimiter")
        else:
            ctx.bad(rid, call, f"{fname}: the key group of {txt!r} is greedy (or not a group): on a line whose value or comment contains the delimiter again the key is taken up to the last delimiter, the requested entry is not changed and a duplicate line is appended",
                    construct=f"{fname}: greedy key group")


def r199(ctx):
    """Extracting frame k of a multi-frame file returns frame k: every _extract_frame selects
    with its own `idx` parameter, unmodified; read_lammpstrj addresses both of its blocks at
    block_size * frame; read_trr_frame counts from 0 and tests before it increments."""
    rid = "R-19.9"
    tree = ctx.tree
    n = 0
    for rel in (GROMACS, CP2K, LAMMPS, TURTLE, ASE):
        for m, q, f in tree.all_funcs([rel]):
            if f.name != "_extract_frame":
                continue
            params = [a.arg for a in f.args.args]
            if len(params) < 3:
                raise AnalysisError(f"R-19.9: {q} does not take (self, traj_file, idx, out_file)")
            tf, idx = params[1], params[2]
            fl = flow_of(f)
            sel = []
            for x in walk_local(f):
                # (a) enumerate(...) index compared with idx
                if isinstance(x, ast.Compare) and len(x.ops) == 1 and isinstance(x.ops[0], (ast.Eq, ast.NotEq)):
                    sides = [x.left, x.comparators[0]]
                    if any(isinstance(s_, ast.Name) and s_.id == idx for s_ in sides) or any(idx in ast.unparse(s_) for s_ in sides):
                        other = [s_ for s_ in sides if not (isinstance(s_, ast.Name) and s_.id == idx)]
                        sel.append(("cmp", x, other[0] if other else None))
                # (b) reader call receiving the frame number
                if isinstance(x, ast.Call) and last_name(x) in ("read_lammpstrj", "read_trr_frame") and len(x.args) >= 2:
                    sel.append(("call", x, x.args[1]))
                # (c) subscript of a trajectory object
                if isinstance(x, ast.Subscript) and isinstance(x.ctx, ast.Load) and not isinstance(x.slice, (ast.Slice, ast.Tuple, ast.Constant)) and idx in ast.unparse(x.slice):
                    sel.append(("sub", x, x.slice))
            if not sel:
                ctx.bad(rid, f, f"{q} never uses its frame number `{idx}` to select a frame", construct=f"{q}: idx unused")
                continue
            for kind, node, e in sel:
                n += 1
                if kind == "cmp":
                    # i == idx with i the enumerate index of a loop over the trajectory file
                    L = next((p for p in loops_of(node) if isinstance(p, ast.For)), None)
                    ok_ = (isinstance(e, ast.Name) and L is not None and isinstance(L.iter, ast.Call) and last_name(L.iter) == "enumerate" and len(L.iter.args) == 1
                           and isinstance(L.target, ast.Tuple) and isinstance(L.target.elts[0], ast.Name) and L.target.elts[0].id == e.id
                           and ast.unparse(node) in (f"{e.id} == {idx}", f"{idx} == {e.id}", f"{e.id} != {idx}", f"{idx} != {e.id}"))
                    if ok_ and isinstance(node.ops[0], ast.NotEq):
                        # guard-clause form: `if i != idx: continue` - the other frames are skipped, the rest of the body handles frame idx
                        st_ = getattr(node, "_parent", None)
                        ok_ = isinstance(st_, ast.If) and st_.test is node and len(st_.body) == 1 and isinstance(st_.body[0], ast.Continue) and not st_.orelse
                else:
                    ok_ = isinstance(e, ast.Name) and e.id == idx and not any(isinstance(d.stmt, (ast.Assign, ast.AugAssign)) for d, _ in fl.rd(idx, fl.cfg.node_of(node)))
                if ok_:
                    ctx.ok(rid, node, f"{q}: the frame is selected with the unmodified frame number `{idx}` ({kind})")
                else:
                    ctx.bad(rid, node, f"{q}: the frame is selected with `{short(e, 30) if e is not None else '?'}` (in `{short(node, 50)}`), not with the frame number it was asked for (counted from 0 by enumerate): another frame than frame k is extracted", construct=f"{q}: frame selector {short(node, 50)}")
    if n < 5:
        raise AnalysisError(f"R-19.9: only {n} frame selectors found in the _extract_frame implementations (expected 5)")
    # read_lammpstrj: both blocks addressed at block_size * frame
    rl = tree.func(LAMMPS, "read_lammpstrj")
    fr = [a.arg for a in rl.args.args][1]
    forms = []
    for c in [x for x in walk_local(rl) if isinstance(x, ast.Call) and last_name(x) == "genfromtxt"]:
        sh = kwarg(c, "skip_header")
        lf = _lin_names(_expand_arith_locals(sh, rl)) if sh is not None else None
        if lf is None:
            raise AnalysisError("R-19.9: skip_header of read_lammpstrj is not a linear form")
        forms.append((c, lf))
    if len(forms) != 2:
        raise AnalysisError(f"R-19.9: read_lammpstrj has {len(forms)} genfromtxt calls (expected 2: box, atoms)")
    for c, lf in forms:
        fterms = {k: v for k, v in lf.items() if fr in k}
        # stride = coefficient of the frame number = <number of atoms> + <header lines>, or a local holding it
        resid = {frozenset(k - {fr}): v for k, v in fterms.items()}
        names_ = [k for k in resid if k]
        stride_ok = len(names_) == 1 and len(next(iter(names_))) == 1 and resid[names_[0]] == 1 and resid.get(frozenset(), 0) >= 0
        if stride_ok:
            ctx.ok(rid, c, f"read_lammpstrj: block addressed at ({'+'.join(sorted(next(iter(names_))))} + {resid.get(frozenset(), 0)}) * {fr} + {lf.get(frozenset(), 0)}")
        else:
            ctx.bad(rid, c, f"read_lammpstrj: skip_header `{short(kwarg(c, 'skip_header'), 40)}` is not <block size> * {fr} + <offset>: frame k of a multi-frame dump is not the one read", construct="read_lammpstrj skip_header " + short(kwarg(c, "skip_header"), 40))
    bases = {repr(sorted((sorted(k - {fr}), v) for k, v in lf.items() if fr in k)) for c, lf in forms}
    if len(bases) > 1:
        ctx.bad(rid, forms[1][0], "read_lammpstrj addresses its box block and its atom block with different frame strides: box and coordinates come from different frames", construct="read_lammpstrj stride disagreement")
    # read_trr_frame: counter from 0, test before increment
    rt = tree.func(GROMACS, "read_trr_frame")
    ip = [a.arg for a in rt.args.args][1]
    cnt = None
    for st in rt.body:
        if isinstance(st, ast.Assign) and isinstance(st.targets[0], ast.Name) and isinstance(st.value, ast.Constant) and isinstance(st.value.value, int):
            cnt = (st.targets[0].id, st.value.value, st)
    if cnt is None:
        # no frame counter: is the frame addressed by a computed offset instead?
        from ..flow import flow_of as _fo
        rfl = _fo(rt)
        seeks = [x for x in walk_local(rt) if isinstance(x, ast.Call) and isinstance(x.func, ast.Attribute) and x.func.attr == "seek" and x.args]
        hit = None
        for sk in seeks:
            names = {n_.id for n_ in ast.walk(sk.args[0]) if isinstance(n_, ast.Name)}
            for kind, node, at, extra in [x for a_ in ast.walk(sk.args[0]) if isinstance(a_, ast.Name) for x in rfl.sources(a_, rfl.cfg.node_of(sk))]:
                if kind == "param" and extra == ip:
                    names.add(ip)
            if ip in names:
                hit = sk
        if hit is not None:
            ctx.bad(rid, hit, f"read_trr_frame jumps to frame `{ip}` with `{short(hit, 60)}`: the offset is computed from the size of one frame, but every TRR frame carries its own x/v/f sizes (positions, velocities and forces are written at different intervals; the last frame may lack velocities), so frames of one file differ in size: the jump lands inside a frame and another frame (or garbage) is returned",
                    construct="read_trr_frame: seek to a computed frame offset")
            return
        raise AnalysisError("R-19.9: frame counter of read_trr_frame not found")
    cname, c0, cst = cnt
    cfg = cfg_of(rt)
    tests = [x for x in walk_local(rt) if isinstance(x, ast.Compare) and ast.unparse(x) in (f"{cname} == {ip}", f"{ip} == {cname}")]
    incs = [x for x in walk_local(rt) if isinstance(x, ast.AugAssign) and isinstance(x.target, ast.Name) and x.target.id == cname]
    reads = [x for x in walk_local(rt) if isinstance(x, ast.Call) and last_name(x) == "read_trr_data"]
    good = (c0 == 0 and len(tests) == 1 and len(incs) == 1 and isinstance(incs[0].op, ast.Add) and isinstance(incs[0].value, ast.Constant) and incs[0].value.value == 1
            and reads and cfg.reaches(cfg.node_of(tests[0]), cfg.node_of(incs[0])) and tests[0].lineno < incs[0].lineno)
    if good:
        # the data read is under the test
        g = [ast.unparse(e) for e, t, _ in cfg.guards(cfg.node_of(reads[0])) if t]
        good = any(ast.unparse(tests[0]) == x for x in g)
    if good:
        ctx.ok(rid, tests[0], "read_trr_frame: counter starts at 0, the frame is read when counter == index, the counter advances by one per skipped frame after the test")
    else:
        ctx.bad(rid, cst, "read_trr_frame does not count frames from 0 with the test before the increment (start value, comparison or increment changed): frame k is not the k-th frame of the file", construct="read_trr_frame frame counter")


def r1911(ctx):
    """Editing a CP2K input section is local: update_node rebuilds the section line by line -
    every existing line is kept or replaced by exactly one line (no path of the loop drops or
    duplicates a line, the kept branch appends the line itself) - and the rebuilt list is stored
    as it is (a plain copy, no set / dict.fromkeys / sorted / filter / slice in between, which
    would merge identical lines such as the per-atom entries of &VELOCITY or &COORD)."""
    rid = "R-19.11"
    tree = ctx.tree
    f = tree.func(CP2K, "update_node")
    fl = flow_of(f)
    cfg = fl.cfg
    loops = [L for L in walk_local(f) if isinstance(L, ast.For) and isinstance(L.iter, ast.Attribute) and L.iter.attr == "data" and isinstance(L.target, ast.Name)]
    if len(loops) != 1:
        raise AnalysisError(f"R-19.11: {len(loops)} loops over the section's lines in update_node (expected 1)")
    L = loops[0]
    node_name = ast.unparse(L.iter.value)
    line = L.target.id
    apps = [c for c in ast.walk(L) if isinstance(c, ast.Call) and isinstance(c.func, ast.Attribute) and c.func.attr == "append" and isinstance(c.func.value, ast.Name) and c.args]
    lists = {c.func.value.id for c in apps}
    if len(lists) != 1:
        raise AnalysisError("R-19.11: the loop over the section's lines does not rebuild exactly one list")
    nd = lists.pop()
    head = cfg.node_of(L)
    app_nodes = [cfg.node_of(c) for c in apps]
    body_first = [s2 for s2, lab in cfg.succ[head.id] if lab == "T"]
    skips = any(head.id in cfg.reachable(cfg.nodes[b], avoid=app_nodes, labels_excluded=("exc",)) for b in body_first)
    twice = any(any(o.id in (cfg.reachable(a, avoid=[head], labels_excluded=("exc",)) - {a.id}) for o in app_nodes) for a in app_nodes)
    kept = [c for c in apps if isinstance(c.args[0], ast.Name) and c.args[0].id == line]
    if skips or twice or not kept:
        ctx.bad(rid, L, "update_node does not carry every existing line of the section over as exactly one line (a path of the loop drops a line, adds two, or no branch keeps the line itself): entries that were not requested are lost or duplicated", construct="update_node: one line out per line in")
    else:
        ctx.ok(rid, L, "every existing line of the section yields exactly one line; lines that are not addressed are kept as they are")
    stores = [s_ for s_ in walk_local(f) if isinstance(s_, ast.Assign) and any(isinstance(t, ast.Attribute) and t.attr == "data" and ast.unparse(t.value) == node_name for t in s_.targets)]
    if not stores:
        raise AnalysisError("R-19.11: update_node never stores the section's data")
    params = [a.arg for a in f.args.args]
    for s_ in stores:
        v, vat = s_.value, cfg.node_of(s_)
        if not (isinstance(v, ast.Name) and (v.id == nd or v.id in params)):
            v, vat = deref(fl, s_.value, cfg.node_of(s_))
        inner = v.args[0] if isinstance(v, ast.Call) and last_name(v) == "list" and len(v.args) == 1 and not v.keywords else v
        if not (isinstance(inner, ast.Name) and (inner.id == nd or inner.id in params)):
            inner, _ = deref(fl, inner, vat)
        plain = isinstance(inner, ast.Name) and (inner.id == nd or inner.id in params)
        if isinstance(inner, ast.Call) and last_name(inner) == "list" and len(inner.args) == 1 and isinstance(inner.args[0], ast.Name) and (inner.args[0].id == nd or inner.args[0].id in params):
            plain = True
        if plain:
            ctx.ok(rid, s_, "the section's lines are stored as rebuilt (plain copy)")
        else:
            ctx.bad(rid, s_, f"update_node stores `{short(s_.value, 50)}`: the rebuilt lines pass through a transformation before they are stored; identical lines (per-atom entries of &VELOCITY / &COORD, repeated keywords) are merged or reordered, so entries that were not requested change and fewer lines than atoms are written", construct=f"update_node: node.data = {short(s_.value, 50)}")


def r1912(ctx):
    """A requested entry is recognised by membership, not by the truth value of what is requested:
    in _modify_input the branch that replaces a template line is taken under `key in settings`
    (0, 0.0 and "" are legal values - e.g. nsteps = 0 for the zero-step velocity generation run)."""
    rid = "R-19.12"
    tree = ctx.tree
    f = tree.func(ENGBASE, "EngineBase._modify_input")
    ps = [a.arg for a in f.args.args]
    sp = "settings" if "settings" in ps else None
    if sp is None:
        raise AnalysisError("R-19.12: _modify_input has no `settings` parameter")
    fl = flow_of(f)
    cfg = fl.cfg
    # the replacing assignment: a line built from a value of `settings`
    repl = []
    for n in walk_local(f):
        if isinstance(n, ast.Assign) and isinstance(n.value, ast.JoinedStr):
            deps = fl.deps(n.value, cfg.node_of(n))
            if any(kind in ("param", "free") and key.startswith(sp) for kind, key in deps):
                loops = [x for x in loops_of(n) if isinstance(x, ast.For) and "items" not in ast.unparse(x.iter)]
                if loops:
                    repl.append(n)
    if not repl:
        raise AnalysisError("R-19.12: the statement that replaces a template line with the requested value was not found")
    for n in repl:
        facts = [(e, t) for e, t, _ in cfg.guards(cfg.node_of(n))]
        member = any(t and isinstance(e, ast.Compare) and len(e.ops) == 1 and isinstance(e.ops[0], ast.In) and ast.unparse(e.comparators[0]).replace(".keys()", "") == sp for e, t in facts) \
            or any((not t) and isinstance(e, ast.Compare) and len(e.ops) == 1 and isinstance(e.ops[0], ast.NotIn) and ast.unparse(e.comparators[0]).replace(".keys()", "") == sp for e, t in facts)
        truthy = []
        for e, t in facts:
            if isinstance(e, ast.Name):
                srcs = fl.deps(e, cfg.node_of(n))
                if any(kind in ("param", "free") and key.startswith(sp) for kind, key in srcs):
                    truthy.append(e.id)
            if isinstance(e, ast.Call) and isinstance(e.func, ast.Attribute) and e.func.attr == "get" and ast.unparse(e.func.value) == sp:
                truthy.append(short(e, 30))
            if isinstance(e, ast.Subscript) and ast.unparse(e.value) == sp:
                truthy.append(short(e, 30))
        if truthy:
            ctx.bad(rid, n, f"_modify_input replaces a template line only when the requested value (`{truthy[0]}`) is truthy: a request for 0 / 0.0 (nsteps = 0 for the zero-step velocity generation, nstvout = 0, ...) is dropped, the old line stays and - the keyword being marked as written - the entry is not appended either", construct="_modify_input: requested value tested by truthiness")
        elif member:
            ctx.ok(rid, n, "a template line is replaced when its key is among the requested settings (membership test; 0 is a value)")
        else:
            ctx.bad(rid, n, "the replacement of a template line in _modify_input is not guarded by `key in settings`", construct="_modify_input: replacement guard")


def r1914(ctx):
    """The .lammpstrj box block is read whole. write_lammpstrj writes every column of each box
    row (`" ".join(...)` over the row: lo hi, and the tilt factor of a triclinic cell), so the
    reader returns what one table read of the three box rows delivers - no column selection
    (`usecols`) in that read and no column slice on the way to the return."""
    rid = "R-19.14"
    tree = ctx.tree
    rl = tree.func(LAMMPS, "read_lammpstrj")
    fl = flow_of(rl)
    rets = [r for r in walk_local(rl) if isinstance(r, ast.Return) and isinstance(r.value, ast.Tuple) and len(r.value.elts) == 4]
    if not rets:
        raise AnalysisError("R-19.14: read_lammpstrj does not return (id_type, pos, vel, box)")
    wl = tree.func(LAMMPS, "write_lammpstrj")
    whole_rows = any(isinstance(c, ast.Call) and isinstance(c.func, ast.Attribute) and c.func.attr == "join" for c in walk_local(wl))
    if not whole_rows:
        raise AnalysisError("R-19.14: write_lammpstrj does not write whole box rows with join() any more (cannot decide)")
    for r in rets:
        e = r.value.elts[3]
        e2, _ = deref(fl, e, fl.cfg.node_of(r))
        if isinstance(e2, ast.Subscript):
            ctx.bad(rid, r, f"read_lammpstrj returns a part of the box block (`{short(e2, 40)}`): the writer writes whole rows, so columns of a row (the tilt factor of a triclinic cell) are lost in a read / write cycle", construct="read_lammpstrj: box sliced")
            continue
        if not (isinstance(e2, ast.Call) and last_name(e2) in ("genfromtxt", "loadtxt")):
            raise AnalysisError(f"R-19.14: the box returned by read_lammpstrj is `{short(e2, 40)}`, not a table read (cannot decide)")
        uc = kwarg(e2, "usecols")
        if uc is not None and not (isinstance(uc, ast.Constant) and uc.value is None):
            ctx.bad(rid, e2, f"read_lammpstrj reads only the columns {short(uc, 20)} of the box block: the third column of a triclinic `BOX BOUNDS xy xz yz` block (the tilt factors) is dropped, and every frame written back by write_lammpstrj (_extract_frame, velocity reversal) has an orthogonal bounding-box cell - reversing velocities changes the box", construct=f"read_lammpstrj: box read with usecols={short(uc, 20)}")
        else:
            ctx.ok(rid, e2, "read_lammpstrj returns the whole box block (every column of the three rows)")


def r1916(ctx):
    """LAMMPS template editing changes exactly the requested entries: write_for_run substitutes a
    variable in a line only when the variable is a whole word of the *template* line - membership
    in `line.split()` taken before any substitution. A substring test on the line that is being
    rewritten also fires inside a value that was just written (a run directory called
    infretis_seed42 contains the placeholder infretis_seed) and rewrites that value."""
    rid = "R-19.16"
    f = ctx.tree.func(LAMMPS, "write_for_run")
    fl = flow_of(f)
    reps = [st for st in walk_local(f) if isinstance(st, ast.Assign) and isinstance(st.value, ast.Call) and isinstance(st.value.func, ast.Attribute) and st.value.func.attr == "replace" and len(st.targets) == 1 and isinstance(st.targets[0], ast.Name) and isinstance(st.value.func.value, ast.Name) and st.value.func.value.id == st.targets[0].id]
    if not reps:
        raise AnalysisError("R-19.16: write_for_run no longer substitutes with `line = line.replace(var, value)` (cannot decide)")
    cfg = fl.cfg
    for st in reps:
        linev = st.targets[0].id
        var = st.value.args[0] if st.value.args else None
        guards = [(e, t) for e, t, bn in cfg.guards(cfg.node_of(st)) if t and isinstance(e, ast.Compare) and len(e.ops) == 1 and isinstance(e.ops[0], ast.In) and var is not None and ast.unparse(e.left) == ast.unparse(var)]
        if not guards:
            ctx.bad(rid, st, f"write_for_run substitutes `{short(st, 50)}` without testing that the variable occurs in the line as a word", construct="write_for_run: unguarded replace")
            continue
        e = guards[0][0]
        rhs = e.comparators[0]
        r2 = rhs
        if isinstance(rhs, ast.Name) and rhs.id != linev:
            r2, _ = deref(fl, rhs, cfg.node_of(st))
        is_tokens = isinstance(r2, ast.Call) and isinstance(r2.func, ast.Attribute) and r2.func.attr == "split" and isinstance(r2.func.value, ast.Name) and r2.func.value.id == linev
        if isinstance(rhs, ast.Name) and rhs.id == linev or (isinstance(r2, ast.Name) and r2.id == linev):
            ctx.bad(rid, e, f"write_for_run tests `{short(e, 40)}` - a substring test on the line that is being rewritten: a value written for an earlier variable that contains the name of a later one (a directory called infretis_seed42 and the placeholder infretis_seed) is rewritten too, so entries that were not requested change (the path of the initial configuration is corrupted)", construct="write_for_run: substring test on the rewritten line")
        elif is_tokens:
            # the token list must be taken before the inner loop over the variables (tokens of the template line)
            tokdef = [d for d, sfx in fl.rd(rhs.id, cfg.node_of(st)) if not sfx] if isinstance(rhs, ast.Name) else []
            inner = [L for L in loops_of(st) if isinstance(L, ast.For)]
            if isinstance(rhs, ast.Name) and inner and all(id(d.stmt) not in {id(x) for x in ast.walk(inner[0])} for d in tokdef):
                ctx.ok(rid, e, "a variable is substituted only when it is a whole word of the template line (tokens taken before any substitution)")
            else:
                ctx.bad(rid, e, f"write_for_run re-tokenises the line after substitutions (`{short(e, 40)}`): words of a value that was just written are matched as placeholders", construct="write_for_run: tokens of the rewritten line")
        else:
            raise AnalysisError(f"R-19.16: the occurrence test `{short(e, 40)}` of write_for_run is not one of the modelled forms (cannot decide)")


def r1917(ctx):
    """read_cp2k_input upper-cases section titles; the terminator test must be case-insensitive as
    well (`&end md`, `&End` are legal CP2K): a comparison of a raw token with a cased literal
    ("END") in the function that normalises its sibling tokens is reported."""
    rid = "R-19.17"
    f = ctx.tree.func(CP2K, "read_cp2k_input")
    normal = [c for c in walk_local(f) if isinstance(c, ast.Call) and isinstance(c.func, ast.Attribute) and c.func.attr in ("upper", "lower", "casefold") and not c.args]
    if not normal:
        raise AnalysisError("R-19.17: read_cp2k_input no longer normalises the case of any token (cannot decide)")
    bases = {ast.unparse(c.func.value).split("[")[0] for c in normal}
    n = 0
    for x in walk_local(f):
        if isinstance(x, ast.Compare) and len(x.ops) == 1 and isinstance(x.ops[0], (ast.Eq, ast.NotEq, ast.In, ast.NotIn)):
            for side, other in ((x.left, x.comparators[0]), (x.comparators[0], x.left)):
                lits = [other] if isinstance(other, ast.Constant) else (list(other.elts) if isinstance(other, (ast.List, ast.Tuple, ast.Set)) else [])
                if not lits or not all(isinstance(l_, ast.Constant) and isinstance(l_.value, str) and any(ch.isalpha() for ch in l_.value) for l_ in lits):
                    continue
                raw = not any(isinstance(c, ast.Call) and isinstance(c.func, ast.Attribute) and c.func.attr in ("upper", "lower", "casefold") for c in ast.walk(side))
                if ast.unparse(side).split("[")[0].split(".")[0] in {b.split(".")[0] for b in bases} or isinstance(side, (ast.Subscript, ast.Name)):
                    n += 1
                    if raw and isinstance(side, (ast.Subscript, ast.Name, ast.Attribute)):
                        ctx.bad(rid, x, f"read_cp2k_input compares the raw token `{short(side, 30)}` with {[l_.value for l_ in lits]}: CP2K keywords are case-insensitive and the function normalises its other tokens, so `&end md` / `&End` is not recognised as a terminator - it is parsed as a nested section END, the section tree is wrong and update_cp2k_input appends duplicate sections instead of editing the requested ones", construct=f"read_cp2k_input: raw comparison {short(x, 50)}")
                    else:
                        ctx.ok(rid, x, f"`{short(x, 50)}` compares a case-normalised token")
        if isinstance(x, ast.Call) and isinstance(x.func, ast.Attribute) and x.func.attr in ("startswith", "endswith") and x.args and isinstance(x.args[0], ast.Constant) and isinstance(x.args[0].value, str) and any(ch.isalpha() for ch in x.args[0].value):
            n += 1
            if any(isinstance(c, ast.Call) and isinstance(c.func, ast.Attribute) and c.func.attr in ("upper", "lower", "casefold") for c in ast.walk(x.func.value)):
                ctx.ok(rid, x, f"`{short(x, 50)}` tests a case-normalised token")
            else:
                ctx.bad(rid, x, f"read_cp2k_input tests the raw text `{short(x, 50)}` against a cased keyword: CP2K keywords are case-insensitive", construct=f"read_cp2k_input: raw test {short(x, 50)}")
    if n == 0:
        raise AnalysisError("R-19.17: no keyword comparison found in read_cp2k_input (cannot decide)")


def run(ctx):
    ctx.rule("R-19.6", "the flattened box matrix has the element order of the g96 BOX record (folded from the source, comprehensions included)", floor=1)
    ctx.rule("R-19.10", "input-template editing: writer and reader split `key <delim> value` with the same regular expression, whose key group is lazy (regex syntax trees compared)", floor=3)
    ctx.rule("R-19.9", "extracting frame k returns frame k: every _extract_frame selects with its unmodified frame number; read_lammpstrj strides by the block size; read_trr_frame counts from 0 and tests before incrementing", floor=8)
    ctx.rule("R-19.8", "the multi-frame readers return each frame with its own arrays (a buffer handed out is re-allocated before it is written again): frame k is frame k", floor=3)
    ctx.rule("R-19.7", "positional role agreement in the codecs: (box, xyz, vel, names) / (id_type, pos, vel, box) / (rawdata, xyz, vel, box) are unpacked and passed at the positions where the callee returns / expects them", floor=12)
    ctx.rule("R-19.1", "g96 field widths / counts / prefix agree between writer and reader", floor=4)
    ctx.rule("R-19.2", "xyz field count, column order, box token and header line count agree", floor=4)
    ctx.rule("R-19.3", "lammpstrj header line count and column layout agree across four functions", floor=5)
    ctx.rule("R-19.4", "TRR header/data item tables agree with what is read; swap_endian involution; precision dispatch", floor=8)
    ctx.rule("R-19.5", "reverse-velocity siblings negate velocities and nothing else", floor=5)
    for r in (r191, r192, r193, r194, r195, r196):
        ctx.attempt(r, ctx)
    ctx.attempt(r199, ctx)
    ctx.rule("R-19.14", "the .lammpstrj box block is read whole (no column selection between the table read and the return): the writer writes whole rows", floor=1)
    ctx.attempt(r1914, ctx)
    ctx.rule("R-19.16", "LAMMPS template editing is local: a variable is substituted only when it is a whole word of the template line (tokens taken before any substitution)", floor=1)
    ctx.attempt(r1916, ctx)
    ctx.rule("R-19.17", "CP2K keywords are case-insensitive: the input reader normalises the case of every keyword it compares (section titles and the &END terminator alike) - tokens that are case-normalised for one decision are not compared raw for another", floor=1)
    ctx.attempt(r1917, ctx)
    ctx.rule("R-19.15", "TRR frames decode for both byte orders: the byte order is exchanged exactly when the magic number differs as read (shared with C13 R-13.10)", floor=2)
    from .c13 import trr_byte_order
    ctx.attempt(trr_byte_order, ctx, "R-19.15", "")
    ctx.attempt(r1910, ctx)
    ctx.rule("R-19.11", "editing a CP2K section is local: one line out per line in, unaddressed lines kept, the rebuilt list stored as a plain copy", floor=2)
    ctx.attempt(r1911, ctx)
    ctx.rule("R-19.12", "_modify_input recognises a requested entry by membership in the settings, not by the truth value of the requested value", floor=1)
    ctx.attempt(r1912, ctx)
    ctx.rule("R-19.13", "a flag passed positionally to a codec function lands on a flag parameter (no bool literal on a non-flag parameter while a later flag keeps its default); today every such flag is passed by keyword - the positive control exercises the rule", floor=0)
    from .shared import positional_literal_kind
    ctx.attempt(positional_literal_kind, ctx, "R-19.13", [CP2K, LAMMPS, GROMACS, ENGBASE, ENGPARTS, ASE, TURTLE], ": a frame extracted into an existing file is appended instead of overwriting it, and every reader of that file gets the frame extracted earlier")
    from .shared import role_agreement, handed_out_buffers
    from .c13 import readers
    for rf in readers(ctx.tree):
        ctx.attempt(handed_out_buffers, ctx, "R-19.8", rf, "frame k of a multi-frame file is returned with frame k's own box and coordinates")
    P19 = ("_read_configuration", "_reverse_velocities", "_extract_frame", "convert_snapshot", "read_xyz_file", "write_xyz_trajectory",
           "read_lammpstrj", "write_lammpstrj", "read_gromos96_file", "write_gromos96_file", "read_cp2k_box", "read_box_data",
           "dump_frame", "dump_config", "read_trr_frame", "read_trr_header", "read_trr_data", "read_energies", "read_cp2k_energy")
    ctx.attempt(role_agreement, ctx, "R-19.7", [GROMACS, CP2K, LAMMPS, TURTLE, ASE, ENGPARTS], lambda q, f: f.name in P19, " (the codec would exchange positions/velocities/box/identities)")


VARIANTS = [
    B("c19-trr-item-table-sliced-one-short", GROMACS, "TRR_DATA_ITEMS = (\n    \"box_size\",\n    \"vir_size\",\n    \"pres_size\",\n    \"x_size\",\n    \"v_size\",\n    \"f_size\",\n)\n", "TRR_DATA_ITEMS = _HEAD_ITEMS[2:5] + _HEAD_ITEMS[7:9]\n", "R-19.4", control=True, why="seeded C19_p"),
    K("c19-keep-trr-item-table-sliced-from-the-header-table", GROMACS, "TRR_DATA_ITEMS = (\n    \"box_size\",\n    \"vir_size\",\n    \"pres_size\",\n    \"x_size\",\n    \"v_size\",\n    \"f_size\",\n)\n", "TRR_DATA_ITEMS = _HEAD_ITEMS[2:5] + _HEAD_ITEMS[7:10]\n"),
    B("c19-trr-virial-read-as-coordinates", GROMACS, "    for key in (\"box\", \"vir\", \"pres\"):\n        header_key = f\"{key}_size\"\n        if header[header_key] != 0:\n            data[key] = read_matrix(fileh, endian, double)\n    for key in (\"x\", \"v\", \"f\"):\n        header_key = f\"{key}_size\"\n        if header[header_key] != 0:\n            data[key] = read_coord(fileh, endian, double, header[\"natoms\"])\n", "    for header_key in TRR_DATA_ITEMS:\n        if header[header_key] == 0:\n            continue\n        key = header_key[: -len(\"_size\")]\n        if key == \"box\":\n            data[key] = read_matrix(fileh, endian, double)\n        else:\n            data[key] = read_coord(fileh, endian, double, header[\"natoms\"])\n", "R-19.4", control=True, why="seeded C19_o"),
    K("c19-keep-trr-blocks-read-in-one-loop", GROMACS, "    for key in (\"box\", \"vir\", \"pres\"):\n        header_key = f\"{key}_size\"\n        if header[header_key] != 0:\n            data[key] = read_matrix(fileh, endian, double)\n    for key in (\"x\", \"v\", \"f\"):\n        header_key = f\"{key}_size\"\n        if header[header_key] != 0:\n            data[key] = read_coord(fileh, endian, double, header[\"natoms\"])\n", "    for header_key in TRR_DATA_ITEMS:\n        if header[header_key] == 0:\n            continue\n        key = header_key[: -len(\"_size\")]\n        if key in (\"box\", \"vir\", \"pres\"):\n            data[key] = read_matrix(fileh, endian, double)\n        else:\n            data[key] = read_coord(fileh, endian, double, header[\"natoms\"])\n", why="one loop over the item table with the right decoder per block"),
    B("c19-g96-coordinates-by-whitespace-tokens", GROMACS, "            pos = [\n                float(line[i : i + _len]) for i in range(_pos, 4 * _len, _len)\n            ]\n", "            pos = [float(i) for i in line[_pos:].split()]\n", "R-19.1", control=True, why="seeded C19_n"),
    B("c19-g96-reduced-coordinates-by-whitespace-tokens", GROMACS, "            pos = [float(line[i : i + _len]) for i in range(0, 3 * _len, _len)]\n", "            pos = [float(i) for i in line.split()]\n", "R-19.1"),
    B("c19-cp2k-terminator-case-sensitive", CP2K, 'if lstrip[1:].lower().startswith("end"):', 'if strip[0] == "END":', "R-19.17", control=True, why="seeded C19_m"),
    K("c19-keep-cp2k-terminator-upper", CP2K, 'if lstrip[1:].lower().startswith("end"):', 'if lstrip[1:].upper().startswith("END"):'),
    B("c19-lammps-placeholder-substring-test", LAMMPS, "                    if var in spl:", "                    if var in line:", "R-19.16", control=True, why="seeded C19_l"),
    K("c19-keep-lammps-placeholder-tokens-renamed", LAMMPS, "                spl = line.split()\n", "                words = line.split()\n", also=[(LAMMPS, "                    if var in spl:", "                    if var in words:")]),
    B("c19-trr-coord-newbyteorder-discarded", GROMACS, '    if double:\n        fmt = f"{endian}{natoms * _DIM}d"\n    else:\n        fmt = f"{endian}{natoms * _DIM}f"\n    read = read_struct_buff(fileh, fmt)\n    mat = np.array(read)\n    mat.shape = (natoms, _DIM)', '    dtype = np.dtype(">f8" if double else ">f4")\n    if endian != ">":\n        dtype.newbyteorder(endian)\n    buff = fileh.read(natoms * _DIM * dtype.itemsize)\n    if not buff:\n        raise EOFError\n    mat = np.frombuffer(buff, dtype=dtype).astype(np.float64)\n    mat.shape = (natoms, _DIM)', "R-19.4", control=True, why="seeded C19_k"),
    K("c19-keep-trr-coord-frombuffer", GROMACS, '    if double:\n        fmt = f"{endian}{natoms * _DIM}d"\n    else:\n        fmt = f"{endian}{natoms * _DIM}f"\n    read = read_struct_buff(fileh, fmt)\n    mat = np.array(read)\n    mat.shape = (natoms, _DIM)', '    dtype = np.dtype(f"{endian}f8" if double else f"{endian}f4")\n    buff = fileh.read(natoms * _DIM * dtype.itemsize)\n    if not buff:\n        raise EOFError\n    mat = np.frombuffer(buff, dtype=dtype).astype(np.float64)\n    mat.shape = (natoms, _DIM)'),
    K("c19-keep-trr-coord-newbyteorder-assigned", GROMACS, '    if double:\n        fmt = f"{endian}{natoms * _DIM}d"\n    else:\n        fmt = f"{endian}{natoms * _DIM}f"\n    read = read_struct_buff(fileh, fmt)\n    mat = np.array(read)\n    mat.shape = (natoms, _DIM)', '    dtype = np.dtype("f8" if double else "f4")\n    dtype = dtype.newbyteorder(endian)\n    buff = fileh.read(natoms * _DIM * dtype.itemsize)\n    if not buff:\n        raise EOFError\n    mat = np.frombuffer(buff, dtype=dtype).astype(np.float64)\n    mat.shape = (natoms, _DIM)'),
    B("c19-lammps-box-two-columns", LAMMPS, "    box = np.genfromtxt(infile, skip_header=block_size * frame + 5, max_rows=3)", "    box = np.genfromtxt(infile, skip_header=block_size * frame + 5, max_rows=3, usecols=(0, 1))", "R-19.14", control=True, why="seeded C19_j"),
    B("c19-lammps-box-sliced", LAMMPS, "    return id_type, pos, vel, box\n", "    return id_type, pos, vel, box[:, :2]\n", "R-19.14"),
    K("c19-keep-lammps-box-offset-local", LAMMPS, "    box = np.genfromtxt(infile, skip_header=block_size * frame + 5, max_rows=3)", "    start = block_size * frame\n    box = np.genfromtxt(infile, skip_header=start + 5, max_rows=3)"),
    B("c19-append-flag-slipped-to-step", CP2K, "                write_xyz_trajectory(\n                    out_file, xyz, vel, names, box, append=False\n                )", "                write_xyz_trajectory(out_file, xyz, vel, names, box, False)", "R-19.13", control=True, why="seeded C19_i"),
    K("c19-keep-append-flag-positional-in-place", CP2K, "                write_xyz_trajectory(\n                    out_file, xyz, vel, names, box, append=False\n                )", "                write_xyz_trajectory(out_file, xyz, vel, names, box, None, False)"),
    B("c19-requested-value-by-truthiness", ENGBASE, "                        if keyword_strip in settings:\n                            to_write = f\"{keyword} {settings[keyword_strip]}\\n\"", "                        new_value = settings.get(keyword_strip)\n                        if new_value:\n                            to_write = f\"{keyword} {new_value}\\n\"", "R-19.12", control=True, why="seeded C19_h"),
    K("c19-keep-requested-value-is-not-none", ENGBASE, "                        if keyword_strip in settings:\n                            to_write = f\"{keyword} {settings[keyword_strip]}\\n\"", "                        if keyword_strip in settings.keys():\n                            new_value = settings[keyword_strip]\n                            to_write = f\"{keyword} {new_value}\\n\""),
    B("c19-cp2k-section-lines-deduplicated", CP2K, "        node.data = list(new_data)\n    else:\n        node.data = list(data)", "    else:\n        new_data = list(data)\n    node.data = list(dict.fromkeys(new_data))", "R-19.11", control=True, why="seeded C19_g"),
    B("c19-cp2k-unaddressed-line-dropped", CP2K, "            else:\n                new_data.append(line)\n        for key in data:", "        for key in data:", "R-19.11"),
    K("c19-keep-cp2k-section-store-direct", CP2K, "        node.data = list(new_data)\n    else:", "        node.data = new_data\n    else:"),
    B("c19-trr-frame-by-computed-offset", GROMACS, '    idx = 0\n    with open(filename, "rb") as infile:\n        while True:\n            try:\n                header, _ = read_trr_header(infile)\n                if idx == index:\n                    data = read_trr_data(infile, header)\n                    return header, data\n                skip_trr_data(infile, header)\n                idx += 1\n                if idx > index:\n                    logger.error("Frame %i not found in %s", index, filename)\n                    return None, None\n            except EOFError:\n                return None, None\n', '    with open(filename, "rb") as infile:\n        try:\n            header, header_size = read_trr_header(infile)\n            if index > 0:\n                data_size = sum(header[key] for key in TRR_DATA_ITEMS)\n                infile.seek(index * (header_size + data_size))\n                header, _ = read_trr_header(infile)\n            data = read_trr_data(infile, header)\n            return header, data\n        except EOFError:\n            return None, None\n', "R-19.9", why="seeded C19_f"),
    B("c19-template-regex-greedy", ENGBASE, '        reg = re.compile(rf"(.*?){delim}")\n        written = set()', '        reg = re.compile(rf"(.*){re.escape(delim)}")\n        written = set()', "R-19.10", control=True, why="seeded C19_d"),
    K("c19-keep-template-regex-escaped", ENGBASE, 'reg = re.compile(rf"(.*?){delim}")', 'reg = re.compile(rf"(.*?){re.escape(delim)}")', count=2),
    B("c19-cp2k-extract-off-by-one", CP2K, "        for i, snapshot in enumerate(read_xyz_file(traj_file)):\n            if i == idx:\n                box, xyz, vel, names = convert_snapshot(snapshot)\n                if os.path.isfile(out_file):\n                    logger.debug(\"CP2K will overwrite", "        for i, snapshot in enumerate(read_xyz_file(traj_file), 1):\n            if i == idx:\n                box, xyz, vel, names = convert_snapshot(snapshot)\n                if os.path.isfile(out_file):\n                    logger.debug(\"CP2K will overwrite", "R-19.9", control=True),
    B("c19-lammps-extract-next-frame", LAMMPS, "        id_type, pos, vel, box = read_lammpstrj(traj_file, idx, self.n_atoms)\n        write_lammpstrj(out_file, id_type, pos, vel, box)", "        id_type, pos, vel, box = read_lammpstrj(traj_file, idx + 1, self.n_atoms)\n        write_lammpstrj(out_file, id_type, pos, vel, box)", "R-19.9"),
    B("c19-ase-extract-from-end", ASE, "        atoms = traj[idx]\n", "        atoms = traj[-idx]\n", "R-19.9"),
    B("c19-lammps-box-of-previous-frame", LAMMPS, "    box = np.genfromtxt(infile, skip_header=block_size * frame + 5, max_rows=3)", "    box = np.genfromtxt(infile, skip_header=n_atoms * frame + 5, max_rows=3)", "R-19.9"),
    B("c19-trr-counter-from-one", GROMACS, "    idx = 0\n    with open(filename, \"rb\") as infile:\n        while True:\n            try:\n                header, _ = read_trr_header(infile)\n                if idx == index:", "    idx = 1\n    with open(filename, \"rb\") as infile:\n        while True:\n            try:\n                header, _ = read_trr_header(infile)\n                if idx == index:", "R-19.9"),
    K("c19-keep-cp2k-extract-flipped-test", CP2K, "        for i, snapshot in enumerate(read_xyz_file(traj_file)):\n            if i == idx:\n                box, xyz, vel, names = convert_snapshot(snapshot)\n                if os.path.isfile(out_file):\n                    logger.debug(\"CP2K will overwrite", "        for i, snapshot in enumerate(read_xyz_file(traj_file)):\n            if idx == i:\n                box, xyz, vel, names = convert_snapshot(snapshot)\n                if os.path.isfile(out_file):\n                    logger.debug(\"CP2K will overwrite"),
    B("c19-ase-reverse-momenta-mixup", ASE, "        vel = atoms.get_velocities()\n        atoms.set_velocities(-vel)\n        write(outfile, atoms)", "        atoms.set_momenta(-atoms.get_velocities())\n        write(outfile, atoms)", "R-19.5", why="seeded C11_c"),
    B("c19-lammps-shared-box-buffer", ENGPARTS, "            coordinate_snapshot = np.zeros((N_atoms, 6), dtype=np.float64)\n            box_snapshot = np.zeros((3, 3), dtype=np.float64)\n    return trajectory, box", "            coordinate_snapshot = np.zeros((N_atoms, 6), dtype=np.float64)\n    return trajectory, box", "R-19.8", control=True, why="seeded C19_c (same idea as C12_a)"),
    B("c19-lammps-reverse-unpack-permuted", LAMMPS, "        id_type, pos, vel, box = read_lammpstrj(filename, 0, self.n_atoms)\n        vel *= -1.0", "        id_type, vel, pos, box = read_lammpstrj(filename, 0, self.n_atoms)\n        vel *= -1.0", "R-19.7", control=True),
    B("c19-turtle-snapshot-unpack-permuted", TURTLE, "            box, xyz, vel, names = convert_snapshot(snapshot)\n            return xyz, vel, box, names", "            xyz, box, vel, names = convert_snapshot(snapshot)\n            return xyz, vel, box, names", "R-19.7"),
    B("c19-gromacs-writer-args-swapped", GROMACS, "            write_gromos96_file(out_file, self.top, xyz, vel, box)", "            write_gromos96_file(out_file, self.top, vel, xyz, box)", "R-19.7"),
    B("c19-g96-width-writer", GROMACS, '_G96_FMT = "{0:}{1:15.9f}{2:15.9f}{3:15.9f}\\n"', '_G96_FMT = "{0:}{1:16.9f}{2:16.9f}{3:16.9f}\\n"', "R-19.1", control=True),
    B("c19-g96-width-reader", GROMACS, "    _len = 15\n", "    _len = 14\n", "R-19.1"),
    B("c19-g96-prefix-shifted", GROMACS, "    _pos = 24\n", "    _pos = 25\n", "R-19.1"),
    B("c19-g96-box-dispatch", GROMACS, "                    if len(box) == 3:\n                        outfile.write(_G96_BOX_FMT_3.format(*box))\n                    else:\n                        outfile.write(_G96_BOX_FMT.format(*box))", "                    if len(box) == 3:\n                        outfile.write(_G96_BOX_FMT.format(*box))\n                    else:\n                        outfile.write(_G96_BOX_FMT_3.format(*box))", "R-19.1"),
    B("c19-xyz-velocity-order", ENGPARTS, "                vel[i, 0],\n                vel[i, 1],\n                vel[i, 2],", "                vel[i, 1],\n                vel[i, 0],\n                vel[i, 2],", "R-19.2", control=True),
    B("c19-xyz-box-token", ENGPARTS, "header.append(f'Box: {", "header.append(f'Cell: {", "R-19.2"),
    B("c19-xyz-extra-header-line", ENGPARTS, '        output_file.write(header_str)\n', '        output_file.write(header_str)\n        output_file.write("# infretis\\n")\n', "R-19.2"),
    B("c19-lammps-header-lines", LAMMPS, '        to_write += "ITEM: ATOMS id type x y z vx vy vz\\n"', '        to_write += "ITEM: UNITS real\\nITEM: ATOMS id type x y z vx vy vz\\n"', "R-19.3", control=True),
    B("c19-lammps-read-columns", LAMMPS, "    vel = posvel[id_sorted, 5:8]", "    vel = posvel[id_sorted, 4:7]", "R-19.3"),
    B("c19-lammps-skip-header", LAMMPS, "infile, skip_header=block_size * frame + 9, max_rows=n_atoms", "infile, skip_header=block_size * frame + 8, max_rows=n_atoms", "R-19.3"),
    B("c19-lammps-onthefly-columns", ENGPARTS, "                coordinate_snapshot[atom, :] = spl[2:8]", "                coordinate_snapshot[atom, :] = spl[1:7]", "R-19.3"),
    B("c19-lammps-dump-without-sentinel", LAMMPS, '" id type x y z vx vy vz id",', '" id type x y z vx vy vz",', "R-19.3"),
    B("c19-trr-data-item-dropped", GROMACS, '    "box_size",\n    "vir_size",\n    "pres_size",\n    "x_size",\n    "v_size",\n    "f_size",\n)\n\n\nclass GromacsEngine', '    "box_size",\n    "pres_size",\n    "x_size",\n    "v_size",\n    "f_size",\n)\n\n\nclass GromacsEngine', "R-19.4", control=True),
    B("c19-trr-head-count", GROMACS, '_HEAD_FMT = "{}13i"', '_HEAD_FMT = "{}12i"', "R-19.4"),
    B("c19-trr-swap-endian", GROMACS, '    if endian == "<":\n        return ">"', '    if endian == "<":\n        return "<"', "R-19.4"),
    B("c19-trr-coord-precision", GROMACS, '    if double:\n        fmt = f"{endian}{natoms * _DIM}d"\n    else:\n        fmt = f"{endian}{natoms * _DIM}f"', '    if double:\n        fmt = f"{endian}{natoms * _DIM}f"\n    else:\n        fmt = f"{endian}{natoms * _DIM}f"', "R-19.4"),
    B("c19-trr-read-order", GROMACS, '    for key in ("box", "vir", "pres"):\n        header_key', '    for key in ("box", "pres", "vir"):\n        header_key', "R-19.4"),
    B("c19-reverse-changes-positions", CP2K, "        xyz, vel, box, names = self._read_configuration(filename)\n        write_xyz_trajectory(\n            outfile, xyz, -1.0 * vel, names, box, append=False\n        )", "        xyz, vel, box, names = self._read_configuration(filename)\n        xyz *= 1.0\n        write_xyz_trajectory(\n            outfile, xyz, -1.0 * vel, names, box, append=False\n        )", "R-19.5", control=True),
    B("c19-reverse-not-negated", TURTLE, "            outfile, xyz, -1.0 * vel, names, box, append=False", "            outfile, xyz, 1.0 * vel, names, box, append=False", "R-19.5"),
    B("c19-reverse-lammps-not-negated", LAMMPS, "        id_type, pos, vel, box = read_lammpstrj(filename, 0, self.n_atoms)\n        vel *= -1.0\n", "        id_type, pos, vel, box = read_lammpstrj(filename, 0, self.n_atoms)\n", "R-19.5"),
    B("c19-box-order-transposed", ENGPARTS, "            matrix[0, 1],\n            matrix[0, 2],\n            matrix[1, 0],\n            matrix[1, 2],\n            matrix[2, 0],\n            matrix[2, 1],", "            matrix[1, 0],\n            matrix[2, 0],\n            matrix[0, 1],\n            matrix[2, 1],\n            matrix[0, 2],\n            matrix[1, 2],", "R-19.6", control=True, why="seeded C19_a (literal form)"),
    B("c19-box-order-comprehension-transposed", ENGPARTS, "    return np.array(\n        [\n            matrix[0, 0],\n            matrix[1, 1],\n            matrix[2, 2],\n            matrix[0, 1],\n            matrix[0, 2],\n            matrix[1, 0],\n            matrix[1, 2],\n            matrix[2, 0],\n            matrix[2, 1],\n        ]\n    )", "    dim = range(3)\n    diagonal = [matrix[i, i] for i in dim]\n    off_diagonal = [matrix[i, j] for j in dim for i in dim if i != j]\n    return np.array(diagonal + off_diagonal)", "R-19.6", why="seeded C19_a"),
    K("c19-keep-box-order-comprehension", ENGPARTS, "    return np.array(\n        [\n            matrix[0, 0],\n            matrix[1, 1],\n            matrix[2, 2],\n            matrix[0, 1],\n            matrix[0, 2],\n            matrix[1, 0],\n            matrix[1, 2],\n            matrix[2, 0],\n            matrix[2, 1],\n        ]\n    )", "    dim = range(3)\n    diagonal = [matrix[i, i] for i in dim]\n    off_diagonal = [matrix[i, j] for i in dim for j in dim if i != j]\n    return np.array(diagonal + off_diagonal)"),
    K("c19-keep-g96-width-via-const", GROMACS, "    _len = 15\n", "    _len = 5 * 3\n"),
    K("c19-keep-reverse-unary", CP2K, "outfile, xyz, -1.0 * vel, names, box, append=False", "outfile, xyz, -vel, names, box, append=False"),
    K("c19-keep-trr-items-list", GROMACS, 'TRR_DATA_ITEMS = (\n    "box_size",', 'TRR_DATA_ITEMS = (  # file order\n    "box_size",'),
]
