"""C17 - exactly the requested number of moves runs; each result is consumed once.

Decided: the exactly-once typestate of the task runner and of result
delivery, and that stop decisions relate the step counter to the target.
The step-count arithmetic over (workers, steps, restart point) is a counting
argument and is not decided here.
"""

from __future__ import annotations

import ast

from ..cfg import cfg_of
from ..flow import flow_of, path_of
from ..flow import deref
from ..loader import FUNC, AnalysisError, dotted, last_name, loc, short, walk_local
from ..util import ASYNC, REPEX, SCHED, SETUP, is_self_attr, kwarg, last_key
from ..variants import B, K

EXPLANATION = (
    "(R-17.1) typestate {pending, completed} on the CFG of "
    "aiorunner._task_wrapper: for every queue item obtained, every path to the "
    "next loop iteration executes exactly one of future.set_result / "
    "future.set_exception and exactly one queue.task_done(), and neither when "
    "the queue was empty; (R-17.2) future_list.as_completed removes a future "
    "before returning it, only add() inserts, every submit_work(...) value is "
    "passed to futures.add, treat_output consumes future.result() of the "
    "future just returned, runner.stop() follows both loops; (R-17.3) every "
    "guard that ends or refuses a run on the basis of the completed-step "
    "counter compares it with the target number of steps; (R-17.5) the "
    "comparisons of initiate(), loop() and the submission guard of the main loop are "
    "normalised to integer half-spaces over (cstep, tsteps, workers, toinitiate); with "
    "c0 completed steps at the (re)start the loop consumes min(T+a, T+b) - c0 results and "
    "the scheduler submits (I0 - z) + (T + d - W - c0) jobs; the rule requires the offsets "
    "that make both equal to T - c0 (refusal bound 0, `workers` initiations, min(a, b) = 0, "
    "d = 0), so an off-by-one in any of the five comparators is reported with its consequence."
)
NOT_DECIDED = (
    "R-17.5 is a counting argument for the structure the two loops have today (one increment and one "
    "consumed result per iteration of the main loop, one submission per guard evaluation - the latter two "
    "are R-17.2 facts); it assumes steps - c0 >= workers (C18 validates workers; setup_config refuses "
    "finished runs). Interleavings of the worker coroutines are not modelled (R-17.1 decides the per-item typestate)."
)
ASSUMPTIONS = [
    "completing a pending asyncio future (set_result / set_exception) does not raise",
    "the task function is set before work is submitted (assert self._task_f)",
    "asyncio.QueueEmpty is raised only by queue.get_nowait()",
]


def r171(ctx):
    rid = "R-17.1"
    tree = ctx.tree
    f = tree.func(ASYNC, "aiorunner._task_wrapper")
    cfg = cfg_of(f)
    gets = [c for c in walk_local(f) if isinstance(c, ast.Call) and last_name(c) in ("get_nowait", "get")]
    if not gets:
        raise AnalysisError("R-17.1: queue.get_nowait() not found in _task_wrapper")
    loops = [w for w in walk_local(f) if isinstance(w, ast.While)]
    if not loops:
        raise AnalysisError("R-17.1: worker loop not found")
    head = cfg.node_of(loops[0].test)
    comp = [c for c in walk_local(f) if isinstance(c, ast.Call) and last_name(c) in ("set_result", "set_exception")]
    done = [c for c in walk_local(f) if isinstance(c, ast.Call) and last_name(c) == "task_done"]
    comp_n = [cfg.node_of(c) for c in comp]
    done_n = [cfg.node_of(c) for c in done]

    def reach(start_ids, avoid, no_exc_from=()):
        """forward reachability from node ids, not following exc edges out of given nodes"""
        avoid = {a.id for a in avoid}
        skip = {n.id for n in no_exc_from}
        seen = set()
        todo = list(start_ids)
        while todo:
            x = todo.pop()
            if x in seen or x in avoid:
                continue
            seen.add(x)
            for s, lab in cfg.succ[x]:
                if lab == "exc" and x in skip:
                    continue
                if lab == "exc" and cfg.nodes[s].kind == "except" and cfg.nodes[s].ast.type is not None \
                        and "QueueEmpty" in ast.unparse(cfg.nodes[s].ast.type) and x not in get_ids:
                    continue  # only queue.get_nowait() raises QueueEmpty (assumption, listed)
                todo.append(s)
        return seen

    get_ids = {cfg.node_of(g).id for g in gets}

    for g in gets:
        gn = cfg.node_of(g)
        normal = [s for s, lab in cfg.succ[gn.id] if lab != "exc"]
        empty_handlers = [s for s, lab in cfg.succ[gn.id] if lab == "exc"]
        # (a) at least one completion before the next iteration / normal exit
        r = reach(normal, comp_n, no_exc_from=comp_n)
        if head.id in r or cfg.exit.id in r:
            ctx.bad(rid, g, "a unit taken from the queue can reach the next loop iteration without its future being completed (neither set_result nor set_exception): the scheduler waits for ever")
        else:
            ctx.ok(rid, g, "every path from a dequeued unit to the next iteration completes its future")
        # at most one completion
        multi = False
        for c in comp_n:
            r2 = reach([s for s, lab in cfg.succ[c.id] if lab != "exc"], [head], no_exc_from=comp_n)
            if any(o.id in r2 for o in comp_n):
                multi = True
        if multi:
            ctx.bad(rid, comp[0], "a future can be completed twice for one unit of work (InvalidStateError kills the worker task, or a result is overwritten)")
        else:
            ctx.ok(rid, comp[0], "at most one of set_result / set_exception per unit (exception edges out of the completion calls excluded by assumption)")
        # (b) exactly one task_done
        r3 = reach(normal, done_n, no_exc_from=comp_n)
        if head.id in r3:
            ctx.bad(rid, g, "queue.task_done() can be skipped for a dequeued unit (e.g. on the exception path): runner.stop()/queue.join() never sees the queue drained")
        elif not done_n:
            ctx.bad(rid, g, "queue.task_done() is never called")
        else:
            twice = False
            for d in done_n:
                r4 = reach([s for s, lab in cfg.succ[d.id] if lab != "exc"], [head], no_exc_from=comp_n)
                if any(o.id in r4 for o in done_n):
                    twice = True
            if twice:
                ctx.bad(rid, done[0], "queue.task_done() can be called twice for one unit (ValueError: task_done() called too many times)")
            else:
                ctx.ok(rid, done[0], "exactly one task_done() per dequeued unit on every path")
        # (c) nothing is completed when the queue was empty
        for h in empty_handlers:
            r5 = reach([h], [head], no_exc_from=comp_n)
            if any(c.id in r5 for c in comp_n + done_n):
                ctx.bad(rid, g, "a future is completed / task_done() is called although no unit was obtained from the queue")
            else:
                ctx.ok(rid, g, "queue empty: nothing is completed, the worker sleeps and polls again")
    # the executor call result is what is delivered
    for c in comp:
        if last_name(c) == "set_result":
            fl = flow_of(f)
            srcs = fl.sources(c.args[0], fl.cfg.node_of(c)) if c.args else []
            if srcs and all(k == "expr" and isinstance(n, ast.Await) for k, n, _, _ in srcs):
                ctx.ok(rid, c, "set_result delivers the awaited result of the executor call")
            else:
                ctx.bad(rid, c, "set_result does not deliver the result of the executor call for this unit")


def r172(ctx):
    rid = "R-17.2"
    tree = ctx.tree
    f = tree.func(ASYNC, "future_list.as_completed")
    fl = flow_of(f)
    cfg = fl.cfg
    rets = [r for r in walk_local(f) if isinstance(r, ast.Return) and r.value is not None]
    removes = [c for c in walk_local(f) if isinstance(c, ast.Call) and isinstance(c.func, ast.Attribute) and c.func.attr in ("remove", "pop") and path_of(c.func.value) == "self._futures"]
    for r in rets:
        rp = path_of(r.value)
        ok = True
        for d, _ in fl.rd(rp, cfg.node_of(r)) if rp else []:
            if d.kind == "assign" and isinstance(d.value, ast.Constant) and d.value.value is None:
                continue
            rm = [c for c in removes if c.args and path_of(c.args[0]) == path_of(d.value)]
            rn = [cfg.node_of(c) for c in rm]
            if not rm or cfg.reaches(d.at, cfg.node_of(r), avoid=rn):
                ok = False
            # the returned future must be done
            g = [ast.unparse(e) for e, t, _ in cfg.guards(d.at) if t]
            if not any(x.endswith(".done()") for x in g):
                ok = False
        if ok:
            ctx.ok(rid, r, "as_completed returns only a done future, and removes it from the list first")
        else:
            ctx.bad(rid, r, "as_completed can return a future without removing it from the list (the same result is delivered again) or without it being done")
    # only add() inserts
    c = tree.cls(ASYNC, "future_list")
    for st in [s for s in c.body if isinstance(s, FUNC)]:
        for x in walk_local(st):
            if isinstance(x, ast.Call) and isinstance(x.func, ast.Attribute) and x.func.attr in ("append", "extend", "insert") and path_of(x.func.value) == "self._futures":
                if st.name == "add":
                    ctx.ok(rid, x, "only add() inserts into the future list")
                else:
                    ctx.bad(rid, x, f"future_list.{st.name} inserts into the list")
    # scheduler
    s = tree.func(SCHED, "scheduler")
    sfl = flow_of(s)
    scfg = sfl.cfg
    subs = [x for x in walk_local(s) if isinstance(x, ast.Call) and last_name(x) == "submit_work"]
    if len(subs) < 2:
        raise AnalysisError("R-17.2: expected two submit_work call sites in scheduler")
    adds = [a for a in walk_local(s) if isinstance(a, ast.Call) and last_name(a) == "add" and a.args]
    for x in subs:
        par = x._parent
        via_temp = False
        for a in adds:
            e_, _at = deref(sfl, a.args[0], scfg.node_of(a))
            if e_ is x:
                via_temp = True
        if (isinstance(par, ast.Call) and last_name(par) == "add" and x in par.args) or via_temp:
            ctx.ok(rid, x, "submitted work's future is handed to futures.add")
        else:
            ctx.bad(rid, x, "a submitted unit's future is not added to the managed list: its result is never consumed")
    tos = [x for x in walk_local(s) if isinstance(x, ast.Call) and last_name(x) == "treat_output"]
    for x in tos:
        a = x.args[0] if x.args else None
        if a is not None:
            a = deref(sfl, a, scfg.node_of(x))[0]
        ok = isinstance(a, ast.Call) and last_name(a) == "result" and isinstance(a.func, ast.Attribute)
        if ok:
            srcs = sfl.sources(a.func.value, scfg.node_of(x))
            ok = bool(srcs) and all(k == "expr" and isinstance(n, ast.Call) and last_name(n) == "as_completed" for k, n, _, _ in srcs)
            # one result per as_completed: the as_completed call is in the same loop iteration
        if ok:
            ctx.ok(rid, x, "treat_output consumes future.result() of the future just returned by as_completed")
        else:
            ctx.bad(rid, x, "treat_output is not applied to the result of the future returned by futures.as_completed()")
    if len(tos) != 1:
        ctx.bad(rid, s, f"scheduler applies treat_output at {len(tos)} sites (expected exactly one per completed future)")
    stops = [scfg.node_of(x) for x in walk_local(s) if isinstance(x, ast.Call) and last_name(x) == "stop"]
    if stops and not scfg.reaches(scfg.entry, scfg.exit, avoid=stops):
        ctx.ok(rid, s, "runner.stop() is on every normal path out of scheduler")
    else:
        ctx.bad(rid, s, "scheduler can return without stopping the runner")


STEP_WORDS = ("tsteps", "['simulation']['steps']", '["simulation"]["steps"]', ".steps")


def r173(ctx):
    rid = "R-17.3"
    tree = ctx.tree
    sites = [(REPEX, "REPEX_state.initiate"), (REPEX, "REPEX_state.loop"), (SCHED, "scheduler"), (SETUP, "setup_config")]
    n = 0
    for rel, q in sites:
        f = tree.func(rel, q)
        fl = flow_of(f)
        cfg = fl.cfg
        for t in [x for x in cfg.nodes if x.kind == "test"]:
            txt = ast.unparse(t.ast)
            # does the test read the completed-step counter?
            reads_c = "cstep" in txt
            if not reads_c:
                for nm in [x for x in ast.walk(t.ast) if isinstance(x, ast.Name)]:
                    for k, node, at, extra in fl.sources(nm, t):
                        if k == "expr" and "cstep" in ast.unparse(node):
                            reads_c = True
            if not reads_c:
                continue
            # is it a stop/refuse decision?  (a branch leads to `return False/None` or ends a loop / refuses submission)
            decides = False
            for b in [x for x in cfg.nodes if x.kind == "branch" and x.ast is t.ast]:
                for r in [x for x in walk_local(f) if isinstance(x, ast.Return)]:
                    if cfg.dominates(b, cfg.node_of(r)) and (r.value is None or (isinstance(r.value, ast.Constant) and r.value.value in (None, False))):
                        decides = True
                for c in [x for x in walk_local(f) if isinstance(x, ast.Call) and last_name(x) in ("submit_work", "prep_md_items")]:
                    if cfg.dominates(b, cfg.node_of(c)):
                        decides = True
            if "printing" in txt or "screen" in txt or " in (" in txt or "not in (" in txt:
                decides = False
            if not decides:
                continue
            n += 1
            full = txt
            for nm in [x for x in ast.walk(t.ast) if isinstance(x, ast.Name)]:
                for k, node, at, extra in fl.sources(nm, t):
                    if k == "expr":
                        full += " " + ast.unparse(node)
                    elif k in ("param", "free") or k.startswith("sub:"):
                        full += " " + str(extra)
            if any(w in full for w in STEP_WORDS) or "steps" in full:
                ctx.ok(rid, t.ast, f"{q}: stop/submit decision `{short(t.ast, 60)}` relates the step counter to the target number of steps")
            else:
                ctx.bad(rid, t.ast,
                        f"{q}: a run is refused/ended on the basis of the completed-step counter without comparing it with the requested number of steps: "
                        "after a restart that made no progress, restarting with a larger step count is refused",
                        construct=f"{q}: {short(t.ast, 80)}")
    if n < 4:
        raise AnalysisError(f"R-17.3: only {n} step-counter decisions found")
    s = tree.func(SCHED, "scheduler")
    for t in [x for x in walk_local(s) if isinstance(x, ast.If)]:
        if "workers" in ast.unparse(t.test):
            ctx.note(f"submission inequality (printed, not armed): {ast.unparse(t.test)}")


def r174(ctx):
    """A finished run leaves no job in flight: the completed job is removed from the in-flight
    record, and the selector used for the removal has the representation of every filling site
    (shared with C03 R-3.5 / R-3.8)."""
    from . import c03

    class Proxy:
        def __init__(self, c):
            self._c = c
            self.tree = c.tree

        def ok(self, rid, node, what, nontrivial=True):
            self._c.ok("R-17.4", node, what, nontrivial)

        def bad(self, rid, node, message, **kw):
            self._c.bad("R-17.4", node, message, **kw)

        def note(self, m):
            self._c.note(m)

    cls = ctx.tree.cls(REPEX, "REPEX_state")
    methods = {s.name: s for s in cls.body if isinstance(s, FUNC)}
    c03.r38(Proxy(ctx), methods)
    # removal of the finished job before the commit
    f = methods["treat_output"]
    cfg = cfg_of(f)
    removes = [c for c in walk_local(f) if isinstance(c, ast.Call) and isinstance(c.func, ast.Attribute) and c.func.attr in ("pop", "remove") and path_of(c.func.value) == "self.locked"]
    # the record rebuilt without the completed job (selection of the old records; the selector itself is decided by C03 R-3.5)
    removes += [st for st in walk_local(f) if isinstance(st, ast.Assign) and any(path_of(t) == "self.locked" for t in st.targets) and isinstance(st.value, ast.ListComp)
                and len(st.value.generators) == 1 and path_of(st.value.generators[0].iter) == "self.locked" and st.value.generators[0].ifs]
    commits = [c for c in walk_local(f) if isinstance(c, ast.Call) and is_self_attr(c.func, "write_toml")]
    if removes and commits and all(cfg.reaches(cfg.node_of(r), cfg.node_of(c)) for r in removes for c in commits):
        ctx.ok("R-17.4", removes[0], "treat_output removes the completed job from self.locked before write_toml")
    else:
        ctx.bad("R-17.4", f, "treat_output does not remove the completed job from the in-flight record before the commit: a finished run still lists jobs in flight")


# ---------------------------------------------------------------- R-17.5 step arithmetic
_SYMS = {"cstep": "c", "tsteps": "T", "steps": "T", "workers": "W", "toinitiate": "t"}


def _linear(e):
    """Linear form {symbol: coeff, 1: const} of an integer expression over the step counter,
    the target, the number of workers and the initiation counter; None if not of that form."""
    if isinstance(e, ast.Constant) and isinstance(e.value, int) and not isinstance(e.value, bool):
        return {1: e.value}
    if isinstance(e, (ast.Attribute, ast.Name)):
        nm = e.attr if isinstance(e, ast.Attribute) else e.id
        if nm in _SYMS:
            return {_SYMS[nm]: 1}
        return None
    if isinstance(e, ast.BinOp) and isinstance(e.op, (ast.Add, ast.Sub)):
        a, b = _linear(e.left), _linear(e.right)
        if a is None or b is None:
            return None
        out = dict(a)
        sgn = 1 if isinstance(e.op, ast.Add) else -1
        for k, v in b.items():
            out[k] = out.get(k, 0) + sgn * v
        return {k: v for k, v in out.items() if v != 0}
    if isinstance(e, ast.UnaryOp) and isinstance(e.op, ast.USub):
        a = _linear(e.operand)
        return None if a is None else {k: -v for k, v in a.items()}
    return None


def _halfspace(test, truth=True):
    """Normalise a comparison to  lin >= 0  (integers). Returns the linear form or None.
    `truth=False` normalises the negation of the test."""
    if isinstance(test, ast.UnaryOp) and isinstance(test.op, ast.Not):
        return _halfspace(test.operand, not truth)
    if not (isinstance(test, ast.Compare) and len(test.ops) == 1):
        return None
    a, b = _linear(test.left), _linear(test.comparators[0])
    if a is None or b is None:
        return None
    op = test.ops[0]
    if not truth:
        op = {ast.Lt: ast.GtE, ast.LtE: ast.Gt, ast.Gt: ast.LtE, ast.GtE: ast.Lt}.get(type(op), type(None))()
        if op is None:
            return None

    def sub(x, y, k=0):
        out = dict(x)
        for kk, v in y.items():
            out[kk] = out.get(kk, 0) - v
        out[1] = out.get(1, 0) + k
        return {kk: v for kk, v in out.items() if v != 0 or kk == 1}

    if isinstance(op, ast.GtE):
        return sub(a, b)
    if isinstance(op, ast.Gt):
        return sub(a, b, -1)
    if isinstance(op, ast.LtE):
        return sub(b, a)
    if isinstance(op, ast.Lt):
        return sub(b, a, -1)
    return None


def _offset(h, shape):
    """h is a half-space lin >= 0; shape gives the expected coefficients of the symbols.
    Returns the constant term if the symbol coefficients match, else None."""
    if h is None:
        return None
    if {k: v for k, v in h.items() if k != 1} != shape:
        return None
    return h.get(1, 0)


def r175(ctx):
    """Exactly `steps` moves: counting over the comparators of the two scheduler loops.

    With c0 completed steps at (re)start, T requested steps and W workers (T - c0 >= W >= 1):
      initiate(): refuses iff c >= T + r;  returns True I0 - z times (I0 initial counter, test t >= z)
      loop():     leaves iff c >= T + a (before the increment), c += 1, goes on iff c <= T + b
      scheduler:  submits another job iff c + W <= T + d (c after the increment)
    Results consumed = min(T + a, T + b) - c0; jobs submitted = (I0 - z) + (T + d - W - c0).
    Exactly T - c0 moves complete and nothing is left in flight iff
      r == 0, I0 - z == W, min(a, b) == 0 and d == 0."""
    rid = "R-17.5"
    tree = ctx.tree
    init = tree.func(REPEX, "REPEX_state.__init__")
    initiate = tree.func(REPEX, "REPEX_state.initiate")
    loop = tree.func(REPEX, "REPEX_state.loop")
    sched = tree.func(SCHED, "scheduler")
    # I0
    i0 = None
    for n in walk_local(init):
        if isinstance(n, ast.Assign) and isinstance(n.targets[0], ast.Attribute) and n.targets[0].attr == "toinitiate":
            i0 = _linear(n.value)
    if i0 is None:
        raise AnalysisError("R-17.5: initial value of toinitiate is not a linear form of workers")
    # initiate: refusal and count
    r = z = None
    dec = None
    for n in initiate.body:
        if isinstance(n, ast.If) and any(isinstance(x, ast.Return) and isinstance(x.value, ast.Constant) and x.value.value is False for x in n.body):
            hs_ = _halfspace(n.test)
            r = _offset(hs_, {"c": 1, "T": -1})
            r_node = n
            started_form = False
            if r is None and _offset(hs_, {"c": 1, "T": -1, "W": 1, "t": -1}) is not None:
                # refuse iff cstep + (workers - toinitiate) >= tsteps + k: the workers already started are counted
                r = _offset(hs_, {"c": 1, "T": -1, "W": 1, "t": -1})
                started_form = True
            elif r == 0:
                ctx.bad(rid, n, "initiate() refuses to start a worker only when no step is left (cstep >= tsteps) and does not count the workers it has already started: at a (re)start with fewer remaining steps than workers every worker is started, tsteps - cstep results are consumed and workers - (tsteps - cstep) jobs are still in flight when the run ends - a finished run's restart.toml lists jobs in flight",
                        construct="initiate refusal ignores the workers already started")
            if r is None and hs_ is not None and hs_.get("c") == 1 and hs_.get("T") == -1 and hs_.get("W", 0) != 0 and set(hs_) <= {"c", "T", "W", 1}:
                # the refusal depends on the number of workers: refuse iff cstep + w*workers >= tsteps - k
                w_ = hs_.get("W", 0)
                ctx.bad(rid, n, f"initiate() refuses to start workers iff cstep + ({w_})*workers >= tsteps + ({-hs_.get(1, 0)}): " + ("when no more steps than that remain, no job is ever started - loop() still counts the step counter up to tsteps with nothing to wait for, so restart.toml claims a finished run although fewer moves than requested (possibly none) were completed" if w_ > 0 else "jobs are started although no step remains"), construct="initiate refusal bound " + short(n.test, 50))
                r = 0  # reported; go on with the other comparators
        if isinstance(n, ast.AugAssign) and isinstance(n.target, ast.Attribute) and n.target.attr == "toinitiate":
            dec = n
        if isinstance(n, ast.Return) and isinstance(n.value, ast.Compare):
            z = _offset(_halfspace(n.value), {"t": 1})
            z_node = n
    if r is None or z is None or dec is None or not (isinstance(dec.op, ast.Sub) and isinstance(dec.value, ast.Constant) and dec.value.value == 1):
        raise AnalysisError("R-17.5: initiate() is not of the form `if not cstep < tsteps: return False; ...; toinitiate -= 1; return toinitiate >= k`")
    # refuse iff c - T + r0 >= 0  <=> c >= T - r0
    r = -r
    # True iff t + z0 >= 0 <=> t >= -z0
    z = -z
    if r == 0 and started_form:
        ctx.ok(rid, r_node, "initiate() refuses exactly when cstep + (workers already started) >= tsteps: min(workers, tsteps - cstep) jobs are started, one per result that will be consumed")
    elif r != 0:
        ctx.bad(rid, r_node, f"initiate() refuses to start workers iff cstep{' + started workers' if started_form else ''} >= tsteps + ({r}): " + ("jobs are started although no step remains - they are still in flight when the run ends" if r > 0 else "no worker is started although steps remain"), construct="initiate refusal bound " + short(r_node.test, 40))
    else:
        pass  # the plain form `cstep >= tsteps` was reported above (it ignores the workers already started)
    n_init = dict(i0)
    n_init[1] = n_init.get(1, 0) - z
    n_init = {k: v for k, v in n_init.items() if v != 0}
    if n_init != {"W": 1}:
        ctx.bad(rid, z_node, f"initiate() returns True {n_init} times, not `workers` times: " + "the number of jobs in flight differs from the number of workers (a job's result is never consumed / a worker is never used)", construct="initiation count " + short(z_node, 40))
    else:
        ctx.ok(rid, z_node, "initiate() returns True exactly `workers` times")
    # loop
    a = b = None
    inc = None
    for n in loop.body:
        if isinstance(n, ast.If) and any(isinstance(x, ast.Return) and isinstance(x.value, ast.Constant) and x.value.value is False for x in n.body):
            h = _offset(_halfspace(n.test), {"c": 1, "T": -1})
            if h is not None:
                a, a_node = -h, n
        if isinstance(n, ast.AugAssign) and isinstance(n.target, ast.Attribute) and n.target.attr == "cstep":
            inc = n
        rv, shift = (n.value, 0) if isinstance(n, ast.Return) else (None, 0)
        if isinstance(rv, ast.Name):
            # `within = cstep <= tsteps` kept in a local: the comparison is evaluated where the local is defined
            _fl = flow_of(loop)
            rv, _dat = deref(_fl, rv, _fl.cfg.node_of(n))
            _incs = [x for x in loop.body if isinstance(x, ast.AugAssign) and isinstance(x.target, ast.Attribute) and x.target.attr == "cstep"]
            if isinstance(rv, ast.Compare) and _incs and _dat is not None and not _fl.cfg.reaches(_fl.cfg.node_of(_incs[0]), _dat):
                shift = 1  # evaluated before the counter is advanced: cstep there = final cstep - 1
        if isinstance(n, ast.Return) and isinstance(rv, ast.Compare):
            h = _offset(_halfspace(rv), {"c": -1, "T": 1})
            if h is not None:
                b, b_node = h + shift, n
    if a is None or b is None or inc is None or not (isinstance(inc.op, ast.Add) and isinstance(inc.value, ast.Constant) and inc.value.value == 1):
        raise AnalysisError("R-17.5: loop() is not of the form `if cstep >= tsteps: ... return False; cstep += 1; ...; return cstep <= tsteps`")
    if min(a, b) != 0:
        node = a_node if a < b else b_node
        ctx.bad(rid, node, f"loop() consumes results for tsteps - c0 + ({min(a, b)}) iterations: " + ("more moves than requested are completed" if min(a, b) > 0 else "the last move(s) are never completed and recorded"), construct="loop bound " + short(node.test if isinstance(node, ast.If) else node.value, 40))
    else:
        ctx.ok(rid, a_node, f"loop() runs exactly tsteps - cstep iterations (leaves iff cstep >= tsteps{a:+d} before the increment, goes on iff cstep <= tsteps{b:+d} after it)")
    # scheduler: submission guard inside `while state.loop()`
    d = wcoef = None
    for w in [x for x in walk_local(sched) if isinstance(x, ast.While) and "loop" in ast.unparse(x.test)]:
        for n in [x for x in ast.walk(w) if isinstance(x, ast.If)]:
            if any(isinstance(c, ast.Call) and last_name(c) in ("submit_work", "prep_md_items") for c in ast.walk(n)):
                h = _halfspace(n.test)
                if h is not None and h.get("c") == -1 and h.get("T") == 1 and set(h) <= {"c", "T", "W", 1}:
                    d, wcoef, d_node = h.get(1, 0), -h.get("W", 0), n
    if d is None:
        raise AnalysisError("R-17.5: the submission guard of the main loop is not a linear comparison of the step counter with tsteps (and workers)")
    # the guard is evaluated after each of the tsteps - c0 increments, with cstep = c0+1 .. tsteps; it holds
    # iff cstep <= tsteps + d - wcoef*workers: jobs submitted in the loop = tsteps - c0 + d - wcoef*workers
    # (for tsteps - c0 >= workers), plus `workers` from the initiation; results consumed = tsteps - c0
    if wcoef != 1:
        ctx.bad(rid, d_node, f"the main loop submits a new job iff cstep + {wcoef}*workers <= tsteps + ({d}): over a run, jobs submitted = results consumed + ({d}) + ({1 - wcoef})*workers - the guard does not account for the `workers` jobs already in flight: with 2 or more workers " + ("more jobs are started than results are consumed; the surplus is still in flight when the run ends (moves beyond `steps` run, a finished run's restart file lists jobs in flight)" if (1 - wcoef) > 0 else "fewer jobs are submitted than results are awaited"),
                construct="submission guard " + short(d_node.test, 50))
    elif d != 0:
        ctx.bad(rid, d_node, f"the main loop submits a new job iff cstep + workers <= tsteps + ({d}): jobs submitted = results consumed + ({d}) - " + ("a job is still in flight when the run ends (its move is lost, the run does not 'leave no job in flight')" if d > 0 else "the last iteration(s) find no job to wait for: fewer moves than requested complete"), construct="submission guard " + short(d_node.test, 50))
    else:
        ctx.ok(rid, d_node, "jobs submitted = workers + (tsteps - workers - c0) = results consumed: nothing is left in flight and exactly tsteps - c0 moves complete")


def r177(ctx):
    """Shutdown order of the runner: the worker coroutines stop taking units from the queue as soon
    as the stop event is set, so stop() may set it only after it has seen the queue empty (the
    not-taken side of its `qsize() > 0` / `not empty()` wait dominates the set), and it waits for
    the tasks to end afterwards."""
    rid = "R-17.7"
    tree = ctx.tree
    f = tree.func(ASYNC, "aiorunner.stop")
    cfg = cfg_of(f)
    sets = [c for c in walk_local(f) if isinstance(c, ast.Call) and isinstance(c.func, ast.Attribute) and c.func.attr == "set" and "stop" in ast.unparse(c.func.value)]
    if len(sets) != 1:
        raise AnalysisError(f"R-17.7: {len(sets)} calls that set the stop event in aiorunner.stop (expected 1)")
    sn = cfg.node_of(sets[0])

    def drained(e, t):
        """does the fact (e, t) say: the queue is empty?"""
        txt = ast.unparse(e).replace(" ", "")
        if isinstance(e, ast.Compare) and len(e.ops) == 1 and "qsize()" in txt and isinstance(e.comparators[0], ast.Constant) and e.comparators[0].value == 0:
            op = e.ops[0]
            if isinstance(op, (ast.Gt, ast.NotEq)):
                return not t
            if isinstance(op, (ast.Eq, ast.LtE)):
                return t
        if isinstance(e, ast.Call) and txt.endswith(".empty()") and "queue" in txt.lower():
            return t
        if isinstance(e, ast.Call) and "qsize()" in txt and isinstance(e.func, ast.Attribute) and e.func.attr == "qsize":
            return not t  # truthiness of qsize()
        return False

    dn = [n for n in cfg.nodes if n.kind == "branch" and any(drained(e, t) for e, t in n.facts)]
    if not dn:
        ctx.bad(rid, sets[0], "aiorunner.stop sets the stop event without ever testing that the queue is empty: units still queued are never executed and their futures never resolve", construct="stop(): no drain test")
        return
    if cfg.reaches(cfg.entry, sn, avoid=dn, labels_excluded=("exc",)):
        ctx.bad(rid, sets[0], "aiorunner.stop sets the stop event before it has seen the queue empty: the worker coroutines finish their current unit and never dequeue another, so units that are still queued are never executed, their results are never delivered, and stop() waits for ever on the queue", construct="stop(): stop event set before the queue is drained")
    else:
        ctx.ok(rid, sets[0], "the stop event is set only after the queue was observed empty")
    waits = [c for c in walk_local(f) if isinstance(c, ast.Call) and "wait_for_tasks_to_end" in ast.unparse(c)]
    if waits and all(cfg.reaches(sn, cfg.node_of(w)) and not cfg.reaches(cfg.entry, cfg.node_of(w), avoid=[sn], labels_excluded=("exc",)) for w in waits):
        ctx.ok(rid, waits[0], "stop() waits for the tasks to end after the stop event")
    else:
        ctx.bad(rid, sets[0], "stop() does not wait for the worker tasks to end after setting the stop event", construct="stop(): no wait for tasks")
    # the wait is unconditional in time: a unit that is still executing must be allowed to deliver its result
    for w in waits:
        p_ = getattr(w, "_parent", None)
        bounded = None
        while p_ is not None and not isinstance(p_, ast.stmt):
            if isinstance(p_, ast.Call) and last_name(p_) in ("wait_for", "wait", "timeout") and (len(p_.args) >= 2 or any(k.arg == "timeout" for k in p_.keywords)):
                tm = p_.args[1] if len(p_.args) >= 2 else next(k.value for k in p_.keywords if k.arg == "timeout")
                if not (isinstance(tm, ast.Constant) and tm.value is None):
                    bounded = (p_, tm)
            p_ = getattr(p_, "_parent", None)
        if bounded:
            ctx.bad(rid, bounded[0], f"stop() bounds the wait for the worker tasks by {short(bounded[1], 20)} s (`{short(bounded[0], 50)}`): a unit still executing when the bound expires is abandoned - the event loop is stopped under its worker coroutine, the unit finishes in the pool but its future is never completed, so its result is never delivered and the shutdown leaves a pending coroutine", construct="stop(): time-bounded wait for the worker tasks")
        else:
            ctx.ok(rid, w, "the wait for the worker tasks has no time bound")


def r179(ctx):
    """Submission cannot block. submit_work() enqueues from a throw-away event loop
    (asyncio.run(...put...)) while the workers dequeue with get_nowait() in the runner's loop: a put
    that has to wait for room is parked on a waiter of the temporary loop which nobody wakes, so
    the unit is never queued and submit_work never returns. The work queue is therefore
    constructed without a positive bound (or everything is enqueued with put_nowait)."""
    rid = "R-17.9"
    tree = ctx.tree
    rel = "infretis/asyncrunner.py"
    n = 0
    for m, q, f in tree.all_funcs([rel]):
        for c in walk_local(f):
            if not (isinstance(c, ast.Call) and last_name(c) in ("Queue", "LifoQueue", "PriorityQueue") and "asyncio" in dotted(c.func)):
                continue
            n += 1
            bound = c.args[0] if c.args else kwarg(c, "maxsize")
            if bound is None or (isinstance(bound, ast.Constant) and isinstance(bound.value, int) and bound.value <= 0):
                ctx.ok(rid, c, f"{q}: the work queue is unbounded - put() completes without waiting")
            else:
                awaited_put = [x for mm, qq, g in tree.all_funcs([rel]) for x in walk_local(g) if isinstance(x, ast.Await) and isinstance(x.value, ast.Call) and last_name(x.value) == "put"]
                if awaited_put:
                    ctx.bad(rid, c, f"{q} bounds the work queue (maxsize={short(bound, 30)}) while units are enqueued with an awaited put() from the throw-away event loop of submit_work(): once the queue is full the put waits on a future of that temporary loop, the get_nowait() of a worker in the runner's loop cannot wake it, submit_work() never returns and later units are never executed", construct=f"{q}: bounded work queue with awaited put")
                else:
                    ctx.ok(rid, c, f"{q}: bounded queue but no awaited put")
    if n == 0:
        raise AnalysisError("R-17.9: no asyncio queue construction found in asyncrunner.py")


def r1710(ctx):
    """The exception of a failing unit is delivered whatever the exception is: in the handler of
    the task body nothing that can itself raise precedes `future.set_exception(e)` (an index into
    `e.args`, a formatting call, an attribute of an arbitrary exception...). A raise there leaves
    the future pending for ever and ends the worker coroutine."""
    rid = "R-17.10"
    f = ctx.tree.func(ASYNC, "aiorunner._task_wrapper")
    n = 0
    for h in [x for x in walk_local(f) if isinstance(x, ast.ExceptHandler)]:
        sets = [i for i, st in enumerate(h.body) if any(isinstance(c, ast.Call) and last_name(c) == "set_exception" for c in ast.walk(st))]
        if not sets:
            continue
        n += 1
        risky = None
        for st in h.body[:sets[0]]:
            for x in ast.walk(st):
                if isinstance(x, ast.Subscript) and isinstance(x.ctx, ast.Load):
                    risky = (x, "an index / key lookup")
                elif isinstance(x, ast.Call) and not (isinstance(x.func, ast.Attribute) and isinstance(x.func.value, ast.Name) and x.func.value.id in ("logger", "logging")):
                    risky = (x, "a call")
                elif isinstance(x, (ast.BinOp, ast.JoinedStr)) and not isinstance(x, ast.Constant):
                    risky = (x, "a formatting / arithmetic expression")
                elif isinstance(x, (ast.Raise, ast.Assert)):
                    risky = (x, "a raise")
                if risky:
                    break
            if risky:
                break
        if risky:
            ctx.bad(rid, risky[0], f"_task_wrapper evaluates `{short(risky[0], 40)}` ({risky[1]}) in the exception handler before future.set_exception(): if it raises (e.g. `e.args[0]` for an exception without arguments - a bare assert, `raise ValueError`), the unit's exception is never delivered, its future stays pending and the worker coroutine dies, so later units may never run and stop() spins", construct=f"_task_wrapper: {short(risky[0], 40)} before set_exception")
        else:
            ctx.ok(rid, h, "the handler delivers the exception before anything that can raise")
    if n == 0:
        if any(isinstance(c, ast.Call) and last_name(c) == "set_exception" for c in walk_local(f)):
            ctx.ok(rid, f, "the exception is delivered outside the handler (the handler only records it)")
        else:
            raise AnalysisError("R-17.10: no set_exception found in _task_wrapper")


def r1711(ctx):
    """Which of set_result / set_exception completes a unit's future is decided from that unit's
    own execution: a name tested on the way to the completing call (`if failure is None`) is
    (re)assigned on every path from the dequeue of the unit to the test. State that is
    initialised once before the worker loop survives a failing unit: every later unit of that
    worker coroutine has its result dropped and its future completed with the old exception."""
    rid = "R-17.11"
    f = ctx.tree.func(ASYNC, "aiorunner._task_wrapper")
    cfg = cfg_of(f)
    gets = [c for c in walk_local(f) if isinstance(c, ast.Call) and last_name(c) in ("get_nowait", "get")]
    comp = [c for c in walk_local(f) if isinstance(c, ast.Call) and last_name(c) in ("set_result", "set_exception")]
    if not gets or not comp:
        raise AnalysisError("R-17.11: dequeue or completing calls not found in _task_wrapper")
    gn = cfg.node_of(gets[0])
    params = {a.arg for a in f.args.args}
    n = 0
    seen = set()
    for c in comp:
        for e, t, bn in cfg.guards(cfg.node_of(c)):
            names = {x.id for x in ast.walk(e) if isinstance(x, ast.Name)} - params - {"self"}
            for nm in sorted(names):
                if (nm, bn.id) in seen:
                    continue
                seen.add((nm, bn.id))
                stores = [cfg.node_of(st) for st in walk_local(f) if isinstance(st, (ast.Assign, ast.AugAssign, ast.AnnAssign)) and any(isinstance(x_, ast.Name) and x_.id == nm and isinstance(x_.ctx, ast.Store) for t_ in (st.targets if isinstance(st, ast.Assign) else [st.target]) for x_ in ast.walk(t_)) and cfg.nodes_of(st)]
                # exception handlers bind their name
                stores += [cfg.node_of(h) for h in walk_local(f) if isinstance(h, ast.ExceptHandler) and h.name == nm and cfg.nodes_of(h)]
                if not cfg.reaches(gn, bn):
                    continue  # a test before the dequeue (loop condition)
                n += 1
                if cfg.reaches(gn, bn, avoid=stores):
                    ctx.bad(rid, e, f"_task_wrapper chooses between set_result and set_exception by `{short(e, 40)}`, but `{nm}` is not assigned on every path from the dequeue of the unit to this test (it is initialised once, before the worker loop): after one failing unit the worker coroutine keeps the old value - each later unit is executed, its result dropped and its future completed with the earlier unit's exception", construct=f"_task_wrapper: outcome selector {nm} not reset per unit")
                else:
                    ctx.ok(rid, e, f"`{nm}` is assigned for every unit before it selects the completing call")
    if n == 0:
        ctx.ok(rid, comp[0], "set_result / set_exception are selected by control flow alone (try / except of the unit's own execution)")


def _may_commit(cls):
    """Methods of REPEX_state that write restart.toml, directly or through self-calls (fixpoint)."""
    methods = {s.name: s for s in cls.body if isinstance(s, FUNC)}
    calls = {}
    for name, m in methods.items():
        calls[name] = {c.func.attr for c in walk_local(m) if isinstance(c, ast.Call) and isinstance(c.func, ast.Attribute) and isinstance(c.func.value, ast.Name) and c.func.value.id == "self"}
        # properties read as attributes (self.prob) are not followed: none of them commits (checked: a property that calls write_toml is reported below)
    commit = {"write_toml"} if "write_toml" in methods else set()
    changed = True
    while changed:
        changed = False
        for name, cs in calls.items():
            if name not in commit and cs & commit:
                commit.add(name)
                changed = True
    return methods, commit


def r1712(ctx):
    """The step counter reaches the disk only when it equals the number of consumed results."""
    rid = "R-17.12"
    tree = ctx.tree
    cls = tree.cls(REPEX, "REPEX_state")
    methods, commit = _may_commit(cls)
    if "write_toml" not in commit or "treat_output" not in commit:
        raise AnalysisError(f"R-17.12: write_toml / treat_output not among the committing methods {sorted(commit)}")

    def commits_in(f, recv):
        out = []
        for c in walk_local(f):
            if isinstance(c, ast.Call) and isinstance(c.func, ast.Attribute) and c.func.attr in commit and isinstance(c.func.value, ast.Name) and c.func.value.id == recv:
                out.append(c)
        return out

    # (a) inside the scheduler state: from an increment of the counter no commit is reachable in the same method
    ninc = 0
    for name, m in methods.items():
        if any(isinstance(d, ast.Name) and d.id == "property" or isinstance(d, ast.Attribute) and d.attr == "setter" for d in m.decorator_list):
            continue
        incs = [s for s in walk_local(m) if isinstance(s, (ast.AugAssign, ast.Assign)) and any(is_self_attr(t, "cstep") for t in (s.targets if isinstance(s, ast.Assign) else [s.target]))]
        incs += [s for s in walk_local(m) if isinstance(s, (ast.AugAssign, ast.Assign)) and any(isinstance(t, ast.Subscript) and last_key(t) == "cstep" for t in (s.targets if isinstance(s, ast.Assign) else [s.target]))]
        if not incs:
            continue
        cfg = cfg_of(m)
        for inc in incs:
            ninc += 1
            late = [c for c in commits_in(m, "self") if c.func.attr != "treat_output" and cfg.reaches(cfg.node_of(inc), cfg.node_of(c))]
            if late:
                ctx.bad(rid, late[0], f"REPEX_state.{name} writes restart.toml (`{short(late[0], 40)}`) after it has advanced the step counter (`{short(inc, 40)}`) and before the result that step counts is consumed: "
                        "the counter on disk is one larger than the number of completed moves for the whole wait - a restart from there performs one move too few",
                        construct=f"{name}: commit after the step counter was advanced")
            else:
                ctx.ok(rid, inc, f"REPEX_state.{name}: no commit is reachable after the counter is advanced")
    if ninc == 0:
        raise AnalysisError("R-17.12: no statement advancing the step counter found in REPEX_state")
    # (b) in the main loop: between loop() (which advances the counter) and treat_output() (which consumes the result) nothing commits
    f = tree.func(SCHED, "scheduler")
    cfg = cfg_of(f)
    loops = [w for w in walk_local(f) if isinstance(w, ast.While) and any(isinstance(c, ast.Call) and isinstance(c.func, ast.Attribute) and c.func.attr == "loop" for c in ast.walk(w.test))]
    if not loops:
        raise AnalysisError("R-17.12: the `while state.loop()` of scheduler() was not found")
    for w in loops:
        recv = next(c.func.value.id for c in ast.walk(w.test) if isinstance(c, ast.Call) and isinstance(c.func, ast.Attribute) and c.func.attr == "loop" and isinstance(c.func.value, ast.Name))
        body_calls = [c for st in w.body for c in ast.walk(st) if isinstance(c, ast.Call) and isinstance(c.func, ast.Attribute) and isinstance(c.func.value, ast.Name) and c.func.value.id == recv and c.func.attr in commit]
        consume = [c for c in body_calls if c.func.attr == "treat_output"]
        if not consume:
            ctx.bad(rid, w, "the main loop never hands a result to treat_output")
            continue
        head = cfg.node_of(w.test)
        cn = [cfg.node_of(c) for c in consume]
        bad = False
        for c in body_calls:
            if c.func.attr == "treat_output":
                continue
            n = cfg.node_of(c)
            if cfg.reaches(head, n, avoid=cn):
                bad = True
                ctx.bad(rid, c, f"scheduler(): `{short(c, 40)}` writes restart.toml between loop() (which advances the step counter) and treat_output() (which consumes the result that step counts), or on a cycle that consumed nothing: the counter on disk exceeds the completed moves",
                        construct=f"scheduler: {c.func.attr} commits before treat_output in the cycle")
        if not bad:
            ctx.ok(rid, w, f"main loop: of the committing calls {sorted({c.func.attr for c in body_calls})} only treat_output is reachable from the loop head without passing treat_output")


def run(ctx):
    ctx.rule("R-17.13", "the in-flight record belongs to one scheduler object: no class-level mutable attribute of REPEX_state is mutated through self without being rebound per instance (shared with C06 R-6.4)", floor=3)
    from . import c06 as _c06p
    from .shared import RuleProxy as _RP17p
    ctx.attempt(_c06p.r64, _RP17p(ctx, "R-17.13", " (a run restarted in the same process inherits the jobs the abandoned run had in flight: the finished run's restart.toml still lists a job, the same job is recorded twice)"))
    ctx.rule("R-17.12", "the step counter on disk equals the number of consumed results: nothing commits between the advance of the counter (loop) and the consumption of that step's result (treat_output)", floor=2)
    ctx.attempt(r1712, ctx)
    ctx.rule("R-17.4", "completed jobs leave the in-flight record (removal before the commit; selector representation agrees with all filling sites)", floor=4)
    ctx.rule("R-17.6", "the restart file is refreshed completely at every commit: each [current] key write_toml maintains is stored on every path to the dump (a finished run persists an empty in-flight record)", floor=3)
    ctx.rule("R-17.5", "step arithmetic: the comparators of initiate(), loop() and the submission guard give exactly tsteps - c0 consumed results and the same number of submitted jobs (linear counting over c0, tsteps, workers)", floor=4)
    ctx.rule("R-17.1", "each dequeued unit completes its future exactly once and calls task_done exactly once", floor=4)
    ctx.rule("R-17.2", "each result is delivered once; every submitted future is managed; runner stopped on exit", floor=6)
    ctx.rule("R-17.3", "stop/refuse decisions compare the step counter with the target", floor=4)
    ctx.attempt(r171, ctx)
    ctx.attempt(r172, ctx)
    ctx.attempt(r173, ctx)
    ctx.attempt(r174, ctx)
    ctx.attempt(r175, ctx)
    ctx.rule("R-17.7", "shutdown order: the stop event is set only after the queue was seen empty, then the tasks are awaited (every submitted unit is executed)", floor=2)
    ctx.attempt(r177, ctx)
    ctx.rule("R-17.9", "submission cannot block: the work queue fed by awaited put() from submit_work's throw-away event loop is unbounded", floor=1)
    ctx.attempt(r179, ctx)
    ctx.rule("R-17.10", "a failing unit's exception is delivered whatever it is: nothing that can raise precedes future.set_exception() in the handler", floor=1)
    ctx.attempt(r1710, ctx)
    ctx.rule("R-17.11", "the outcome of a unit is decided from state of that unit only: every name tested to choose between set_result and set_exception is assigned on every path from the dequeue to that test", floor=1)
    ctx.attempt(r1711, ctx)
    ctx.rule("R-17.8", "every consumed result is committed: each normal path through treat_output writes restart.toml, so the persisted step counter never lags the steps whose rows were appended (shared with C06 R-6.14 / C08 R-8.11)", floor=1)
    from .shared import commit_every_step
    ctx.attempt(commit_every_step, ctx, "R-17.8", " (the step counter on disk lags the data file: the restarted run performs more than the target number of steps in total)")
    from .shared import commit_refreshes_state
    ctx.attempt(commit_refreshes_state, ctx, "R-17.6", " - e.g. the in-flight record of a finished run still lists the last completed move, which a restart re-issues")


VARIANTS = [
    B("c17-in-flight-record-shared-by-all-schedulers", REPEX, "        self.locked = []\n", "", "R-17.13", control=True, also=[(REPEX, "    # holds counts current worker.\n", "    locked: list = []\n\n    # holds counts current worker.\n")], why="seeded C17_p"),
    B("c17-initiate-starts-every-worker-while-a-step-is-left", REPEX, "        if not self.cstep + (self.workers - self.toinitiate) < self.tsteps:\n            return False", "        if not self.cstep < self.tsteps:\n            return False", "R-17.5", control=True, why="pre-fix F17.2"),
    K("c17-keep-initiate-refusal-respelled", REPEX, "        if not self.cstep + (self.workers - self.toinitiate) < self.tsteps:\n            return False", "        started = self.workers - self.toinitiate\n        if self.cstep + started >= self.tsteps:\n            return False"),
    K("c17-keep-loop-verdict-in-a-local", REPEX, "        if self.printing() and self.cstep <= self.tsteps:\n            logger.info(f\"------- infinity {self.cstep:5.0f} START -------\")\n            logger.info(\"date: \" + datetime.now().strftime(DATE_FORMAT))\n\n        return self.cstep <= self.tsteps\n", "        within_steps = self.cstep <= self.tsteps\n        if self.printing() and within_steps:\n            logger.info(f\"------- infinity {self.cstep:5.0f} START -------\")\n            logger.info(\"date: \" + datetime.now().strftime(DATE_FORMAT))\n\n        return within_steps\n", why="refactoring r5repex"),
    K("c17-keep-loop-verdict-taken-before-the-advance", REPEX, "        self.cstep += 1\n\n        if self.printing() and self.cstep <= self.tsteps:", "        within_steps = self.cstep <= self.tsteps\n        self.cstep += 1\n\n        if self.printing() and self.cstep <= self.tsteps:", also=[(REPEX, "        return self.cstep <= self.tsteps\n", "        return within_steps\n")], why="computed before the advance: loop() still leaves at the top when cstep >= tsteps, so the number of cycles is unchanged (min of the two bounds)"),
    B("c17-loop-commits-the-advanced-counter", REPEX, "        return self.cstep <= self.tsteps\n", "        self.write_toml()\n\n        return self.cstep <= self.tsteps\n", "R-17.12", control=True, why="seeded C17_n"),
    B("c17-main-loop-commits-before-the-result", SCHED, "        future = futures.as_completed()\n", "        state.write_toml()\n        future = futures.as_completed()\n", "R-17.12", why="sibling of C17_n in the caller"),
    K("c17-keep-commit-before-the-counter-advances", REPEX, "        self.cstep += 1\n\n        if self.printing() and self.cstep <= self.tsteps:", "        self.write_toml()\n        self.cstep += 1\n\n        if self.printing() and self.cstep <= self.tsteps:", why="before the advance the counter equals the consumed results"),
    K("c17-keep-second-commit-after-the-result", SCHED, "            worker_md_items = state.treat_output(future.result())\n", "            worker_md_items = state.treat_output(future.result())\n            state.write_toml()\n", why="after treat_output counter and results agree"),
    B("c17-failure-flag-survives-between-units", ASYNC, "        while not stop_event.is_set():\n            try:\n                # Unpack queue element\n                md_item, future = queue.get_nowait()\n", "        failure = None\n        while not stop_event.is_set():\n            try:\n                # Unpack queue element\n                md_item, future = queue.get_nowait()\n", "R-17.11", control=True, also=[(ASYNC, "                    future.set_result(md_item)\n                except Exception as e:\n                    # Pass the exception up in the future\n                    future.set_exception(e)\n", "                except Exception as e:\n                    failure = e\n                if failure is None:\n                    future.set_result(md_item)\n                else:\n                    future.set_exception(failure)\n")], why="seeded C17_m"),
    K("c17-keep-failure-flag-reset-per-unit", ASYNC, "                    future.set_result(md_item)\n                except Exception as e:\n                    # Pass the exception up in the future\n                    future.set_exception(e)\n", "                    failure = None\n                except Exception as e:\n                    failure = e\n                if failure is None:\n                    future.set_result(md_item)\n                else:\n                    future.set_exception(failure)\n"),
    B("c17-stop-waits-at-most-five-seconds", "infretis/asyncrunner.py", "        asyncio.run(self.wait_for_tasks_to_end())\n", "        try:\n            asyncio.run(asyncio.wait_for(self.wait_for_tasks_to_end(), 5.0))\n        except asyncio.TimeoutError:\n            logger.warning(\"Background tasks took too long to end\")\n", "R-17.7", control=True, why="seeded C17_l"),
    B("c17-handler-indexes-exception-args", "infretis/asyncrunner.py", "                    # Pass the exception up in the future\n                    future.set_exception(e)", "                    logger.error(\"Runner worker %s: task failed: %s\", taskID, e.args[0])\n                    future.set_exception(e)", "R-17.10", control=True, why="seeded C17_k"),
    K("c17-keep-handler-logs-exception", "infretis/asyncrunner.py", "                    # Pass the exception up in the future\n                    future.set_exception(e)", "                    logger.error(\"Runner worker %s: task failed: %s\", taskID, e)\n                    future.set_exception(e)"),
    K("c17-keep-handler-logs-after-delivery", "infretis/asyncrunner.py", "                    # Pass the exception up in the future\n                    future.set_exception(e)", "                    future.set_exception(e)\n                    logger.error(\"task failed: %s\", e.args)"),
    B("c17-work-queue-bounded", "infretis/asyncrunner.py", "asyncio.Queue()", "asyncio.Queue(maxsize=n_workers)", "R-17.9", control=True, why="seeded C17_j"),
    K("c17-keep-work-queue-explicitly-unbounded", "infretis/asyncrunner.py", "asyncio.Queue()", "asyncio.Queue(maxsize=0)"),
    B("c17-commit-only-when-printing", REPEX, "            self.print_shooted(md_items, pn_news)\n        # save for possible restart\n        self.write_toml()", "            self.print_shooted(md_items, pn_news)\n            # save for possible restart\n            self.write_toml()", "R-17.8", control=True, why="seeded C17_i"),
    B("c17-stop-event-before-drain", ASYNC, "        while self._queue.qsize() > 0:\n            time.sleep(0.1)\n\n        # Stop ongoing tasks\n        self._stop_event.set()\n", "        # Stop ongoing tasks\n        self._stop_event.set()\n        while self._queue.qsize() > 0:\n            time.sleep(0.1)\n", "R-17.7", control=True, why="seeded C17_g"),
    K("c17-keep-drain-test-respelled", ASYNC, "        while self._queue.qsize() > 0:\n            time.sleep(0.1)\n", "        while not self._queue.qsize() == 0:\n            time.sleep(0.1)\n"),
    B("c17-locked-stored-inside-loop", REPEX, '        self.config["current"]["locked"] = locked_ep\n', '            self.config["current"]["locked"] = locked_ep\n', "R-17.6", control=True, why="seeded C17_d"),
    K("c17-keep-locked-comprehension", REPEX, '        locked_ep = []\n        for tup in self.locked:\n            locked_ep.append(\n                ([int(tup0 + self._offset) for tup0 in tup[0]], tup[1])\n            )\n        self.config["current"]["locked"] = locked_ep\n', '        self.config["current"]["locked"] = [([int(tup0 + self._offset) for tup0 in tup[0]], tup[1]) for tup in self.locked]\n'),
    B("c17-submit-guard-strict", SCHED, "        if state.cstep + state.workers <= state.tsteps:", "        if state.cstep + state.workers < state.tsteps:", "R-17.5", control=True),
    B("c17-submit-guard-ignores-workers", SCHED, "        if state.cstep + state.workers <= state.tsteps:", "        if state.cstep < state.tsteps:", "R-17.5", why="seeded C17_f"),
    B("c17-submit-guard-loose", SCHED, "        if state.cstep + state.workers <= state.tsteps:", "        if state.cstep + state.workers <= state.tsteps + 1:", "R-17.5"),
    B("c17-submit-guard-ignores-workers-offset", SCHED, "        if state.cstep + state.workers <= state.tsteps:", "        if state.cstep + state.workers - 1 <= state.tsteps:", "R-17.5"),
    B("c17-loop-return-strict", REPEX, "        return self.cstep <= self.tsteps\n", "        return self.cstep < self.tsteps\n", "R-17.5"),
    B("c17-loop-exit-late", REPEX, "        if self.cstep >= self.tsteps:\n            # should probably", "        if self.cstep > self.tsteps:\n            # should probably", "R-17.5", also=[(REPEX, "        return self.cstep <= self.tsteps\n", "        return self.cstep <= self.tsteps + 1\n")]),
    B("c17-initiate-count-strict", REPEX, "        return self.toinitiate >= 0\n", "        return self.toinitiate > 0\n", "R-17.5"),
    B("c17-initiate-refusal-counts-workers", REPEX, "        if not self.cstep + (self.workers - self.toinitiate) < self.tsteps:\n            return False", "        if not self.cstep + self.workers < self.tsteps:\n            return False", "R-17.5", why="seeded C17_h"),
    B("c17-initiate-refusal-loose", REPEX, "        if not self.cstep + (self.workers - self.toinitiate) < self.tsteps:\n            return False", "        if not self.cstep + (self.workers - self.toinitiate) <= self.tsteps:\n            return False", "R-17.5"),
    K("c17-keep-submit-guard-flipped", SCHED, "        if state.cstep + state.workers <= state.tsteps:", "        if state.tsteps >= state.workers + state.cstep:"),
    K("c17-keep-submit-guard-strict-plus-one", SCHED, "        if state.cstep + state.workers <= state.tsteps:", "        if state.cstep + state.workers < state.tsteps + 1:"),
    K("c17-keep-loop-exit-equivalent", REPEX, "        if self.cstep >= self.tsteps:\n            # should probably", "        if not self.cstep < self.tsteps:\n            # should probably"),
    K("c17-keep-loop-exit-late-but-return-bounds", REPEX, "        if self.cstep >= self.tsteps:\n            # should probably", "        if self.cstep > self.tsteps:\n            # should probably"),
    K("c17-keep-initiate-count-equivalent", REPEX, "        return self.toinitiate >= 0\n", "        return self.toinitiate > -1\n"),
    B("c17-result-outside-try", ASYNC, "                    future.set_result(md_item)\n                except Exception as e:\n                    # Pass the exception up in the future\n                    future.set_exception(e)\n", "                except Exception as e:\n                    # Pass the exception up in the future\n                    future.set_exception(e)\n                future.set_result(md_item)\n", "R-17.1", control=True),
    B("c17-exception-not-delivered", ASYNC, "                    # Pass the exception up in the future\n                    future.set_exception(e)\n", "                    logger.error(\"task failed: %s\", e)\n", "R-17.1"),
    B("c17-task-done-skipped-on-exception", ASYNC, "                    future.set_result(md_item)\n                except Exception as e:\n                    # Pass the exception up in the future\n                    future.set_exception(e)\n\n                # Mask the task as done\n                queue.task_done()", "                    future.set_result(md_item)\n                    queue.task_done()\n                except Exception as e:\n                    # Pass the exception up in the future\n                    future.set_exception(e)\n", "R-17.1"),
    B("c17-task-done-twice", ASYNC, "                queue.task_done()\n            except asyncio.QueueEmpty:", "                queue.task_done()\n                queue.task_done()\n            except asyncio.QueueEmpty:", "R-17.1"),
    B("c17-task-done-when-empty", ASYNC, "            except asyncio.QueueEmpty:\n                await asyncio.sleep(0.02)", "            except asyncio.QueueEmpty:\n                queue.task_done()\n                await asyncio.sleep(0.02)", "R-17.1"),
    B("c17-return-without-remove", ASYNC, "                    future_out = fut\n                    self._futures.remove(fut)\n                    break", "                    future_out = fut\n                    break", "R-17.2", control=True),
    B("c17-return-not-done", ASYNC, "                if fut.done():\n                    future_out = fut", "                if fut is not None:\n                    future_out = fut", "R-17.2"),
    B("c17-future-not-managed", SCHED, "            # submit job to scheduler\n            futures.add(runner.submit_work(worker_md_items))\n\n    # end client", "            # submit job to scheduler\n            runner.submit_work(worker_md_items)\n\n    # end client", "R-17.2"),
    B("c17-runner-not-stopped", SCHED, "    # end client\n    runner.stop()", "    # end client\n    pass", "R-17.2"),
    B("c17-refuse-without-target", SETUP, '        if curr.get("cstep") == config["simulation"]["steps"]:', '        if curr.get("cstep") == curr.get("restarted_from", -1):', "R-17.3", control=True, why="pre-fix F17.1"),
    B("c17-loop-ends-on-constant", REPEX, "        if self.cstep >= self.tsteps:\n            # should probably", "        if self.cstep >= 1000:\n            # should probably", "R-17.3"),
    B("c17-reissue-recorded-as-int", REPEX, "        self.locked.append((enss, trajs0))\n", "        self.locked.append((enss, [traj.path_number for traj in trajs]))\n", "R-17.4", control=True, why="seeded C17_a"),
    B("c17-finished-job-kept", REPEX, "                if str(pn_old) in lock[1]:\n                    self.locked.pop(idx)\n", "                if str(pn_old) in lock[1]:\n                    pass\n", "R-17.4"),
    K("c17-keep-done-first", ASYNC, "                queue.task_done()\n            except asyncio.QueueEmpty:", "                queue.task_done()  # one per dequeued unit\n            except asyncio.QueueEmpty:"),
    K("c17-keep-else-form", ASYNC, "                    future.set_result(md_item)\n                except Exception as e:\n                    # Pass the exception up in the future\n                    future.set_exception(e)\n", "                except Exception as e:\n                    # Pass the exception up in the future\n                    future.set_exception(e)\n                else:\n                    future.set_result(md_item)\n"),
    K("c17-keep-steps-local", SETUP, '        if curr.get("cstep") == config["simulation"]["steps"]:', '        target = config["simulation"]["steps"]\n        if curr.get("cstep") == target:'),
    K("c17-keep-add-local", SCHED, "            # submit job to scheduler\n            futures.add(runner.submit_work(worker_md_items))\n\n    # end client", "            # submit job to scheduler\n            futures.add(runner.submit_work(work_unit=worker_md_items))\n\n    # end client"),
]
