"""C09 - accepted paths belong to their ensemble; rejections change nothing.

Decides: acceptance flag <=> status 'ACC' at every return of the move
functions; the old path is replaced only under 'ACC'; no frame of an input
path reaches a mutating engine call except through a copy, and input paths
are never extended in place; the shooting index can never be an end point;
one inside/outside convention for stop rule and classifier.
"""

from __future__ import annotations

import ast
import itertools

from ..cfg import cfg_of
from ..flow import deref, flow_of, path_of
from ..loader import FUNC, AnalysisError, dotted, last_name, loc, short, walk_local, enclosing_func
from ..util import ASE, ENGBASE, PATH, REPEX, TIS, all_calls, arg_for_param, kwarg, last_key, oriented, param_index
from ..variants import B, K

EXPLANATION = (
    "(R-9.1) relational return summaries: every return of the move functions "
    "(values of sh_moves, the zero-swap functions, select_shoot and the helpers "
    "whose status they forward) pairs flag True with status 'ACC' and flag "
    "False with a status that cannot be 'ACC' (constant propagation of status "
    "stores by reaching definitions, dominating guards, unpack-tied "
    "(flag, status) pairs from consistent callees, and a truth-table check of "
    "conditional status expressions); (R-9.2) the job's path is replaced only "
    "under status == 'ACC'; (R-9.3) every System reaching propagate / "
    "modify_velocities / dump_phasepoint / calculate_order in tis.py is a "
    "fresh .copy() (parameter obligations checked at call sites), and input "
    "paths of the top-level moves are never extended in place; (R-9.4) the "
    "shooting index is drawn from [1, L-2] by interval arithmetic on "
    "integers(lo, hi); (R-9.5) stop rule and end-point classifier use one "
    "convention for equality with an interface."
)
NOT_DECIDED = (
    "ensemble membership of the accepted path (start/end/cross conditions are "
    "comparisons on runtime order parameters), the length limit, the Metropolis "
    "threshold xi <= n_old/n_new"
)
ASSUMPTIONS = [
    "Path.empty_path / Path.copy / paste_paths / Path.reverse return new Path objects (checked under C15 for copy/reverse)",
    "System.copy returns a new object (checked under C15)",
]

HELPERS = ["extender", "subt_acceptance", "high_acc_swap", "shoot_backwards", "check_kick"]
FRESH_PATH = {"empty_path", "copy", "paste_paths", "reverse", "Path", "InfPath"}
SINKS = {  # method -> (positional index of the System argument, keyword)
    "propagate": (2, "system"),
    "modify_velocities": (0, "system"),
    "dump_phasepoint": (0, "phasepoint"),
    "calculate_order": (0, "system"),
}


def move_functions(tree):
    """Functions whose (flag, ..., status) returns must be consistent."""
    sel = tree.func(TIS, "select_shoot")
    names = set()
    for n in walk_local(sel):
        if isinstance(n, (ast.Assign, ast.AnnAssign)) and isinstance(n.value, ast.Dict):
            # the dispatch table: a dict literal whose values are all names of functions of this module
            vals = [v.id for v in n.value.values if isinstance(v, ast.Name)]
            if vals and len(vals) == len(n.value.values) and all(tree.modules[TIS].funcs.get(v) is not None for v in vals):
                names.update(vals)
        if isinstance(n, ast.Call) and isinstance(n.func, ast.Name) and n.func.id.endswith("_swap_zero"):
            names.add(n.func.id)
    if len(names) < 4:
        raise AnalysisError(f"R-9.1: expected the sh_moves table and two zero-swap functions in select_shoot, found {sorted(names)}")
    names.add("select_shoot")
    for h in HELPERS:
        if tree.has_func(TIS, h):
            names.add(h)
    return {n: tree.func(TIS, n) for n in sorted(names)}


# ---------------------------------------------------------------- R-9.1
def _status_values(fl, cfg, expr, at, depth=0):
    """Possible status strings of expr at node: set of str | {'?'}."""
    if isinstance(expr, ast.Constant) and isinstance(expr.value, str):
        return {expr.value}
    p = path_of(expr)
    if p is None:
        if isinstance(expr, ast.IfExp):
            return _status_values(fl, cfg, expr.body, at, depth) | _status_values(fl, cfg, expr.orelse, at, depth)
        return {"?"}
    # dominating guard on this very path: P.status != "ACC" True / == "ACC" False
    for e, t, bn in cfg.guards(at):
        if isinstance(e, ast.Compare) and len(e.ops) == 1 and path_of(e.left) == p and isinstance(e.comparators[0], ast.Constant) and e.comparators[0].value == "ACC":
            tn = [x for x in cfg.nodes if x.kind == "test" and x.ast is bn.ast]
            same = tn and {d.id for d, _ in fl.rd(p, tn[0])} == {d.id for d, _ in fl.rd(p, at)}
            if same:
                if isinstance(e.ops[0], ast.NotEq) and t or isinstance(e.ops[0], ast.Eq) and not t:
                    return {"<notACC>"}
                if isinstance(e.ops[0], ast.Eq) and t or isinstance(e.ops[0], ast.NotEq) and not t:
                    return {"ACC"}
    rds = fl.rd(p, at)
    if not rds:
        return {"?"}
    out = set()
    for d, suffix in rds:
        if suffix:
            out.add("?")  # the object was (re)bound; status set elsewhere
        elif d.kind == "assign" and d.value is not None and depth < 6:
            out |= _status_values(fl, cfg, d.value, d.at, depth + 1)
        else:
            out.add("?")
    return out


def _flag_values(fl, cfg, expr, at):
    if isinstance(expr, ast.Constant) and isinstance(expr.value, bool):
        return {expr.value}
    p = path_of(expr)
    if p is None:
        return {"?"}
    out = set()
    for d, suffix in fl.rd(p, at):
        if d.kind == "assign" and isinstance(d.value, ast.Constant) and isinstance(d.value.value, bool) and not suffix:
            out.add(d.value.value)
        else:
            out.add("?")
    # dominating guard on the flag itself
    for e, t, bn in cfg.guards(at):
        if path_of(e) == p:
            tn = [x for x in cfg.nodes if x.kind == "test" and x.ast is bn.ast]
            if tn and {d.id for d, _ in fl.rd(p, tn[0])} == {d.id for d, _ in fl.rd(p, at)}:
                return {t}
    return out or {"?"}


def _under(fl, expr, at, depth=0):
    """Definitions behind expr, following plain aliases (x = y)."""
    p = path_of(expr)
    if p is None:
        return []
    out = []
    for d, suffix in fl.rd(p, at):
        if d.kind == "assign" and not suffix and d.value is not None and path_of(d.value) and depth < 6 and not isinstance(d.value, ast.Attribute):
            sub = _under(fl, d.value, d.at, depth + 1)
            out += sub if sub else [(d, suffix)]
        else:
            out.append((d, suffix))
    return out


def _if_chain_status(f, flag_def, status_path):
    """An if/elif/else chain `if <flag>: <status> = "ACC" ... else: <status> = x` that follows the
    definition of the flag, as the expression its non-flag branches compute (nested IfExp);
    None when there is no such chain."""
    def as_expr(stmts):
        if len(stmts) == 1 and isinstance(stmts[0], ast.Assign) and len(stmts[0].targets) == 1 and path_of(stmts[0].targets[0]) == status_path:
            return stmts[0].value
        if len(stmts) == 1 and isinstance(stmts[0], ast.If) and stmts[0].orelse:
            b, o = as_expr(stmts[0].body), as_expr(stmts[0].orelse)
            if b is not None and o is not None:
                return ast.IfExp(test=stmts[0].test, body=b, orelse=o)
        return None

    for n in walk_local(f):
        if isinstance(n, ast.If) and isinstance(n.test, ast.Name) and n.test.id == flag_def.path and n.orelse and n.lineno > flag_def.stmt.lineno:
            b = as_expr(n.body)
            o = as_expr(n.orelse)
            if isinstance(b, ast.Constant) and b.value == "ACC" and o is not None:
                return o
    return None


def _truth_table_ok(flag_def, else_expr):
    """for all assignments of the atoms <X>.status == 'ACC': not flag => else_expr != ACC."""
    atoms = []

    def atom_of(e):
        # X.status == "ACC" / X.status != "ACC"
        if isinstance(e, ast.Compare) and len(e.ops) == 1 and isinstance(e.comparators[0], ast.Constant) and e.comparators[0].value == "ACC":
            k = ast.unparse(e.left)
            if k not in atoms:
                atoms.append(k)
            return k, isinstance(e.ops[0], ast.Eq)
        return None

    def collect(e):
        for x in ast.walk(e):
            atom_of(x)
            if isinstance(x, ast.Attribute) and x.attr == "status":
                k = ast.unparse(x)
                if k not in atoms:
                    atoms.append(k)

    collect(flag_def)
    collect(else_expr)

    def ev_bool(e, env):
        a = atom_of(e)
        if a is not None:
            return env[a[0]] if a[1] else not env[a[0]]
        if isinstance(e, ast.BoolOp):
            vals = [ev_bool(v, env) for v in e.values]
            if None in vals:
                return None
            return all(vals) if isinstance(e.op, ast.And) else any(vals)
        if isinstance(e, ast.UnaryOp) and isinstance(e.op, ast.Not):
            v = ev_bool(e.operand, env)
            return None if v is None else not v
        return None

    def ev_status_is_acc(e, env):
        if isinstance(e, ast.Constant):
            return e.value == "ACC"
        if isinstance(e, ast.IfExp):
            c = ev_bool(e.test, env)
            if c is None:
                return None
            return ev_status_is_acc(e.body if c else e.orelse, env)
        k = ast.unparse(e)
        if k in env:
            return env[k]
        return None

    if len(atoms) > 6:
        return False
    for vals in itertools.product([False, True], repeat=len(atoms)):
        env = dict(zip(atoms, vals))
        fv = ev_bool(flag_def, env)
        if fv is None:
            return False
        if fv:
            continue
        sv = ev_status_is_acc(else_expr, env)
        if sv is None or sv:
            return False
    return True


def r91(ctx, moves):
    rid = "R-9.1"
    consistent = set(moves)  # callees whose (flag, .., status) results are tied (each is checked here)
    nret = 0
    for name, f in moves.items():
        fl = flow_of(f)
        cfg = fl.cfg
        for r in [n for n in walk_local(f) if isinstance(n, ast.Return)]:
            v = r.value
            at = cfg.node_of(r)
            if v is None:
                continue
            elts = v.elts if isinstance(v, ast.Tuple) else [v]
            flag = elts[0]
            status = None
            pathx = None
            if len(elts) == 3:
                pathx, status = elts[1], elts[2]
            elif len(elts) == 2:
                # (flag, path) or (flag, status)
                if isinstance(elts[1], ast.Constant) and isinstance(elts[1].value, str):
                    status = elts[1]
                else:
                    pathx = elts[1]
                    status = ast.Attribute(value=elts[1], attr="status", ctx=ast.Load()) if path_of(elts[1]) else None
                    if status is not None:
                        ast.copy_location(status, elts[1])
                        status._parent = r
            if status is None:
                # plain bool helpers (check_kick, shoot_backwards): False must not leave 'ACC' behind
                nret += 1
                fv = _flag_values(fl, cfg, flag, at)
                accs = [d for d in fl.defs if d.path.endswith(".status") and d.kind == "assign" and isinstance(d.value, ast.Constant) and d.value.value == "ACC" and cfg.reaches(d.at, at)]
                if fv == {False} and accs:
                    ctx.bad(rid, r, f"{name} returns False after storing status 'ACC' on a path object")
                else:
                    ctx.ok(rid, r, f"{name}: boolean helper return {sorted(map(str, fv))}; no 'ACC' store reaches a False return")
                continue
            nret += 1
            fv = _flag_values(fl, cfg, flag, at)
            sv = _status_values(fl, cfg, status, at)
            # tied variables: both from the same unpack of a consistent callee, or IfExp on the flag
            tied = False
            fp, sp = path_of(flag), path_of(status)
            if fp and sp and "?" in fv:
                fdefs = _under(fl, flag, at)
                sdefs = _under(fl, status, at)
                ok_all = bool(fdefs) and bool(sdefs)
                fstm = {}
                for d, _ in fdefs:
                    fstm.setdefault(id(d.stmt), []).append(d)
                sstm = {}
                for d, _ in sdefs:
                    sstm.setdefault(id(d.stmt), []).append(d)
                for d, _ in fdefs:
                    if d.kind == "unpack" and isinstance(d.value, ast.Call) and _callee_names(d.value, f) and _callee_names(d.value, f) <= consistent and d.index == (0,):
                        # the status def from the same statement must be the last element
                        partner = [x for x in sstm.get(id(d.stmt), []) if x.kind == "unpack"]
                        if not partner:
                            ok_all = False
                    elif d.kind == "assign":
                        # status must be redefined right after as "ACC" if flag else <notACC>
                        partner = None
                        for sd, _ in sdefs:
                            if sd.kind == "assign" and isinstance(sd.value, ast.IfExp) and path_of(sd.value.test) == d.path and isinstance(sd.value.body, ast.Constant) and sd.value.body.value == "ACC":
                                if cfg.dominates(d.at, sd.at) and {x.id for x, _ in fl.rd(d.path, sd.at)} == {d.id}:
                                    partner = sd
                        if partner is None:
                            # statement form of the same thing: `if <flag>: status = "ACC" elif ...: status = a else: status = b`
                            orelse_expr = _if_chain_status(f, d, sp)
                            if orelse_expr is None or not _truth_table_ok(d.value, orelse_expr):
                                ok_all = False
                        elif not _truth_table_ok(d.value, partner.value.orelse):
                            ok_all = False
                    else:
                        ok_all = False
                for sd, _ in sdefs:
                    if sd.kind == "unpack":
                        if not any(x.kind == "unpack" for x in fstm.get(id(sd.stmt), [])):
                            ok_all = False
                tied = ok_all
            if tied:
                ctx.ok(rid, r, f"{name}: flag and status are bound together (same consistent callee result / 'ACC' if flag else non-ACC)")
                continue
            bad = None
            if True in fv and (sv - {"ACC"}):
                if fv == {True}:
                    bad = f"returns True with status {sorted(sv - {'ACC'})}"
            if False in fv and "ACC" in sv:
                bad = "returns False although a store of status 'ACC' reaches this return"
            if fv == {"?"} or ("?" in fv and len(fv) > 1):
                bad = bad or "acceptance flag and status are not bound together (flag is computed separately from the status)"
            if fv == {True} and "?" in sv:
                bad = "returns True with a status that is not known to be 'ACC'"
            if bad:
                ctx.bad(rid, r, f"{name} {bad}: acceptance must be reported exactly when the status is 'ACC'", construct="return " + short(v, 70))
            else:
                ctx.ok(rid, r, f"{name}: flag {sorted(map(str, fv))} with status {sorted(sv)}")
    return nret


def _callee_names(call, f):
    """Names of the tis.py functions a call may target."""
    if isinstance(call.func, ast.Name):
        return {call.func.id}
    if isinstance(call.func, ast.Subscript) and path_of(call.func.value):
        # sh_moves[move](...)
        fl = flow_of(f)
        names = set()
        for kind, node, at, extra in fl.sources(call.func.value, fl.cfg.node_of(call)):
            if kind == "expr" and isinstance(node, ast.Dict):
                for v in node.values:
                    if isinstance(v, ast.Name):
                        names.add(v.id)
        return names
    return set()


# ---------------------------------------------------------------- R-9.2
def r92(ctx):
    rid = "R-9.2"
    tree = ctx.tree
    n = 0
    for m, q, f in tree.all_funcs():
        if m.rel.startswith("infretis/tools/"):
            continue
        for st in walk_local(f):
            if isinstance(st, ast.Assign):
                for t in st.targets:
                    if last_key(t) == "traj":
                        n += 1
                        fl = flow_of(f)
                        cfg = fl.cfg
                        at = cfg.node_of(st)
                        if m.rel == TIS and f.name == "run_md":
                            ok = False
                            for e, tr, bn in cfg.guards(at):
                                if tr and isinstance(e, ast.Compare) and isinstance(e.ops[0], ast.Eq):
                                    lhs, rhs = e.left, e.comparators[0]
                                    if isinstance(lhs, ast.Constant):
                                        lhs, rhs = rhs, lhs
                                    if not (isinstance(rhs, ast.Constant) and rhs.value == "ACC"):
                                        continue
                                    srcs = _under(fl, lhs, at)
                                    if any(d.kind == "unpack" and isinstance(d.value, ast.Call) and last_name(d.value) == "select_shoot" and d.index == (2,) for d, _ in srcs):
                                        ok = True
                            if ok:
                                ctx.ok(rid, st, "run_md replaces the job's path only under status == 'ACC' (status returned by select_shoot)")
                            else:
                                ctx.bad(rid, st, "the job's path is replaced by the trial path without a dominating test status == 'ACC': a rejected move would change the ensemble's path")
                        else:
                            ctx.bad(rid, st, f"the job's path (picked[...]['traj']) is written in {q}: only run_md may replace it, under 'ACC'")
            if isinstance(st, ast.Dict) and m.rel == REPEX:
                for k, v in zip(st.keys, st.values):
                    if isinstance(k, ast.Constant) and k.value == "traj":
                        n += 1
                        ctx.ok(rid, st, f"{q}: initial binding of the job's path at pick time")
    # treat_output numbers/stores only a new path
    f = tree.func(REPEX, "REPEX_state.treat_output")
    fl = flow_of(f)
    cfg = fl.cfg
    for d in fl.defs:
        if d.path.endswith(".path_number") and d.kind == "assign":
            g = [ast.unparse(e) for e, t, _ in cfg.guards(d.at) if t]
            if any("path_number is None" in x and "== 'ACC'" in x for x in g):
                ctx.ok(rid, d.stmt, "treat_output numbers/stores a path only if it is new (no number yet or status 'ACC')")
            else:
                ctx.bad(rid, d.stmt, "treat_output renumbers/stores a path outside `path_number is None or status == 'ACC'`")


# ---------------------------------------------------------------- R-9.3
def _is_fresh_copy(node):
    return isinstance(node, ast.Call) and isinstance(node.func, ast.Attribute) and node.func.attr == "copy" and not node.args


def r93(ctx, moves):
    rid = "R-9.3"
    tree = ctx.tree
    funcs = {q: fn for q, fn in tree.mod(TIS).funcs.items() if "." not in q}
    obligations = []  # (function, param name, why)
    done = set()

    def check_system(f, expr, at_node, what):
        fl = flow_of(f)
        for kind, node, at, extra in fl.sources(expr, at_node):
            if kind == "expr" and _is_fresh_copy(node):
                continue
            if kind == "param" and "." not in extra and "[" not in extra:
                obligations.append((f, extra, what))
                continue
            if kind == "unpack" and isinstance(node.value, ast.Call) and last_name(node.value) == "prepare_shooting_point" and node.index == (0,):
                continue  # returns the copy it made (checked in prepare_shooting_point itself)
            return False, f"{kind} {extra or (short(node, 50) if isinstance(node, ast.AST) else '')}"
        return True, ""

    for name, f in funcs.items():
        fl = flow_of(f)
        for c in [c for c in walk_local(f) if isinstance(c, ast.Call) and isinstance(c.func, ast.Attribute) and c.func.attr in SINKS]:
            pos, kw = SINKS[c.func.attr]
            a = kwarg(c, kw, pos)
            if a is None:
                continue
            ok, why = check_system(f, a, fl.cfg.node_of(c), f"{c.func.attr} in {name}")
            if ok:
                ctx.ok(rid, c, f"{name}: the System handed to {c.func.attr} is a fresh copy (or a parameter whose callers pass copies)")
            else:
                ctx.bad(rid, c, f"{name}: a frame that may belong to an existing path reaches {c.func.attr} (which assigns its position/velocity reference) without .copy(): {why}",
                        construct=short(c, 90))
        # direct attribute stores on borrowed frames
        for st in [s for s in walk_local(f) if isinstance(s, (ast.Assign, ast.AugAssign))]:
            tgts = st.targets if isinstance(st, ast.Assign) else [st.target]
            for t in tgts:
                if isinstance(t, ast.Attribute) and t.attr in ("order", "config", "vel_rev", "pos", "vel", "box", "ekin", "vpot"):
                    base = t.value
                    srcs = fl.sources(base, fl.cfg.node_of(st))
                    for kind, node, at, extra in srcs:
                        if kind == "expr" and isinstance(node, ast.Subscript) and "phasepoints" in ast.unparse(node):
                            ctx.bad(rid, st, f"{name}: field {t.attr!r} of a frame of an existing path is re-assigned in place")
                        if kind in ("iter",) and "phasepoints" in ast.unparse(node.value):
                            ctx.bad(rid, st, f"{name}: field {t.attr!r} of frames of an existing path is re-assigned in a loop")
    while obligations:
        f, prm, what = obligations.pop()
        if (f.name, prm) in done:
            continue
        done.add((f.name, prm))
        ncs = 0
        for name2, f2 in funcs.items():
            for c in [c for c in walk_local(f2) if isinstance(c, ast.Call) and isinstance(c.func, ast.Name) and c.func.id == f.name]:
                a = arg_for_param(c, f, prm)
                if a is None:
                    continue
                ncs += 1
                fl2 = flow_of(f2)
                ok, why = check_system(f2, a, fl2.cfg.node_of(c), what)
                if ok:
                    ctx.ok(rid, c, f"{name2}: passes a fresh copy for parameter {prm!r} of {f.name} ({what})")
                else:
                    ctx.bad(rid, c, f"{name2}: passes a frame that is not a fresh copy for parameter {prm!r} of {f.name}, which hands it to {what}: {why}")
        if ncs == 0 and f.name in moves and prm == "shooting_point":
            ctx.ok(rid, f, f"{f.name}: optional parameter {prm!r} is copied before every sink and never supplied inside the repository", nontrivial=False)
    # in-place extension of input paths of the top-level moves
    top = {}
    for name in moves:
        if name in ("shoot", "wire_fencing"):
            top[name] = [a.arg for a in moves[name].args.args if a.arg in ("path", "trial_path")]
        elif name.endswith("_swap_zero"):
            top[name] = []
    for name, f in funcs.items():
        fl = flow_of(f)
        cfg = fl.cfg
        for n in walk_local(f):
            recv = None
            if isinstance(n, ast.Call) and isinstance(n.func, ast.Attribute) and n.func.attr in ("append", "extend", "insert", "pop", "remove", "clear", "reverse", "sort"):
                r = n.func.value
                recv = r.value if isinstance(r, ast.Attribute) and r.attr == "phasepoints" else (r if n.func.attr == "append" else None)
            elif isinstance(n, ast.AugAssign):
                r = n.target
                recv = r.value if isinstance(r, ast.Attribute) and r.attr == "phasepoints" else r
            elif isinstance(n, ast.Assign) and any(isinstance(t, ast.Attribute) and t.attr == "phasepoints" for t in n.targets):
                recv = [t for t in n.targets if isinstance(t, ast.Attribute) and t.attr == "phasepoints"][0].value
            if recv is None or path_of(recv) is None:
                continue
            # is it a Path at all?  (lists such as md_items["moves"] are not)
            p = path_of(recv)
            if "[" in p and "traj" not in p:
                continue
            for kind, node, at, extra in fl.sources(recv, cfg.node_of(n)):
                if kind == "expr" and isinstance(node, ast.Call) and last_name(node) in FRESH_PATH:
                    continue
                if kind == "unpack" and isinstance(node.value, ast.Call) and last_name(node.value) in ("extender", "subt_acceptance", "shoot", "wire_fencing", "wirefence_weight_and_pick"):
                    continue
                if kind == "param" and name in top and extra in top[name]:
                    ctx.bad(rid, n, f"{name}: the input (old) path {extra!r} is extended/modified in place: a rejected move would not leave the old path's frames untouched",
                            construct=short(n, 80))
                elif kind == "param" and name not in top:
                    # helper: obligation on callers - they must pass paths created in the same move
                    for name2, f2 in funcs.items():
                        for c in [c for c in walk_local(f2) if isinstance(c, ast.Call) and isinstance(c.func, ast.Name) and c.func.id == name]:
                            a = arg_for_param(c, f, extra)
                            if a is None:
                                continue
                            fl2 = flow_of(f2)
                            for k2, n2, at2, e2 in fl2.sources(a, fl2.cfg.node_of(c)):
                                if k2 == "expr" and isinstance(n2, ast.Call) and last_name(n2) in FRESH_PATH:
                                    continue
                                if k2 == "unpack" and isinstance(n2.value, ast.Call):
                                    continue
                                if k2 == "param" and name2 in top and e2 in top[name2]:
                                    ctx.bad(rid, c, f"{name2} passes its input (old) path {e2!r} to {name}, which extends parameter {extra!r} in place")
                elif kind in ("expr",) and isinstance(node, ast.Subscript) and last_key(node) == "traj":
                    ctx.bad(rid, n, f"{name}: the ensemble's current path (picked[...]['traj']) is modified in place")
            else:
                continue
    return


# ---------------------------------------------------------------- R-9.4
def _lin_in_L(e, Lnames):
    """e as a*L + b over integers; None if outside the fragment."""
    if isinstance(e, ast.Constant) and isinstance(e.value, int) and not isinstance(e.value, bool):
        return (0, e.value)
    if ast.unparse(e) in Lnames:
        return (1, 0)
    if isinstance(e, ast.BinOp) and isinstance(e.op, (ast.Add, ast.Sub)):
        a, b = _lin_in_L(e.left, Lnames), _lin_in_L(e.right, Lnames)
        if a is None or b is None:
            return None
        if isinstance(e.op, ast.Add):
            return (a[0] + b[0], a[1] + b[1])
        return (a[0] - b[0], a[1] - b[1])
    if isinstance(e, ast.UnaryOp) and isinstance(e.op, ast.USub):
        a = _lin_in_L(e.operand, Lnames)
        return None if a is None else (-a[0], -a[1])
    return None


def r94(ctx):
    rid = "R-9.4"
    tree = ctx.tree
    f = tree.func(PATH, "Path.get_shooting_point")
    fl = flow_of(f)
    draws = [c for c in walk_local(f) if isinstance(c, ast.Call) and isinstance(c.func, ast.Attribute) and c.func.attr in ("integers", "randint", "random_integers", "choice")]
    if not draws:
        raise AnalysisError("R-9.4: no index draw found in Path.get_shooting_point")
    Lnames = {"self.length", "len(self.phasepoints)"}
    for c in draws:
        if c.func.attr != "integers":
            ctx.bad(rid, c, f"shooting index drawn with {c.func.attr}: bounds semantics differ from Generator.integers (half-open)")
            continue
        lo = kwarg(c, "low", 0)
        hi = kwarg(c, "high", 1)
        ep = kwarg(c, "endpoint")
        closed = ep is not None and not (isinstance(ep, ast.Constant) and ep.value is False)
        # resolve locals
        def resolve(e):
            if isinstance(e, ast.Name):
                for kind, node, at, extra in fl.sources(e, fl.cfg.node_of(c)):
                    if kind == "expr":
                        return node
            return e
        if hi is None:
            lo, hi = ast.Constant(0), lo
        lo_l, hi_l = _lin_in_L(resolve(lo), Lnames), _lin_in_L(resolve(hi), Lnames)
        if lo_l is None or hi_l is None:
            raise AnalysisError(f"R-9.4: bounds of the shooting index are outside the linear fragment: {short(c, 60)}")
        top = (hi_l[0], hi_l[1] if closed else hi_l[1] - 1)  # largest index that can be drawn
        ok_lo = lo_l[0] == 0 and lo_l[1] >= 1
        ok_hi = (top[0] == 1 and top[1] <= -2) or (top[0] == 0)  # <= L-2
        if ok_lo and ok_hi and top[0] == 1:
            ctx.ok(rid, c, f"index drawn from [{lo_l[1]}, L{top[1]:+d}] - never an end point (0 or L-1)")
        else:
            ctx.bad(rid, c, f"the shooting index can be an end point of the path: drawn from [{'L' if lo_l[0] else ''}{lo_l[1]:+d}, {'L' if top[0] else ''}{top[1]:+d}] (must be within [1, L-2])",
                    construct=short(c, 70))
    # the returned frame is the one at the drawn index
    for r in [n for n in walk_local(f) if isinstance(n, ast.Return)]:
        v = r.value
        if isinstance(v, ast.Tuple) and len(v.elts) == 2 and isinstance(v.elts[0], ast.Subscript):
            if ast.unparse(v.elts[0].slice) == ast.unparse(v.elts[1]) and ast.unparse(v.elts[0].value) == "self.phasepoints":
                ctx.ok(rid, r, "returns (phasepoints[idx], idx) for the drawn idx")
            else:
                ctx.bad(rid, r, "the returned frame is not the frame at the returned index")


# ---------------------------------------------------------------- R-9.5
def r95(ctx):
    rid = "R-9.5"
    tree = ctx.tree
    add = tree.func(ENGBASE, "EngineBase.add_to_path")
    cls = {"end": tree.func(PATH, "Path.get_end_point"), "start": tree.func(PATH, "Path.get_start_point")}

    def comparisons(f, names):
        out = {}
        ffl = flow_of(f)

        def is_order(x, n):
            try:
                e_, _ = deref(ffl, x, ffl.cfg.node_of(n))
            except Exception:
                e_ = x
            return "order" in ast.unparse(e_) or "order" in ast.unparse(x)

        for n in walk_local(f):
            o = oriented(n, lambda x: is_order(x, n))
            if o is not None and isinstance(o[2], ast.Name) and o[2].id in names:
                n._oop = o[1]  # operator with the order parameter on the left, however the test is written
                out[o[2].id] = n
        return out

    stop = comparisons(add, {"left", "right"})
    if set(stop) != {"left", "right"}:
        raise AnalysisError("R-9.5: stop comparisons not found in add_to_path")
    for which, f in cls.items():
        c = comparisons(f, {"left", "right"})
        if set(c) != {"left", "right"}:
            raise AnalysisError(f"R-9.5: classifier comparisons not found in get_{which}_point")
        for side in ("left", "right"):
            cop, sop = c[side]._oop, stop[side]._oop
            strict_stop = isinstance(sop, (ast.Lt, ast.Gt))
            incl_cls = isinstance(cop, (ast.LtE, ast.GtE))
            opn = {ast.Lt: "<", ast.LtE: "<=", ast.Gt: ">", ast.GtE: ">="}
            if strict_stop and incl_cls:
                ctx.bad(rid, stop[side],
                        f"a frame with order == {side} is classified outside by get_{which}_point ({opn[type(cop)]}) but does not stop the propagation in add_to_path ({opn[type(sop)]}): "
                        "for discrete order parameters an accepted path can contain interior frames that the classifier calls outside",
                        construct=f"add_to_path: order {opn[type(sop)]} {side}  vs  get_{which}_point: order {opn[type(cop)]} {side}")
            else:
                ctx.ok(rid, stop[side], f"stop rule and get_{which}_point agree on equality with the {side} interface")


# ---------------------------------------------------------------- R-9.6
def _linform(e, fl, at, Lsym, depth=0):
    """expr -> {symbol: coef, 1: const}; symbols are source texts; None if non-linear."""
    if depth > 10:
        return None
    if isinstance(e, ast.Constant) and isinstance(e.value, int) and not isinstance(e.value, bool):
        return {1: e.value}
    if isinstance(e, ast.BinOp) and isinstance(e.op, (ast.Add, ast.Sub)):
        a, b = _linform(e.left, fl, at, Lsym, depth + 1), _linform(e.right, fl, at, Lsym, depth + 1)
        if a is None or b is None:
            return None
        out = dict(a)
        sg = 1 if isinstance(e.op, ast.Add) else -1
        for k, v in b.items():
            out[k] = out.get(k, 0) + sg * v
        return out
    if isinstance(e, ast.UnaryOp) and isinstance(e.op, ast.USub):
        a = _linform(e.operand, fl, at, Lsym, depth + 1)
        return None if a is None else {k: -v for k, v in a.items()}
    txt = ast.unparse(e)
    if txt in Lsym:
        return {"L": 1}
    if isinstance(e, ast.Call) and dotted(e.func) == "len" and e.args and ast.unparse(e.args[0]) + "@len" in Lsym:
        return {"L": 1}
    if isinstance(e, ast.Name):
        srcs = fl.sources(e, at)
        exprs = [n for k, n, _, _ in srcs if k == "expr"]
        if len(srcs) == 1 and len(exprs) == 1:
            return _linform(exprs[0], fl, srcs[0][2], Lsym, depth + 1)
        if len(srcs) == 1 and srcs[0][0] in ("param", "free") and srcs[0][3]:
            # a local alias of a parameter path: the symbol is the path itself
            return {str(srcs[0][3]).replace('"', "'"): 1}
    if isinstance(e, (ast.Name, ast.Attribute, ast.Subscript)):
        return {txt.replace('"', "'"): 1}
    return None


def r911(ctx):
    """Metropolis length budget of the shooting move: accepting exactly when xi <= n_old/n_new
    (interior points) is implemented as a length limit  maxlen = min(int((L_old - 2)/xi) + 2, maxlength),
    backward budget maxlen - 1 (the forward part needs one step), forward budget
    maxlen - len(back) + 1 (the shooting point is shared). Checked as linear forms."""
    rid = "R-9.11"
    f = ctx.tree.func(TIS, "shoot")
    fl = flow_of(f)

    def lin(e):
        if isinstance(e, ast.Constant) and isinstance(e.value, int) and not isinstance(e.value, bool):
            return {1: e.value}
        if isinstance(e, (ast.Name, ast.Attribute, ast.Subscript)):
            return {ast.unparse(e).replace('"', "'"): 1}
        if isinstance(e, ast.BinOp) and isinstance(e.op, (ast.Add, ast.Sub)):
            a, b = lin(e.left), lin(e.right)
            if a is None or b is None:
                return None
            out = dict(a)
            for k, v in b.items():
                out[k] = out.get(k, 0) + (v if isinstance(e.op, ast.Add) else -v)
            return {k: v for k, v in out.items() if v != 0}
        return None

    # the budget
    budget = None
    for st in walk_local(f):
        if isinstance(st, ast.Assign) and isinstance(st.targets[0], ast.Name) and isinstance(st.value, ast.Call) and last_name(st.value) == "min":
            for a0 in st.value.args:
                a = deref(fl, a0, fl.cfg.node_of(st))[0]  # the budget may sit in a well-named local
                if isinstance(a, ast.BinOp) and isinstance(a.op, ast.Add) and isinstance(a.left, ast.Call) and last_name(a.left) == "int":
                    budget = (st, a)
    if budget is None:
        raise AnalysisError("R-9.11: maxlen = min(int(<interior points> / <draw>) + k, maxlength) not found in shoot")
    st, a = budget
    mname = st.targets[0].id
    inner = a.left.args[0]
    c2 = lin(a.right)
    okb = False
    why = ""
    if isinstance(inner, ast.BinOp) and isinstance(inner.op, ast.Div):
        num = lin(inner.left)
        draw = inner.right
        is_draw = isinstance(draw, ast.Call) and isinstance(draw.func, ast.Attribute) and draw.func.attr in ("random", "rand", "uniform") and "rgen" in ast.unparse(draw.func.value)
        plen = [k for k in (num or {}) if k != 1]
        if num is not None and len(plen) == 1 and plen[0].endswith(".length") and num[plen[0]] == 1 and num.get(1, 0) == -2 and c2 == {1: 2} and is_draw:
            okb = True
        else:
            why = f"numerator {short(inner.left, 30)}, offset {short(a.right, 10)}, divisor {short(draw, 30)}"
    else:
        why = "not a quotient"
    if okb:
        ctx.ok(rid, st, "shoot: length limit = int((L_old - 2)/xi) + 2 with xi from the job stream: a trial is accepted iff xi <= (L_old - 2)/(L_new - 2)")
    else:
        ctx.bad(rid, st, f"shoot: the length limit that implements the Metropolis rule is not int((L_old - 2)/xi) + 2 ({why}): the acceptance ratio is not n_old/n_new over interior points", construct="shoot: length budget " + short(a, 60))
    # backward and forward budgets
    eps = []
    for s2 in walk_local(f):
        if isinstance(s2, ast.Assign) and isinstance(s2.targets[0], ast.Name) and isinstance(s2.value, ast.Call) and last_name(s2.value) == "empty_path":
            eps.append((s2.targets[0].id, s2, kwarg(s2.value, "maxlen", 0)))
    back = [e for e in eps if "back" in e[0]]
    forw = [e for e in eps if "forw" in e[0]]
    if len(back) != 1 or len(forw) != 1:
        raise AnalysisError("R-9.11: path_back / path_forw = empty_path(maxlen=...) not found in shoot")
    def lin_arg(e, at_stmt):
        """a budget held in a local (`maxlen_forw = maxlen - path_back.length + 1`) is the same budget"""
        if isinstance(e, ast.Name) and e.id != mname:
            e2, _ = deref(fl, e, fl.cfg.node_of(at_stmt))
            if e2 is not e:
                return lin(e2)
        return lin(e)

    bl = lin_arg(back[0][2], back[0][1])
    if bl == {mname: 1, 1: -1}:
        ctx.ok(rid, back[0][1], "shoot: backward budget = maxlen - 1 (the forward part needs at least one step)")
    else:
        ctx.bad(rid, back[0][1], f"shoot: the backward segment may take `{short(back[0][2], 30)}` frames, not maxlen - 1: the pasted path can exceed the Metropolis length limit (or is cut one short)", construct="shoot: backward budget " + short(back[0][2], 30))
    fw = lin_arg(forw[0][2], forw[0][1])
    if fw == {mname: 1, f"{back[0][0]}.length": -1, 1: 1}:
        ctx.ok(rid, forw[0][1], "shoot: forward budget = maxlen - len(back) + 1 (the shooting point is shared): back + forward - 1 <= maxlen")
    else:
        ctx.bad(rid, forw[0][1], f"shoot: the forward segment may take `{short(forw[0][2], 40)}` frames, not maxlen - len(back) + 1: back + forward - 1 is not bounded by the Metropolis length limit", construct="shoot: forward budget " + short(forw[0][2], 40))


def r910(ctx):
    """A verdict is not silently overwritten: every store `<path>.status = <code>` in the move
    functions reaches the end of the function or a read of that status on some path that does not
    pass another store to the same attribute. A verdict that is overwritten on every path (an
    `elif` chain broken into two `if`s) lets a rejected path be reported with the later code."""
    rid = "R-9.10"
    n = 0
    for m, q, f in ctx.tree.all_funcs([TIS]):
        stores = [s for s in walk_local(f) if isinstance(s, ast.Assign) and len(s.targets) == 1 and isinstance(s.targets[0], ast.Attribute) and s.targets[0].attr == "status" and isinstance(s.value, ast.Constant) and isinstance(s.value.value, str)]
        if not stores:
            continue
        cfg = cfg_of(f)
        by_obj = {}
        for s in stores:
            by_obj.setdefault(ast.unparse(s.targets[0].value), []).append(s)
        for obj, ss in by_obj.items():
            reads = [x for x in walk_local(f) if isinstance(x, ast.Attribute) and x.attr == "status" and isinstance(x.ctx, ast.Load) and ast.unparse(x.value) == obj]
            # the object itself escapes (argument, return value, element of a list): its status may be read elsewhere
            uses = [x for x in walk_local(f) if isinstance(x, ast.Name) and isinstance(x.ctx, ast.Load) and x.id == obj.split(".")[0] and not isinstance(getattr(x, "_parent", None), ast.Attribute)]
            for s in ss:
                n += 1
                others = {nd for o in ss if o is not s for nd in cfg.nodes_of(o)}
                live = False
                for sn in cfg.nodes_of(s):
                    reach = cfg.reachable(sn, avoid=others)
                    if cfg.exit.id in reach or getattr(cfg, "raise_", cfg.exit).id in reach:
                        live = True
                    for r in reads + uses:
                        try:
                            if any(rn.id in reach for rn in cfg.nodes_of(r)):
                                live = True
                        except Exception:
                            pass
                if live:
                    ctx.ok(rid, s, f"{q}: verdict {s.value.value!r} on {obj} can reach a reader / the end of the function", nontrivial=False)
                else:
                    ctx.bad(rid, s, f"{q}: the verdict {s.value.value!r} stored on {obj} is overwritten on every path before anything reads it: a path that earned this rejection is reported with the later code (possibly 'ACC')",
                            construct=f"{q}: dead verdict {obj}.status = {s.value.value!r}")
    if n < 10:
        raise AnalysisError(f"R-9.10: only {n} status stores found in the move functions (expected >= 10)")


def r98(ctx):
    """Extension guards use the ensemble's own interfaces.

    A function that extends a segment to a full path (it calls engine.propagate /
    shoot_backwards under a test `left <= frame.order[0] < right`) decides with that test
    whether the end of the path is still inside. The accepted path must end outside the
    *ensemble's* interfaces, so the bounds of the test must be value-equal to elements of
    <ens>["interfaces"] (no copy that is modified, no cap, no sub-ensemble list)."""
    rid = "R-9.8"
    from ..flow import stores_in
    n = 0
    for m, q, f in ctx.tree.all_funcs([TIS]):
        props = [c for c in walk_local(f) if isinstance(c, ast.Call) and last_name(c) in ("propagate", "shoot_backwards")]
        if not props:
            continue
        fl = None
        for c in walk_local(f):
            if not (isinstance(c, ast.Compare) and any(".order[" in ast.unparse(o) for o in [c.left] + c.comparators)):
                continue
            fl = fl or flow_of(f)
            cfg = fl.cfg
            at = cfg.node_of(c)
            # does the test govern a propagation?
            governs = False
            for bn in [x for x in cfg.nodes if x.kind == "branch" and (x.ast is c or any(y is c for y in ast.walk(x.ast)))]:
                for p in props:
                    if cfg.dominates(bn, cfg.node_of(p)):
                        governs = True
            if not governs:
                continue
            n += 1
            bad = None
            for op in [c.left] + c.comparators:
                if ".order[" in ast.unparse(op):
                    continue
                base = op.value if isinstance(op, ast.Subscript) else op
                if isinstance(op, ast.Constant):
                    continue
                # locals that only name an element of the ensemble's interfaces
                # (`interfaces = ens_set["interfaces"]; left, right = interfaces[0], interfaces[-1]`)
                r_, rat = op, at
                for _ in range(4):
                    if isinstance(r_, ast.Name):
                        r2, rat2 = deref(fl, r_, rat)
                        if r2 is r_:
                            break
                        r_, rat = r2, rat2
                    elif isinstance(r_, ast.Subscript) and isinstance(r_.value, ast.Name) and isinstance(r_.slice, (ast.Constant, ast.UnaryOp)):
                        b2, bat2 = deref(fl, r_.value, rat)
                        if b2 is r_.value:
                            break
                        r_ = ast.Subscript(value=b2, slice=r_.slice, ctx=ast.Load())
                    else:
                        break
                rtxt = ast.unparse(r_).replace('"', "'")
                if isinstance(r_, ast.Subscript) and isinstance(r_.slice, (ast.Constant, ast.UnaryOp)) and ast.unparse(r_.value).replace('"', "'").endswith("['interfaces']") and not any(isinstance(tt, ast.Subscript) and path_of(tt.value) in (path_of(base), path_of(r_.value)) for tt, st_, k_ in stores_in(f)):
                    continue
                srcs = list(fl.sources(base, at))
                expanded = []
                for s4 in srcs:
                    if s4[0] == "unpack" and hasattr(s4[1], "value") and isinstance(s4[1].value, ast.AST):
                        expanded.extend(fl.sources(s4[1].value, s4[1].at))
                    else:
                        expanded.append(s4)
                for kind, node, sat, extra in expanded:
                    okk = False
                    if kind == "param" and str(extra).endswith("['interfaces']"):
                        okk = True
                    elif kind.startswith("sub:") and "['interfaces']" in str(extra):
                        okk = True
                    elif kind == "unpack" and isinstance(node, ast.AST) and "['interfaces']" in ast.unparse(node).replace('"', "'"):
                        okk = True
                    elif kind == "free" and "['interfaces']" in str(extra):
                        okk = True
                    if not okk:
                        bad = (ast.unparse(op), kind, short(node, 50) if isinstance(node, ast.AST) else str(extra))
                # element stores into the list itself
                bp = path_of(base)
                if bp:
                    for tt, st, k in stores_in(f):
                        if isinstance(tt, ast.Subscript) and path_of(tt.value) == bp:
                            bad = (ast.unparse(op), "element-store", short(st, 50))
            if bad:
                ctx.bad(rid, c, f"{q}: the test that decides whether the path end still needs extension compares with `{bad[0]}` which is not an element of the ensemble's own interfaces ({bad[1]}: {bad[2]}): a path ending between that bound and the ensemble's interface is accepted without reaching the interface",
                        construct=f"extension guard {short(c, 60)}")
            else:
                ctx.ok(rid, c, f"{q}: extension guard `{short(c, 50)}` uses the ensemble's own interfaces")
    if n < 2:
        raise AnalysisError(f"R-9.8: only {n} extension guards found (expected 2 in extender)")


def r96(ctx):
    """A wire-fencing extension that stops at its own length limit must be rejected."""
    rid = "R-9.6"
    tree = ctx.tree
    f = tree.func(TIS, "extender")
    fl = flow_of(f)
    cfg = fl.cfg
    n = 0
    for st in [s for s in walk_local(f) if isinstance(s, (ast.Expr, ast.Assign))]:
        call = st.value
        if not (isinstance(call, ast.Call) and isinstance(call.func, ast.Attribute) and call.func.attr == "propagate" and call.args):
            continue
        # success flag kept?
        if isinstance(st, ast.Assign) and isinstance(st.targets[0], ast.Tuple) and isinstance(st.targets[0].elts[0], ast.Name) and st.targets[0].elts[0].id != "_":
            flagname = st.targets[0].elts[0].id
            used = [x for x in walk_local(f) if isinstance(x, ast.Name) and x.id == flagname and isinstance(x.ctx, ast.Load)]
            if used:
                ctx.ok(rid, st, "the success flag of the extension is kept and used")
                n += 1
                continue
        X = call.args[0]
        if not isinstance(X, ast.Name):
            continue
        n += 1
        at = cfg.node_of(st)
        # maxlen of the segment
        Ef = None
        for kind, node, sat, extra in fl.sources(X, at):
            if kind == "expr" and isinstance(node, ast.Call) and last_name(node) == "empty_path":
                Ef = (kwarg(node, "maxlen", 0), sat)
        if Ef is None or Ef[0] is None:
            raise AnalysisError("R-9.6: cannot find the maxlen of the extension segment in extender")
        # concatenation into the trial path
        concat = None
        for s2 in walk_local(f):
            if isinstance(s2, ast.Assign) and isinstance(s2.targets[0], ast.Attribute) and s2.targets[0].attr == "phasepoints" and isinstance(s2.value, ast.BinOp) and isinstance(s2.value.op, ast.Add):
                l, r = s2.value.left, s2.value.right
                if ast.unparse(r) == f"{X.id}.phasepoints" and cfg.reaches(at, cfg.node_of(s2)):
                    T = ast.unparse(s2.targets[0].value)
                    delta = None
                    if ast.unparse(l) == f"{T}.phasepoints[:-1]":
                        delta = -1
                    elif ast.unparse(l) == f"{T}.phasepoints":
                        delta = 0
                    if delta is not None:
                        concat = (s2, T, delta)
            if isinstance(s2, ast.AugAssign) and ast.unparse(s2.value) == X.id and cfg.nodes_of(s2) and cfg.reaches(at, cfg.node_of(s2)):
                concat = (s2, ast.unparse(s2.target), 0)
        if concat is None:
            raise AnalysisError("R-9.6: cannot find where the extension segment is joined to the trial path")
        cst, T, delta = concat
        cn = cfg.node_of(cst)
        # the rejecting length test after the concatenation
        test = None
        for t in [x for x in cfg.nodes if x.kind == "test" and isinstance(x.ast, ast.Compare) and len(x.ast.ops) == 1]:
            c = t.ast
            if ast.unparse(c.left) in (f"{T}.length", f"len({T}.phasepoints)") and cfg.reaches(cn, t):
                # true edge must reject
                tb = [b for b in cfg.nodes if b.kind == "branch" and b.ast is c and any(tr for _, tr in b.facts)]
                rej = False
                for b in tb:
                    for r in [x for x in walk_local(f) if isinstance(x, ast.Return)]:
                        if cfg.dominates(b, cfg.node_of(r)) and isinstance(r.value, ast.Tuple) and isinstance(r.value.elts[0], ast.Constant) and r.value.elts[0].value is False:
                            rej = True
                if rej:
                    test = c
        if test is None:
            ctx.bad(rid, st, "the success flag of the extension is discarded and no length test rejects a path whose extension ran out of frames: "
                    "a path that ends inside the interfaces can be accepted", construct=short(call, 70))
            continue
        Lsym = {f"{T}.length", f"{T}.phasepoints@len"}
        ef = _linform(Ef[0], fl, Ef[1], Lsym)
        ec = _linform(test.comparators[0], fl, cfg.node_of(test), Lsym)
        if ef is None or ec is None:
            raise AnalysisError(f"R-9.6: length expressions outside the linear fragment: {short(Ef[0], 40)} / {short(test.comparators[0], 40)}")
        D = {"L": 1, 1: delta}
        for k, v in ef.items():
            D[k] = D.get(k, 0) + v
        for k, v in ec.items():
            D[k] = D.get(k, 0) - v
        other = {k: v for k, v in D.items() if k not in ("L", 1) and v != 0}
        if other:
            raise AnalysisError(f"R-9.6: cannot compare the extension budget with the limit symbolically (left over: {other})")
        a, b = D.get("L", 0), D.get(1, 0)
        LMIN = 2  # a path segment has at least two frames
        op = test.ops[0]
        if isinstance(op, ast.GtE):
            holds = a >= 0 and a * LMIN + b >= 0
        elif isinstance(op, ast.Gt):
            holds = a >= 0 and a * LMIN + b > 0
        elif isinstance(op, ast.Eq):
            holds = a == 0 and b == 0
        else:
            holds = False
        desc = f"len after a truncated extension - limit = {a}*L{b:+d} (L >= {LMIN}), test `{short(test, 50)}`"
        if holds:
            ctx.ok(rid, st, "an extension that stops at its own length limit always triggers the rejecting length test: " + desc)
        else:
            ctx.bad(rid, st,
                    "the success flag of the extension is discarded, and when the extension stops at its own length limit (without reaching an interface) "
                    "the rejecting length test is not guaranteed to fire: " + desc + " - a path ending inside the interfaces is accepted",
                    construct=f"extension maxlen={short(Ef[0], 50)}; reject if {short(test, 50)}")
    if n == 0:
        raise AnalysisError("R-9.6: no extension propagate call found in extender")


def r916(ctx, moves):
    """A rejection reports its own verdict, not the stale status of the input path. Where a move
    function returns `(flag, P, P.status)` and P can still be the path it was *given* (a parameter,
    not re-bound on that route), some store `P.status = ...` must lie on every such route - else
    the caller reads the status the old path got when it was accepted earlier ('ACC')."""
    rid = "R-9.16"
    n = 0
    for name, f in moves.items():
        fl = flow_of(f)
        cfg = fl.cfg
        params = {a.arg for a in f.args.posonlyargs + f.args.args + f.args.kwonlyargs}
        for r in [x for x in walk_local(f) if isinstance(x, ast.Return) and isinstance(x.value, ast.Tuple) and len(x.value.elts) >= 3]:
            P, st = r.value.elts[1], r.value.elts[-1]
            if not (isinstance(P, ast.Name) and isinstance(st, ast.Attribute) and st.attr == "status" and isinstance(st.value, ast.Name) and st.value.id == P.id):
                continue
            if P.id not in params:
                continue
            at = cfg.node_of(r)
            rds = fl.rd(P.id, at)
            if not any(d.kind == "param" for d, sfx in rds if not sfx):
                continue
            n += 1
            rebinds = [d.at for d in fl.defs if d.path == P.id and d.kind != "param" and d.at is not None]
            stores = [d.at for d in fl.defs if d.path == P.id + ".status" and d.at is not None]
            if cfg.reaches(cfg.entry, at, avoid=rebinds + stores, labels_excluded=("exc",)):
                ctx.bad(rid, r, f"{name} can return `{short(r.value, 50)}` while `{P.id}` is still the path it was given and no verdict was stored on it on that route: the status reported is the one the old path carries from an earlier move - 'ACC' for a path accepted before - so a move that produced nothing is taken for an acceptance (the old path is renumbered and stored again)", construct=f"{name}: stale status of the input path returned")
            else:
                ctx.ok(rid, r, f"{name}: whenever `{P.id}` is still the input path at this return, a verdict was stored on it first")
    return n


def r914(ctx):
    """Acceptance gates of the shooting move. Every `return True, ...` of shoot() lies behind
    (must-pass-through on the CFG, alternatives allowed where the code has them):
      G1 the kick was accepted; G2 the backward half reached an allowed start side (shoot_backwards
      returned True); G3 the forward half ended at an interface (engine.propagate's success flag);
      G4 the path does not touch the left side unless the ensemble allows a left start;
      G5 the middle interface was crossed, unless the ensemble allows both start sides."""
    rid = "R-9.14"
    tree = ctx.tree
    f = tree.func(TIS, "shoot")
    fl = flow_of(f)
    cfg = fl.cfg
    accs = [r for r in walk_local(f) if isinstance(r, ast.Return) and isinstance(r.value, ast.Tuple) and r.value.elts and isinstance(r.value.elts[0], ast.Constant) and r.value.elts[0].value is True]
    if not accs:
        raise AnalysisError("R-9.14: shoot has no accepting return")

    def from_call(e, callee, unpack_index=None):
        """is e a call of `callee`, or a name one of whose definitions is (an unpacking of) such a call?"""
        if isinstance(e, ast.Call) and last_name(e) == callee:
            return True
        if isinstance(e, ast.Name):
            for d in fl.defs:
                if d.path == e.id and d.value is not None and isinstance(d.value, ast.Call) and last_name(d.value) == callee:
                    if unpack_index is None or d.kind != "unpack" or tuple(d.index) == (unpack_index,):
                        return True
        return False

    def is_set_of(e, consts=None, name=None):
        if isinstance(e, ast.Call) and last_name(e) == "set" and len(e.args) == 1:
            a = e.args[0]
            if consts is not None and isinstance(a, (ast.Tuple, ast.List, ast.Set)):
                return {x.value for x in a.elts if isinstance(x, ast.Constant)} == set(consts)
            if name is not None:
                return isinstance(a, ast.Name)
        if consts is not None and isinstance(e, ast.Set):
            return {x.value for x in e.elts if isinstance(x, ast.Constant)} == set(consts)
        return False

    def ci_part(e):
        """which part of check_interfaces' result an expression denotes: 'startend' (the [:2] slice),
        'crossed' ([-1][1] / [3][1] / cross[1]) or None"""
        if isinstance(e, ast.Subscript):
            b = e.value
            if isinstance(b, ast.Call) and last_name(b) == "check_interfaces" and isinstance(e.slice, ast.Slice) and e.slice.lower is None and isinstance(e.slice.upper, ast.Constant) and e.slice.upper.value == 2:
                return "startend"
            if isinstance(e.slice, ast.Constant) and e.slice.value == 1:
                if isinstance(b, ast.Subscript) and isinstance(b.slice, (ast.Constant, ast.UnaryOp)) and ast.unparse(b.slice) in ("-1", "3") and isinstance(b.value, ast.Call) and last_name(b.value) == "check_interfaces":
                    return "crossed"
                if isinstance(b, ast.Name) and from_call(b, "check_interfaces", 3):
                    return "crossed"
        return None

    def classify(e, t):
        """(label, truth) of one branch fact"""
        if isinstance(e, ast.Compare) and len(e.ops) == 1 and isinstance(e.ops[0], (ast.In, ast.NotIn)) and isinstance(e.left, ast.Constant) and e.left.value == "L":
            truth = t if isinstance(e.ops[0], ast.In) else not t
            rhs = e.comparators[0]
            if ci_part(rhs) == "startend":
                return ("touches_left", truth)
            if is_set_of(rhs, name=True) or isinstance(rhs, ast.Name):
                return ("left_allowed", truth)
        if isinstance(e, ast.Compare) and len(e.ops) == 1 and isinstance(e.ops[0], (ast.Eq, ast.NotEq)):
            sides = [e.left, e.comparators[0]]
            if any(is_set_of(x, consts=("R", "L")) for x in sides) and any(is_set_of(x, name=True) for x in sides):
                return ("both_sides", t if isinstance(e.ops[0], ast.Eq) else not t)
            if any(isinstance(x, ast.Constant) and x.value == "M" for x in sides) and any(
                    (isinstance(x, ast.Name) and from_call(x, "check_interfaces", 2))
                    or (isinstance(x, ast.Subscript) and isinstance(x.slice, ast.Constant) and x.slice.value == 2 and isinstance(x.value, ast.Call) and last_name(x.value) == "check_interfaces") for x in sides):
                return ("crossed", t if isinstance(e.ops[0], ast.Eq) else not t)
        if ci_part(e) == "crossed":
            return ("crossed", t)
        if from_call(e, "shoot_backwards"):
            return ("back", t)
        if isinstance(e, ast.Name) and from_call(e, "check_kick"):
            return ("kick", t)
        if isinstance(e, ast.Name) and from_call(e, "propagate", 0):
            return ("forw", t)
        return (None, t)

    labelled = {}
    for n in cfg.nodes:
        if n.kind != "branch":
            continue
        for e, t in n.facts:
            if isinstance(e, ast.BoolOp) and isinstance(e.op, ast.And) and not t:
                # not (A and B): the rejection `A and B` was not taken
                parts = {classify(v.operand, False) if isinstance(v, ast.UnaryOp) and isinstance(v.op, ast.Not) else classify(v, True) for v in e.values}
                if parts == {("left_allowed", False), ("touches_left", True)}:
                    labelled.setdefault(("left_ok", True), set()).add(n.id)
                if parts == {("both_sides", False), ("crossed", False)}:
                    # not (one start side only and not crossed)
                    labelled.setdefault(("cross_ok", True), set()).add(n.id)
                continue
            lab, tr = classify(e, t)
            if lab is not None:
                labelled.setdefault((lab, tr), set()).add(n.id)
    # a single-conjunct form of G4:  if "L" in ...[:2] (under a branch where left is not allowed) etc.
    gates = [
        ("G1 the kick was accepted", [("kick", True)], "a shooting point whose velocity kick was rejected (Metropolis / outside the interfaces) goes on to produce an accepted path"),
        ("G2 the backward half ended on an allowed start side", [("back", True)], "a path whose backward half did not reach the allowed start side within the budget is accepted: it does not start where its ensemble requires"),
        ("G3 the forward half ended at an interface", [("forw", True)], "a path whose forward half ran out of frames inside the interfaces is accepted: it does not end outside the interfaces"),
        ("G4 the path touches the left side only if the ensemble allows a left start", [("left_ok", True), ("touches_left", False), ("left_allowed", True)], "a [0-]-type path that hit the left interface is accepted"),
        ("G5 the middle interface was crossed (unless both start sides are allowed)", [("crossed", True), ("both_sides", True), ("cross_ok", True)], "a path that never crossed its ensemble's interface is accepted: it does not belong to the ensemble"),
    ]
    for r in accs:
        rn = cfg.node_of(r)
        for name, alts, breaks in gates:
            nodes = set()
            for a in alts:
                nodes |= labelled.get(a, set())
            if not nodes:
                ctx.bad(rid, r, f"shoot accepts without the test `{name}`: {breaks}", construct=f"shoot: acceptance gate {name.split(' ')[0]} missing")
                continue
            if cfg.reaches(cfg.entry, rn, avoid=[cfg.nodes[x] for x in nodes], labels_excluded=("exc",)):
                ctx.bad(rid, r, f"shoot can reach its accepting return without passing `{name}`: {breaks}", construct=f"shoot: acceptance gate {name.split(' ')[0]} bypassed")
            else:
                ctx.ok(rid, r, f"shoot: every path to acceptance passes {name}")


def r917(ctx):
    """High-acceptance swap: p = w0(path1) * w1(path0) / (w0(path0) * w1(path1)), where w_k is the
    weight in ensemble k - computed with that ensemble's interfaces *and* that ensemble's move.
    Every compute_weight call of high_acc_swap pairs `intf<k>` with `ens_moves[k]`; the four calls
    cover the four (path, ensemble) combinations; the ratio has the exchanged pairs in the
    numerator and the current pairs in the denominator."""
    from .c16 import _mono
    rid = "R-9.17"
    f = ctx.tree.func(TIS, "high_acc_swap")
    params = [a.arg for a in f.args.args]
    if len(params) < 5:
        raise AnalysisError("R-9.17: high_acc_swap does not take (paths, rgen, intf0, intf1, ens_moves)")
    pths, _rg, i0, i1, mv = params[:5]
    intf_of = {i0: 0, i1: 1}
    combos = {}
    for st in walk_local(f):
        if not (isinstance(st, ast.Assign) and len(st.targets) == 1 and isinstance(st.targets[0], ast.Name) and isinstance(st.value, ast.Call) and last_name(st.value) == "compute_weight"):
            continue
        c = st.value
        if len(c.args) < 3:
            raise AnalysisError("R-9.17: compute_weight call without (path, interfaces, move)")
        pa, ia, ma = c.args[:3]
        _fl = flow_of(f)

        def _res(x):
            if isinstance(x, ast.Name) and x.id not in params:
                try:
                    x2, _ = deref(_fl, x, _fl.cfg.node_of(st))
                    return x2
                except Exception:
                    return x
            return x

        pa, ia, ma = _res(pa), _res(ia), _res(ma)
        if not (isinstance(pa, ast.Subscript) and isinstance(pa.value, ast.Name) and pa.value.id == pths and isinstance(pa.slice, ast.Constant) and isinstance(ia, ast.Name) and ia.id in intf_of
                and isinstance(ma, ast.Subscript) and isinstance(ma.value, ast.Name) and ma.value.id == mv and isinstance(ma.slice, ast.Constant)):
            raise AnalysisError(f"R-9.17: `{short(c, 60)}` is not compute_weight(paths[a], intf<k>, ens_moves[j]) (cannot decide)")
        a, k, j = pa.slice.value, intf_of[ia.id], ma.slice.value
        if k != j:
            ctx.bad(rid, c, f"high_acc_swap computes a weight in ensemble {k} (interfaces `{ia.id}`) with the move of ensemble {j} (`{short(ma, 20)}`): with `wf` in one ensemble and `sh` in the other the weight is 0/1 instead of the wire-fencing count (or the reverse), so a new path with weight 0 in its ensemble can be accepted", construct=f"high_acc_swap: {short(c, 60)}")
        else:
            ctx.ok(rid, c, f"high_acc_swap: weight of paths[{a}] in ensemble {k} uses that ensemble's interfaces and move")
        combos[st.targets[0].id] = (a, k)
    if sorted(combos.values()) != [(0, 0), (0, 1), (1, 0), (1, 1)]:
        ctx.bad(rid, f, f"high_acc_swap does not compute the four weights (path a in ensemble k), found {sorted(combos.values())}", construct="high_acc_swap: weight combinations")
        return
    ratios = [st for st in walk_local(f) if isinstance(st, ast.Assign) and isinstance(st.value, ast.BinOp) and {n.id for n in ast.walk(st.value) if isinstance(n, ast.Name)} >= set(combos)]
    if len(ratios) != 1:
        raise AnalysisError(f"R-9.17: {len(ratios)} expressions combine the four weights (expected the acceptance ratio)")
    mono = _mono(ratios[0].value, {})
    want = {n: (1 if a != k else -1) for n, (a, k) in combos.items()}
    if mono is not None and mono[0] == 1 and mono[1] == want:
        ctx.ok(rid, ratios[0], "acceptance ratio = w0(path1) * w1(path0) / (w0(path0) * w1(path1))")
    else:
        ctx.bad(rid, ratios[0], f"the acceptance ratio `{short(ratios[0].value, 60)}` is not (weights after the exchange) / (weights before the exchange)", construct="high_acc_swap: acceptance ratio")


ENGBASE_REL9 = "infretis/classes/engines/enginebase.py"

def r919(ctx):
    """The progress coordinate is component 0 of the order parameter; the other components are
    collective variables that are only recorded. Every decision of the path classifiers and of
    the stop rule reads `.order[0]`: in Path.get_start_point / get_end_point / check_interfaces
    and EngineBase.add_to_path no `.order[k]` with another constant index (or a slice) is compared
    with an interface."""
    rid = "R-9.19"
    tree = ctx.tree
    targets = [(PATH, "Path.get_start_point"), (PATH, "Path.get_end_point"), (PATH, "Path.check_interfaces"), (ENGBASE_REL9, "EngineBase.add_to_path")]
    n = 0
    for rel, q in targets:
        f = tree.func(rel, q)
        subs = [x for x in walk_local(f) if isinstance(x, ast.Subscript) and isinstance(x.value, ast.Attribute) and x.value.attr in ("order", "ordermin", "ordermax")]
        if not subs and q != "Path.check_interfaces":
            raise AnalysisError(f"R-9.19: {q} does not read a frame's order parameter (cannot decide)")
        for x in subs:
            n += 1
            k = x.slice
            if isinstance(k, ast.Constant) and k.value == 0:
                ctx.ok(rid, x, f"{q}: `{short(x, 40)}` reads the progress coordinate")
            else:
                ctx.bad(rid, x, f"{q} decides on `{short(x, 40)}` - not component 0 of the order parameter: with an order parameter that returns [progress coordinate, cv, ...] the path end / start is classified by a collective variable, e.g. a backward half that ended at the right interface is read as 'L' and a path that starts on the wrong side is accepted into the ensemble", construct=f"{q}: {short(x, 40)}")
    if n < 4:
        raise AnalysisError(f"R-9.19: only {n} reads of the order parameter found in the classifiers")


def run(ctx):
    ctx.rule("R-9.21", "the interface tests of a propagation run on the frames' own order parameter: the system carries the direction of the propagation before it starts (shared with C12 R-12.27)", floor=1)
    from . import c12 as _c12p
    ctx.attempt(_c12p.direction_flag_set, ctx, "R-9.21", " - accepted paths start or end inside the interfaces or have interior frames outside (velocity-dependent order parameters)")
    ctx.rule("R-9.20", "an accepted path contains its shooting point: frame 0 of every propagation is the phase point it was started from, for every value of subcycles (in-process engines; shared with C12 R-12.23)", floor=2)
    from . import c12 as _c12n
    ctx.attempt(_c12n.frame_cadence, ctx, "R-9.20", " - shoot / wire fencing / the zero swaps paste segments assuming frame 0 is the start point: the accepted path does not contain its shooting point and has a hole of 3*subcycles-2 MD steps around it")
    ctx.rule("R-9.6", "a wire-fencing extension whose success flag is discarded is covered by a length test that rejects every truncated extension (linear arithmetic on lengths)", floor=1)
    ctx.rule("R-9.7", "positional role agreement in the move functions: (start, end, middle, cross), (success, status), (shooting_point, idx, dek), (n_frames, new_segment), (accept, paths, status) are unpacked / passed at the callee's positions", floor=20)
    ctx.rule("R-9.8", "the tests that decide whether a path end still needs extension compare the frame's order parameter with elements of the ensemble's own interfaces (not a cap / sub-ensemble / modified copy)", floor=2)
    ctx.rule("R-9.9", "no `for` variable of the move / path code is read after its loop has ended", floor=15)
    ctx.rule("R-9.10", "no verdict (`<path>.status = code`) of a move function is overwritten on every path before it is read", floor=10)
    ctx.rule("R-9.12", "every engine can deliver maxlen frames (step budget = path.maxlen * subcycles), so the length tests of the moves see an unfinished trajectory (shared with C12 R-12.14)", floor=5)
    ctx.rule("R-9.11", "Metropolis length budget of shoot: int((L_old - 2)/xi) + 2, backward budget maxlen - 1, forward budget maxlen - len(back) + 1 (linear forms)", floor=3)
    ctx.rule("R-9.1", "every return of a move function pairs flag True with status 'ACC' and flag False with a non-'ACC' status", floor=30)
    ctx.rule("R-9.2", "the job's path is replaced only under status == 'ACC'; treat_output numbers only new paths", floor=3)
    ctx.rule("R-9.3", "frames reach engine sinks only as fresh copies; input paths are never extended in place", floor=13)
    ctx.rule("R-9.4", "shooting index drawn from [1, L-2]", floor=2)
    ctx.rule("R-9.5", "stop rule and end-point classifier agree on equality with an interface", floor=4)
    moves = move_functions(ctx.tree)
    ctx.attempt(r91, ctx, moves)
    ctx.attempt(r92, ctx)
    ctx.attempt(r93, ctx, moves)
    ctx.attempt(r94, ctx)
    ctx.rule("R-9.17", "high-acceptance swap: each weight uses the interfaces and the move of one ensemble; ratio = exchanged / current", floor=5)
    ctx.attempt(r917, ctx)
    ctx.rule("R-9.19", "path classifiers and the stop rule decide on component 0 of the order parameter only", floor=4)
    ctx.attempt(r919, ctx)
    ctx.rule("R-9.18", "an accepted path is weighted with the ensemble's own settings: calc_cv_vector receives interfaces, moves, lambda_minus_one and cap from the configuration, unmodified, at run_md as at load_paths (shared with C06 R-6.8)", floor=4)
    from .shared import callsite_config_agreement
    ctx.attempt(callsite_config_agreement, ctx, "R-9.18", "calc_cv_vector", ["interfaces", "moves", "lambda_minus_one", "cap"], " (an accepted path gets weight 0 in its own ensemble: ACC is reported for a path the scheduler cannot insert)")
    ctx.attempt(r95, ctx)
    ctx.attempt(r96, ctx)
    ctx.attempt(r98, ctx)
    ctx.attempt(r910, ctx)
    ctx.attempt(r911, ctx)
    ctx.rule("R-9.14", "acceptance gates of the shooting move: kick accepted, backward half on an allowed side, forward half at an interface, left side only if allowed, middle interface crossed unless both sides allowed - must-pass-through on the CFG", floor=5)
    ctx.attempt(r914, ctx)
    ctx.rule("R-9.16", "a rejection reports its own verdict: `return flag, P, P.status` is never reached with P still the input path and no status stored on it", floor=1)
    ctx.attempt(r916, ctx, moves)
    ctx.rule("R-9.15", "the length-based Metropolis rule is not switched off for paths reloaded at a restart: no branch on the restart tag (shared with C06 R-6.13)", floor=1)
    from .shared import restart_tag_not_tested
    ctx.attempt(restart_tag_not_tested, ctx, "R-9.15", ": a shooting move from a restarted path skips the random length budget, so a trial is accepted although the drawn number exceeds n_old / n_new")
    ctx.rule("R-9.13", "a path accepted into an ensemble has non-zero weight there: the entries of calc_cv_vector use the same inclusive crossing convention as the acceptance test (shared with C10 R-10.4)", floor=10)
    from . import c10
    from .shared import RuleProxy
    ctx.attempt(c10.r104, RuleProxy(ctx, "R-9.13", " - a path whose maximum lies exactly on its interface is accepted by the move's crossing test (minimum < interface <= maximum) yet gets weight 0 in its own ensemble"))
    from . import c12
    from .shared import RuleProxy
    ctx.attempt(c12.r1214, RuleProxy(ctx, "R-9.12", " (a zero swap ignores propagate's flag and recognises an unfinished trajectory only by length == maxlen: a shorter one is accepted although it ends inside the interfaces)"))
    from .shared import stale_loop_variable
    ctx.attempt(stale_loop_variable, ctx, "R-9.9", [TIS, PATH], None, " (the move would test / store another frame or ensemble)")
    from .shared import role_agreement
    ctx.attempt(role_agreement, ctx, "R-9.7", [TIS, PATH], None, " (the move would test / return the wrong component)")


VARIANTS = [
    B("c09-propagation-direction-not-stored-on-the-system", "infretis/classes/engines/enginebase.py", "        system.vel_rev = reverse\n        # Propagate from this point:", "        # Propagate from this point:", "R-9.21", control=True, why="seeded C09_p"),
    B("c09-turtle-first-frame-after-a-block", "infretis/classes/engines/turtlemdengine.py", "            if (i) % (self.subcycles) == 0:", "            if (i + 1) % (self.subcycles) == 0:", "R-9.20", control=True, why="seeded C09_n"),
    B("c09-end-point-from-last-order-component", PATH, "        if self.phasepoints[-1].order[0] <= left:", "        if self.phasepoints[-1].order[-1] <= left:", "R-9.19", control=True, why="seeded C09_m"),
    B("c09-run-md-minus-interface-or-false", TIS, '                picked[ens_num]["ens"]["tis_set"]["lambda_minus_one"],', '                picked[ens_num]["ens"]["tis_set"]["lambda_minus_one"] or False,', "R-9.18", control=True, why="seeded C09_l"),
    K("c09-keep-extender-bounds-through-locals", TIS, '    interfaces = ens_set["interfaces"]\n    # ensemble[\'system\'] = source_seg.phasepoints[0].copy()\n', '    interfaces = ens_set["interfaces"]\n    left, right = interfaces[0], interfaces[-1]\n', also=[(TIS, '    if interfaces[0] <= sh_pt.order[0] < interfaces[-1]:', '    if left <= sh_pt.order[0] < right:', 2)]),
    B("c09-extender-bounds-local-from-cap", TIS, '    interfaces = ens_set["interfaces"]\n    # ensemble[\'system\'] = source_seg.phasepoints[0].copy()\n', '    interfaces = ens_set["interfaces"]\n    left, right = interfaces[0], ens_set["tis_set"].get("interface_cap", interfaces[-1])\n', "R-9.8", also=[(TIS, '    if interfaces[0] <= sh_pt.order[0] < interfaces[-1]:', '    if left <= sh_pt.order[0] < right:', 2)]),
    B("c09-swap-weight-with-other-ensembles-move", TIS, "    c2_new = compute_weight(paths[0], intf1, ens_moves[1])", "    c2_new = compute_weight(paths[0], intf1, ens_moves[0])", "R-9.17", control=True, why="seeded C09_k"),
    B("c09-swap-ratio-inverted", TIS, "        p_swap_acc = c1_new * c2_new / (c1_old * c2_old)", "        p_swap_acc = c1_old * c2_old / (c1_new * c2_new)", "R-9.17"),
    K("c09-keep-swap-ratio-reordered", TIS, "        p_swap_acc = c1_new * c2_new / (c1_old * c2_old)", "        p_swap_acc = (c1_new / c1_old) * (c2_new / c2_old)"),
    B("c09-wf-no-segment-verdict-on-other-object", TIS, "        # No usable segments were generated.\n        trial_path.status = \"NSG\"", "        # No usable segments were generated.\n        new_segment.status = \"NSG\"", "R-9.16", control=True, why="seeded C09_h"),
    B("c09-restarted-paths-exempt-from-length-rule", TIS, '    if path.get_move() == "ld" or ens_set["tis_set"].get(', '    if path.get_move() in ("ld", "re") or ens_set["tis_set"].get(', "R-9.15", control=True, why="seeded C09_g"),
    B("c09-no-crossing-check", TIS, "    elif not trial_path.check_interfaces(interfaces)[-1][1]:\n        # No, we did not cross the middle interface:", "    elif False:\n        # No, we did not cross the middle interface:", "R-9.14", control=True),
    B("c09-forward-failure-ignored", TIS, "    if not success_forw:\n        trial_path.status = \"FTL\"", "    if not success_forw and False:\n        trial_path.status = \"FTL\"", "R-9.14"),
    B("c09-kick-ignored", TIS, "    if not kick:\n        return False, trial_path, trial_path.status\n    # OK: kick was either", "    if not kick and dek is None:\n        return False, trial_path, trial_path.status\n    # OK: kick was either", "R-9.14"),
    B("c09-left-touch-check-weakened", TIS, '        "L" not in set(start_cond)\n        and "L" in trial_path.check_interfaces(interfaces)[:2]', '        "L" not in set(start_cond)\n        and "L" in trial_path.check_interfaces(interfaces)[:1]', "R-9.14"),
    B("c09-crossing-check-wrong-interface", TIS, "    elif not trial_path.check_interfaces(interfaces)[-1][1]:", "    elif not trial_path.check_interfaces(interfaces)[-1][0]:", "R-9.14"),
    K("c09-keep-crossing-check-merged", TIS, "    if set((\"R\", \"L\")) == set(start_cond):\n        pass\n    elif not trial_path.check_interfaces(interfaces)[-1][1]:", "    if (\n        set((\"R\", \"L\")) != set(start_cond)\n        and not trial_path.check_interfaces(interfaces)[-1][1]\n    ):", why="form of the independent tis refactoring"),
    K("c09-keep-crossing-check-unpacked", TIS, "    elif not trial_path.check_interfaces(interfaces)[-1][1]:", "    elif trial_path.check_interfaces(interfaces)[2] != \"M\":"),
    B("c09-own-ensemble-weight-strict", TIS, "            cv.append(1.0 if intf_i <= path_max else 0.0)", "            cv.append(1.0 if path.success(intf_i) else 0.0)", "R-9.13", control=True, why="seeded C09_f (Path.success tests ordermax > interface strictly)"),
    B("c09-ase-one-frame-short", ASE, "        for i in range(self.subcycles * path.maxlen):", "        for i in range(self.subcycles * (path.maxlen - 1)):", "R-9.12", why="seeded C09_e"),
    B("c09-metropolis-counts-end-points", TIS, "            int((path.length - 2) / ens_set[\"rgen\"].random()) + 2,", "            int((path.length - 1) / ens_set[\"rgen\"].random()) + 2,", "R-9.11", control=True),
    B("c09-metropolis-offset-one", TIS, "            int((path.length - 2) / ens_set[\"rgen\"].random()) + 2,", "            int((path.length - 2) / ens_set[\"rgen\"].random()) + 1,", "R-9.11"),
    B("c09-forward-budget-no-shared-point", TIS, "    path_forw = path.empty_path(maxlen=(maxlen - path_back.length + 1))", "    path_forw = path.empty_path(maxlen=(maxlen - path_back.length))", "R-9.11"),
    B("c09-backward-budget-full", TIS, "    path_back = path.empty_path(maxlen=maxlen - 1)", "    path_back = path.empty_path(maxlen=maxlen)", "R-9.11"),
    K("c09-keep-forward-budget-reordered", TIS, "    path_forw = path.empty_path(maxlen=(maxlen - path_back.length + 1))", "    path_forw = path.empty_path(maxlen=(1 + maxlen - path_back.length))"),
    B("c09-swap-zero-btx-overwritten", TIS, '    if path0.length == maxlen0:\n        path0.status = "BTX"\n    elif path0.length < 3:', '    if path0.length == maxlen0:\n        path0.status = "BTX"\n    if path0.length < 3:', "R-9.10", control=True, why="seeded C09_d"),
    B("c09-stale-interface-after-loop", TIS, "            cv.append(1.0 if intf_i <= path_max else 0.0)\n    cv.append(0.0)", "            pass\n    cv.append(1.0 if intf_i <= path_max else 0.0)\n    cv.append(0.0)", "R-9.9", control=True),
    B("c09-extender-cap-bound", TIS, '    interfaces = ens_set["interfaces"]\n    # ensemble[\'system\'] = source_seg.phasepoints[0].copy()', '    interfaces = list(ens_set["interfaces"])\n    if ens_set["mc_move"] == "wf":\n        interfaces[2] = ens_set["tis_set"].get("interface_cap", interfaces[2])\n    # ensemble[\'system\'] = source_seg.phasepoints[0].copy()', "R-9.8", control=True, why="seeded C09_c"),
    B("c09-extender-middle-bound", TIS, "    sh_pt = trial_path.phasepoints[-1].copy()\n    if interfaces[0] <= sh_pt.order[0] < interfaces[-1]:", "    sh_pt = trial_path.phasepoints[-1].copy()\n    wf_b = [interfaces[0], ens_set[\"tis_set\"].get(\"interface_cap\", interfaces[-1])]\n    if wf_b[0] <= sh_pt.order[0] < wf_b[-1]:", "R-9.8"),
    K("c09-keep-extender-direct-bounds", TIS, "    if interfaces[0] <= sh_pt.order[0] < interfaces[-1]:", "    if ens_set[\"interfaces\"][0] <= sh_pt.order[0] < ens_set[\"interfaces\"][-1]:", count=2),
    K("c09-keep-extender-unpacked-bounds2", TIS, "    sh_pt = trial_path.phasepoints[-1].copy()\n    if interfaces[0] <= sh_pt.order[0] < interfaces[-1]:", "    sh_pt = trial_path.phasepoints[-1].copy()\n    lo, _, hi = ens_set[\"interfaces\"]\n    if lo <= sh_pt.order[0] < hi:"),
    K("c09-keep-extender-unpacked-bounds", TIS, '    interfaces = ens_set["interfaces"]\n    # ensemble[\'system\'] = source_seg.phasepoints[0].copy()', '    interfaces = ens_set["interfaces"]\n    left, _, right = ens_set["interfaces"]\n    # ensemble[\'system\'] = source_seg.phasepoints[0].copy()'),
    B("c09-wf-start-end-permuted", TIS, "        start, end, _, _ = trial_seg.check_interfaces(wf_int)", "        end, start, _, _ = trial_seg.check_interfaces(wf_int)", "R-9.7", control=True),
    B("c09-shoot-unpack-permuted", TIS, "        shooting_point, idx, dek = prepare_shooting_point(", "        shooting_point, dek, idx = prepare_shooting_point(", "R-9.7"),
    K("c09-keep-unpack-renamed", TIS, "        start, end, _, _ = trial_seg.check_interfaces(wf_int)", "        start, end, _mid, _cr = trial_seg.check_interfaces(wf_int)"),
    B("c09-true-with-ftx", TIS, '        if trial_path.length == ens_set["tis_set"]["maxlength"]:\n            trial_path.status = "FTX"  # exceeds "memory".\n        return False, trial_path, trial_path.status', '        if trial_path.length == ens_set["tis_set"]["maxlength"]:\n            trial_path.status = "FTX"  # exceeds "memory".\n        return True, trial_path, trial_path.status', "R-9.1", control=True),
    B("c09-acc-before-later-rejection", TIS, '    trial_path.weight = 1.0\n\n    # Deal with the rejections for path properties.', '    trial_path.weight = 1.0\n    trial_path.status = "ACC"\n    # Deal with the rejections for path properties.', "R-9.1",
      also=[(TIS, '        # No, we did not cross the middle interface:\n        trial_path.status = "NCR"\n        return False, trial_path, trial_path.status', '        # No, we did not cross the middle interface:\n        return False, trial_path, trial_path.status')]),
    B("c09-false-with-acc-constant", TIS, '        return False, trial_path, "NSG"', '        return False, trial_path, "ACC"', "R-9.1"),
    B("c09-swap-flag-computed-separately", TIS, "    return accept, [path0, path1], status", "    return path0.length > 2, [path0, path1], status", "R-9.1"),
    B("c09-swap-status-not-tied", TIS, '        "ACC"\n        if accept\n        else (path0.status if path0.status != "ACC" else path1.status)', '        "ACC"\n        if accept\n        else path0.status', "R-9.1"),
    B("c09-extender-acc-on-reject", TIS, '        trial_path.status = "FTX"  # exceeds "memory".\n        return False, trial_path, trial_path.status\n    trial_path.status = "ACC"\n    return True', '        trial_path.status = "ACC"  # exceeds "memory".\n        return False, trial_path, trial_path.status\n    trial_path.status = "ACC"\n    return True', "R-9.1"),
    B("c09-replace-without-acc", TIS, '        if status == "ACC":\n            minus = True if ens_num < 0 else False', '        if status != "BTX":\n            minus = True if ens_num < 0 else False', "R-9.2", control=True),
    B("c09-replace-in-select-shoot", TIS, "        new_paths = [new_path]\n", "        new_paths = [new_path]\n        pens[\"traj\"] = new_path\n", "R-9.2"),
    B("c09-store-every-path", REPEX, '            if out_traj.path_number is None or md_items["status"] == "ACC":', "            if True:", "R-9.2"),
    B("c09-modify-velocities-in-place", TIS, "    shpt_copy = shooting_point.copy()\n    logger.info(\"Shooting from order", "    shpt_copy = shooting_point\n    logger.info(\"Shooting from order", "R-9.3", control=True),
    B("c09-swap-frame-not-copied", TIS, "    phase_point = path_old1.phasepoints[1].copy()", "    phase_point = path_old1.phasepoints[1]", "R-9.3"),
    B("c09-extender-system-borrowed", TIS, "    sh_pt = trial_path.phasepoints[-1].copy()", "    sh_pt = trial_path.phasepoints[-1]", "R-9.3"),
    B("c09-append-to-old-path", TIS, "    trial_path.generated = (\"sh\", shooting_point.order[0], idx, 0)\n", "    trial_path.generated = (\"sh\", shooting_point.order[0], idx, 0)\n    path.append(shooting_point)\n", "R-9.3"),
    B("c09-failed-backward-added-to-old-path", TIS, "        path_back, trial_path, shpt_copy, ens_set, engine, start_cond\n    ):", "        path_back, path, shpt_copy, ens_set, engine, start_cond\n    ):", "R-9.3"),
    B("c09-index-can-be-first", PATH, "idx = rgen.integers(1, self.length - 1)", "idx = rgen.integers(0, self.length - 1)", "R-9.4", control=True),
    B("c09-index-can-be-last", PATH, "idx = rgen.integers(1, self.length - 1)", "idx = rgen.integers(1, self.length)", "R-9.4"),
    B("c09-index-endpoint-closed", PATH, "idx = rgen.integers(1, self.length - 1)", "idx = rgen.integers(1, self.length - 1, endpoint=True)", "R-9.4"),
    B("c09-wrong-frame-returned", PATH, "        return self.phasepoints[idx], idx", "        return self.phasepoints[idx - 1], idx", "R-9.4"),
    B("c09-extension-budget-exact", TIS, '        forth_segment = source_seg.empty_path(\n            maxlen=ens_set["tis_set"]["maxlength"]\n        )', '        forth_segment = source_seg.empty_path(\n            maxlen=ens_set["tis_set"]["maxlength"] - trial_path.length + 1\n        )', "R-9.6", control=True, why="seeded C09_a",
      also=[(TIS, '    if trial_path.length >= ens_set["tis_set"]["maxlength"]:\n        trial_path.status = "FTX"  # exceeds "memory".\n        return False, trial_path, trial_path.status\n    trial_path.status = "ACC"\n    return True, trial_path, trial_path.status', '    if trial_path.length > ens_set["tis_set"]["maxlength"]:\n        trial_path.status = "FTX"  # exceeds "memory".\n        return False, trial_path, trial_path.status\n    trial_path.status = "ACC"\n    return True, trial_path, trial_path.status')]),
    B("c09-extension-length-test-dropped", TIS, '    if trial_path.length >= ens_set["tis_set"]["maxlength"]:\n        trial_path.status = "FTX"  # exceeds "memory".\n        return False, trial_path, trial_path.status\n    trial_path.status = "ACC"\n    return True, trial_path, trial_path.status', '    trial_path.status = "ACC"\n    return True, trial_path, trial_path.status', "R-9.6"),
    K("c09-keep-extension-budget-tight-ge", TIS, '        forth_segment = source_seg.empty_path(\n            maxlen=ens_set["tis_set"]["maxlength"]\n        )', '        forth_segment = source_seg.empty_path(\n            maxlen=ens_set["tis_set"]["maxlength"] - trial_path.length + 1\n        )'),
    K("c09-keep-extension-limit-local", TIS, '    if trial_path.length >= ens_set["tis_set"]["maxlength"]:\n        trial_path.status = "FTX"  # exceeds "memory".\n        return False, trial_path, trial_path.status\n    trial_path.status = "ACC"\n    return True, trial_path, trial_path.status', '    limit = ens_set["tis_set"]["maxlength"]\n    if trial_path.length >= limit:\n        trial_path.status = "FTX"  # exceeds "memory".\n        return False, trial_path, trial_path.status\n    trial_path.status = "ACC"\n    return True, trial_path, trial_path.status'),
    K("c09-keep-index-keywords", PATH, "idx = rgen.integers(1, self.length - 1)", "idx = rgen.integers(low=1, high=self.length - 1)"),
    K("c09-keep-index-closed-form", PATH, "idx = rgen.integers(1, self.length - 1)", "idx = rgen.integers(1, self.length - 2, endpoint=True)"),
    K("c09-keep-status-local", TIS, '        trial_path.status = "NCR"\n        return False, trial_path, trial_path.status', '        trial_path.status = "NCR"\n        return False, trial_path, "NCR"'),
    K("c09-keep-copy-inline", TIS, "    shpt_copy = shooting_point.copy()\n    success_forw, _ = engine.propagate(\n        path_forw, ens_set, shpt_copy, reverse=False\n    )", "    success_forw, _ = engine.propagate(\n        path_forw, ens_set, shooting_point.copy(), reverse=False\n    )"),
    K("c09-keep-acc-guard-swapped", TIS, '        if status == "ACC":\n            minus = True if ens_num < 0 else False', '        if "ACC" == status:\n            minus = True if ens_num < 0 else False'),
    K("c09-keep-swap-status-var", TIS, "    return accept, [path0, path1], status", "    final_status = status\n    return accept, [path0, path1], final_status"),
]
