"""C13 - on-the-fly trajectory readers never return a torn frame.

For a text format a reader that sees a final line without its terminator
cannot tell a complete number from a prefix of it (6.12 vs 6.123456); field
count does not help.  Necessary condition: every statement that converts text
of the current line into frame data is dominated by a completeness guard on
that very line (newline test, or the trailing sentinel the writer's format
provides) whose failing edge returns the frames collected so far without
advancing the committed position.  The binary TRR reader needs size guards.
"""

from __future__ import annotations

import ast

from ..cfg import cfg_of
from ..flow import deref, flow_of, path_of
from ..loader import AnalysisError, dotted, last_name, loc, short, walk_local, enclosing_stmt
from ..util import CP2K, ENGPARTS, GROMACS, LAMMPS, all_calls, kwarg, oriented
from ..variants import B, K

EXPLANATION = (
    "Completeness-guard rule on the CFG of every on-the-fly reader (the "
    "callables passed to ReadAndProcessOnTheFly(...) - xyz_reader, "
    "lammpstrj_reader - and GromacsRunner.get_gromacs_frames): (R-13.1) every "
    "parse of a token of the current line (int()/float()/store of tokens "
    "into a frame buffer) is dominated by a newline test or trailing-sentinel "
    "test on that line whose failing edge returns without committing the "
    "position; (R-13.2) the committed position is stored only under the "
    "frame-complete condition (or the documented lone-newline resync); "
    "(R-13.3) every TRR read while mdrun is running is dominated by a size "
    "guard computed from a file size taken after the previous read, and "
    "bytes_read advances by exactly the returned byte counts."
)
NOT_DECIDED = (
    "(R-13.4 added after seeded changes C12_a/C13_a: returned frames own their arrays) "
    "that complete frames are returned with exactly the written values (parsing "
    "correctness) and each exactly once beyond the position discipline"
)
ASSUMPTIONS = [
    "writers terminate every line with a newline (CP2K xyz, LAMMPS dump)",
    "LAMMPS dump lines have the form `id type x y z vx vy vz id` (enforced by check_lammps_input)",
    "os.path.getsize reflects bytes that read() can return",
]


def readers(tree):
    """Functions passed as processing function to ReadAndProcessOnTheFly."""
    names = set()
    for m, f, call in all_calls(tree):
        if last_name(call) == "ReadAndProcessOnTheFly":
            a = kwarg(call, "processing_function", 1)
            if isinstance(a, ast.Name):
                names.add(a.id)
    out = []
    for nm in sorted(names):
        if not tree.has_func(ENGPARTS, nm):
            raise AnalysisError(f"C13: reader {nm} passed to ReadAndProcessOnTheFly is not defined in {ENGPARTS}")
        out.append(tree.func(ENGPARTS, nm))
    return out


def _line_loop(f):
    """(for-loop, index var, line var) of the readline loop."""
    for n in walk_local(f):
        if isinstance(n, ast.For) and "readline" in ast.unparse(n.iter):
            t = n.target
            if isinstance(t, ast.Tuple) and len(t.elts) == 2 and all(isinstance(e, ast.Name) for e in t.elts):
                return n, t.elts[0].id, t.elts[1].id
            if isinstance(t, ast.Name):
                return n, None, t.id
        if isinstance(n, ast.For) and isinstance(n.iter, ast.Attribute) and n.iter.attr == "file_object":
            t = n.target
            if isinstance(t, ast.Name):
                return n, None, t.id
    return None, None, None


def _token_vars(f, line):
    out = set()
    for n in walk_local(f):
        if isinstance(n, ast.Assign) and isinstance(n.value, ast.Call) and isinstance(n.value.func, ast.Attribute):
            if n.value.func.attr in ("split", "rsplit") and path_of(n.value.func.value) == line:
                for t in n.targets:
                    if isinstance(t, ast.Name):
                        out.add(t.id)
    return out


def _mentions(e, names):
    return any(isinstance(x, ast.Name) and x.id in names for x in ast.walk(e))


def _is_completeness_fact(e, truth, line, toks):
    """Does (e evaluated to truth) establish that the current line is complete?"""
    # line[-1] != "\n" is False  /  line[-1] == "\n" is True
    if isinstance(e, ast.Compare) and len(e.ops) == 1:
        l, r = e.left, e.comparators[0]
        def is_last_char(x):
            return (isinstance(x, ast.Subscript) and path_of(x.value) == line
                    and ast.unparse(x.slice) in ("-1", "-1:"))
        def is_nl(x):
            return isinstance(x, ast.Constant) and x.value == "\n"
        if (is_last_char(l) and is_nl(r)) or (is_last_char(r) and is_nl(l)):
            if isinstance(e.ops[0], ast.NotEq) and truth is False:
                return "newline"
            if isinstance(e.ops[0], ast.Eq) and truth is True:
                return "newline"
        # sentinel spl[0] != spl[-1]
        def tok(x, idx):
            return (isinstance(x, ast.Subscript) and isinstance(x.value, ast.Name) and x.value.id in toks
                    and ast.unparse(x.slice) == idx)
        if (tok(l, "0") and tok(r, "-1")) or (tok(l, "-1") and tok(r, "0")):
            if isinstance(e.ops[0], ast.NotEq) and truth is False:
                return "sentinel"
            if isinstance(e.ops[0], ast.Eq) and truth is True:
                return "sentinel"
    if isinstance(e, ast.Call) and isinstance(e.func, ast.Attribute) and e.func.attr == "endswith":
        if path_of(e.func.value) == line and e.args and isinstance(e.args[0], ast.Constant) and e.args[0].value in ("\n",):
            if truth is True:
                return "newline"
    return None


def _parse_sites(f, loop, line, toks):
    sites = []
    for n in walk_local(loop):
        if isinstance(n, ast.Call) and dotted(n.func) in ("int", "float", "np.float64", "np.array", "np.asarray", "np.fromstring") and n.args:
            if _mentions(n.args[0], toks | {line}):
                # np.array(frame_coordinates) does not mention tokens
                sites.append(n)
            else:
                # float(val) for val in tokens[1:4]: the comprehension variable stands for a token
                p_ = getattr(n, "_parent", None)
                while p_ is not None and not isinstance(p_, ast.stmt):
                    if isinstance(p_, (ast.ListComp, ast.GeneratorExp, ast.SetComp)):
                        for g in p_.generators:
                            tv = {x.id for x in ast.walk(g.target) if isinstance(x, ast.Name)}
                            if _mentions(g.iter, toks | {line}) and _mentions(n.args[0], tv):
                                sites.append(n)
                    p_ = getattr(p_, "_parent", None)
        if isinstance(n, (ast.Assign, ast.AugAssign)):
            tgts = n.targets if isinstance(n, ast.Assign) else [n.target]
            if any(isinstance(t, ast.Subscript) for t in tgts) and _mentions(n.value, toks):
                # store of raw tokens into a frame buffer
                if not any(isinstance(c, ast.Call) and dotted(c.func) in ("int", "float") for c in ast.walk(n.value)):
                    sites.append(n)
    return sites


def text_reader(ctx, f):
    fl = flow_of(f)
    cfg = fl.cfg
    name = f.name
    loop, idx, line = _line_loop(f)
    if loop is None:
        raise AnalysisError(f"C13: no readline loop found in reader {name}")
    toks = _token_vars(f, line)
    sites = _parse_sites(f, loop, line, toks)
    if not sites:
        raise AnalysisError(f"C13: reader {name}: no parse site found (token variables {sorted(toks)})")
    pos_stores = [d for d in fl.defs if d.path.endswith(".current_position") and d.kind in ("assign", "aug")]
    head = cfg.node_of(loop)
    for s in sites:
        n = cfg.node_of(s)
        found = None
        for e, truth, bn in cfg.guards(n):
            kind = _is_completeness_fact(e, truth, line, toks)
            if kind is None:
                continue
            # the line variable must not be re-read between guard and parse (same loop iteration)
            if not _inside(bn, loop, cfg):
                continue
            # failing edge: the sibling branch of the same test
            sib = [x for x in cfg.nodes if x.kind == "branch" and x.ast is bn.ast and x.id != bn.id and x.owner is bn.owner]
            okfail = True
            for fb in sib:
                r = cfg.reachable(fb)
                if head.id in r:
                    okfail = False  # continues reading after an incomplete line
                if any(d.at.id in r for d in pos_stores):
                    okfail = False
                if any(cfg.node_of(s2).id in r for s2 in sites):
                    okfail = False
            if okfail:
                found = kind
                break
            found = found or ("guard-without-return", e)
        if found in ("newline", "sentinel"):
            ctx.ok("R-13.1", s, f"{name}: parse dominated by a {found} completeness guard whose failing edge returns without committing")
        elif isinstance(found, tuple):
            ctx.bad("R-13.1", s, f"{name}: the completeness guard before this parse does not return on failure (reading continues / position is committed after an incomplete line)")
        else:
            ctx.bad(
                "R-13.1", s,
                f"{name}: text of the current line is parsed without a completeness guard on that line "
                "(newline or trailing-sentinel test): a last line cut mid-number is accepted as a complete "
                "value (6.12 for 6.123456) and the committed position lands mid-line",
                construct=short(s, 80),
            )
    # R-13.2
    if not pos_stores:
        ctx.bad("R-13.2", f, f"{name} never commits a read position: frames would be returned again on the next poll")
    for d in pos_stores:
        facts = cfg.guards(d.at)
        complete = False
        resync = False
        for e, truth, bn in facts:
            def _mod_of(x):
                """x or the single definition of the local x, when that is `<index> % <block>`"""
                y = deref(fl, x, bn)[0] if isinstance(x, ast.Name) else x
                return y if isinstance(y, ast.BinOp) and isinstance(y.op, ast.Mod) else None

            o = oriented(e, lambda x: _mod_of(x) is not None) if truth else None
            if o is not None and isinstance(o[1], ast.Eq):
                if idx is None or _mentions(_mod_of(o[0]).left, {idx}):
                    complete = True
            o2 = oriented(e, lambda x: path_of(x) == line) if truth else None
            if o2 is not None and isinstance(o2[2], ast.Constant) and o2[2].value == "\n":
                resync = True
        if complete:
            ctx.ok("R-13.2", d.stmt, f"{name}: position committed only under the frame-complete condition")
        elif resync:
            ctx.ok("R-13.2", d.stmt, f"{name}: documented lone-newline resync (the frame before it was complete except for its terminator)")
        else:
            ctx.bad("R-13.2", d.stmt, f"{name}: read position is committed outside the frame-complete condition: the next poll starts inside a frame")
        # the value must be the current file offset
        v = d.value if d.kind == "assign" else None
        if v is not None and not (isinstance(v, ast.Call) and isinstance(v.func, ast.Attribute) and v.func.attr == "tell"):
            ctx.bad("R-13.2", d.stmt, f"{name}: committed position is not file_object.tell()")


def _inside(bn, loop, cfg):
    a = bn.ast
    while a is not None:
        if a is loop:
            return True
        a = getattr(a, "_parent", None)
    return False


def trr_reader(ctx):
    tree = ctx.tree
    f = tree.func(GROMACS, "GromacsRunner.get_gromacs_frames")
    fl = flow_of(f)
    cfg = fl.cfg
    reads = [c for c in walk_local(f) if isinstance(c, ast.Call) and last_name(c) in ("read_trr_header", "get_data", "read_trr_data", "read")]
    reads = [c for c in reads if c.args and path_of(c.args[0]) == "self.fileh" or (isinstance(c.func, ast.Attribute) and path_of(c.func.value) == "self.fileh")]
    if len(reads) < 2:
        raise AnalysisError("C13: expected the header and data reads on self.fileh in get_gromacs_frames")
    read_nodes = [cfg.node_of(r) for r in reads]
    for r in reads:
        n = cfg.node_of(r)
        guard = None
        for e0, truth, bn in cfg.guards(n):
            if not truth:
                continue
            # orient as  <size> >= <bytes_read + needed>  however the test is written
            def _needs(x):
                """the bytes-needed side: mentions bytes_read directly or through a local"""
                y = deref(fl, x, bn)[0] if isinstance(x, ast.Name) else x
                return "self.bytes_read" in ast.unparse(y)

            o = oriented(e0, lambda x: not _needs(x))
            if o is None or not isinstance(o[1], (ast.GtE, ast.Gt)):
                continue
            rhs = deref(fl, o[2], bn)[0] if isinstance(o[2], ast.Name) else o[2]
            o = (o[0], o[1], rhs)
            if "self.bytes_read" not in ast.unparse(rhs) or not isinstance(rhs, ast.BinOp) or not isinstance(rhs.op, ast.Add):
                continue
            e = ast.Compare(left=o[0], ops=[o[1]], comparators=[o[2]])
            ast.copy_location(e, e0)
            e._parent = getattr(e0, "_parent", None)
            lsrc = fl.sources(o[0], [x for x in cfg.nodes if x.kind == "test" and x.ast is bn.ast][0])
            if all(k == "expr" and isinstance(nn, ast.Call) and dotted(nn.func) == "os.path.getsize" for k, nn, _, _ in lsrc):
                guard = (e, bn, lsrc)
        if guard is None:
            ctx.bad("R-13.3", r, "TRR read while mdrun is running is not dominated by a size guard `getsize >= bytes_read + needed`: a partially written frame can be decoded",
                    construct=short(r, 60))
            continue
        e, bn, lsrc = guard
        tn = [x for x in cfg.nodes if x.kind == "test" and x.ast is bn.ast][0]
        # the size must have been taken after the previous read
        stale = False
        size_defs = [d for d, _ in fl.rd(path_of(e.left), tn)] if path_of(e.left) else []
        all_size_defs = [d.at for d in fl.defs if path_of(e.left) and d.path == path_of(e.left)]
        for d in size_defs:
            r1 = cfg.reachable(d.at, avoid=[tn] + [x for x in all_size_defs if x.id != d.at.id])
            for rn in read_nodes:
                if rn.id in r1 and cfg.reaches(rn, tn, avoid=all_size_defs):
                    stale = True
        if stale:
            ctx.bad("R-13.3", r, "the file size used by the guard was taken before an earlier read in the same pass (stale size)", construct=short(e, 80))
            continue
        # needed bytes
        rhs = e.comparators[0]
        other = rhs.right if "bytes_read" in ast.unparse(rhs.left) else rhs.left
        need_ok = False
        if last_name(r) == "read_trr_header":
            srcs = fl.sources(other, tn)
            need_ok = all(
                (k == "expr" and isinstance(nn, (ast.Name, ast.Attribute)) and ("HEAD_SIZE" in ast.unparse(nn) or "header_size" in ast.unparse(nn)))
                or (k in ("free", "param") and ("HEAD_SIZE" in ex or "header_size" in ex))
                or (k == "unpack" and nn.index == (1,) and isinstance(nn.value, ast.Call) and last_name(nn.value) == "read_trr_header")
                for k, nn, _, ex in srcs
            )
        else:
            # data size = sum(header[key] for key in TRR_DATA_ITEMS), computed from the header just read
            sum_defs = []
            for d, _ in fl.rd(path_of(other) or "?", tn):
                v = d.value
                if isinstance(v, ast.Call) and dotted(v.func) == "sum" and "TRR_DATA_ITEMS" in ast.unparse(v) and "header" in ast.unparse(v):
                    need_ok = True
                    sum_defs.append(d.at)
            if need_ok:
                # ... of the header *just read*: every path from a header read to this guard recomputes the size
                # (TRR frames carry their own sizes; a size kept from an earlier frame is stale)
                hreads = [cfg.node_of(h) for h in walk_local(f) if isinstance(h, ast.Call) and last_name(h) == "read_trr_header"]
                for hn in hreads:
                    if cfg.reaches(hn, tn, avoid=sum_defs, labels_excluded=("exc",)):
                        need_ok = False
                        ctx.bad("R-13.3", r, "the data size required by the size guard is not recomputed for every header that is read (a path from read_trr_header to the guard bypasses `sum(header[key] for key in TRR_DATA_ITEMS)`): TRR frames carry their own sizes, so with frames of different size the guard uses an earlier frame's size - a larger frame is parsed while partly written, a smaller one is held back",
                                construct="data size of the guard kept from an earlier header")
                        break
                if not need_ok:
                    continue
        if not need_ok:
            ctx.bad("R-13.3", r, f"the number of bytes required by the size guard is not the {'header size' if last_name(r) == 'read_trr_header' else 'sum of the data-item sizes of the header just read'}",
                    construct=short(e, 80))
            continue
        # bytes_read advances by the returned count
        st = enclosing_stmt(r)
        adv = False
        if isinstance(st, ast.Assign) and isinstance(st.targets[0], ast.Tuple) and len(st.targets[0].elts) == 2:
            cnt = path_of(st.targets[0].elts[1])
            for d in fl.defs:
                if d.path == "self.bytes_read" and d.kind == "aug" and isinstance(d.stmt.op, ast.Add) and path_of(d.stmt.value) == cnt:
                    rds = fl.rd(cnt, d.at)
                    if any(dd.stmt is st for dd, _ in rds) and cfg.reaches(n, d.at):
                        adv = True
        if not adv:
            ctx.bad("R-13.3", r, "bytes_read is not advanced by the byte count returned by this read: later size guards are wrong")
            continue
        ctx.ok("R-13.3", r, f"{last_name(r)} dominated by `{short(e, 60)}` with a fresh getsize; bytes_read += returned count")
    # read_remaining_trr only after the writer finished
    for c in [c for c in walk_local(f) if isinstance(c, ast.Call) and last_name(c) == "read_remaining_trr"]:
        g = [ast.unparse(e) for e, t, _ in cfg.guards(cfg.node_of(c)) if t]
        if any(x.endswith("is not None") and "poll" in x for x in g):
            ctx.ok("R-13.3", c, "read_remaining_trr reachable only when mdrun has finished (poll is not None)")
        else:
            ctx.bad("R-13.3", c, "read_remaining_trr (which has no size guards) is reachable while mdrun may still be writing")


def zero_block_size(ctx, f):
    """No `index % D` / `index // D` with D still holding its zero initialiser in the first iteration."""
    rid = "R-13.6"
    fl = flow_of(f)
    cfg = fl.cfg
    loop, idx, line = _line_loop(f)
    if loop is None or idx is None:
        return
    head = cfg.node_of(loop)
    mods = [n for n in walk_local(loop) if isinstance(n, ast.BinOp) and isinstance(n.op, (ast.Mod, ast.FloorDiv, ast.Div)) and isinstance(n.right, ast.Name)]
    if not mods:
        return
    divisors = {m.right.id for m in mods}
    for D in sorted(divisors):
        zero_init = [d for d in fl.defs if d.path == D and d.kind == "assign" and isinstance(d.value, ast.Constant) and d.value.value == 0 and not _inside(type("X", (), {"ast": d.stmt})(), loop, cfg)]
        uses = [cfg.node_of(m) for m in mods if m.right.id == D]
        if not zero_init:
            ctx.ok(rid, mods[0], f"{f.name}: divisor {D!r} is never initialised to 0")
            continue

        def ev(e):
            """truth of e in the first iteration (index == 0); None = unknown"""
            if isinstance(e, ast.BoolOp):
                vals = [ev(v) for v in e.values]
                if isinstance(e.op, ast.And):
                    if any(v is False for v in vals):
                        return False
                    return True if all(v is True for v in vals) else None
                if any(v is True for v in vals):
                    return True
                return False if all(v is False for v in vals) else None
            if isinstance(e, ast.UnaryOp) and isinstance(e.op, ast.Not):
                v = ev(e.operand)
                return None if v is None else not v
            if isinstance(e, ast.Compare) and len(e.ops) == 1 and isinstance(e.left, ast.Name) and e.left.id == idx and isinstance(e.comparators[0], ast.Constant) and isinstance(e.comparators[0].value, int):
                c = e.comparators[0].value
                return {ast.Eq: 0 == c, ast.NotEq: 0 != c, ast.Gt: 0 > c, ast.GtE: 0 >= c, ast.Lt: 0 < c, ast.LtE: 0 <= c}.get(type(e.ops[0]))
            return None

        start = [s for s, lab in cfg.succ[head.id] if lab == "T"]
        seen = set()
        todo = [(start[0], False)] if start else []
        hit = None
        while todo:
            nid, defined = todo.pop()
            if (nid, defined) in seen or nid == head.id:
                continue
            seen.add((nid, defined))
            n = cfg.nodes[nid]
            if any(u.id == nid for u in uses) and not defined and n.kind in ("test", "stmt"):
                hit = n
                break
            for d in fl.gen.get(nid, []):
                if d.path == D and not (isinstance(d.value, ast.Constant) and d.value.value == 0):
                    defined = True
            if n.kind == "test":
                v = ev(n.ast)
                for s2, lab in cfg.succ[nid]:
                    if lab == "exc":
                        continue
                    if v is None or lab == ("T" if v else "F"):
                        todo.append((s2, defined))
                continue
            if n.kind == "stmt" and isinstance(n.ast, (ast.Return, ast.Raise)):
                continue
            for s2, lab in cfg.succ[nid]:
                if lab != "exc":
                    todo.append((s2, defined))
        if hit is not None:
            ctx.bad(rid, hit.ast if isinstance(hit.ast, ast.AST) else mods[0],
                    f"{f.name}: in the first loop iteration `{idx} % {D}` can be evaluated while {D!r} still holds its initial 0 (the branch that sets it is skipped, e.g. when the first line has no fields yet): "
                    "the reader raises ZeroDivisionError on a partially written frame",
                    construct=f"{idx} % {D} with {D} = 0 reachable in the first iteration")
        else:
            ctx.ok(rid, mods[0], f"{f.name}: {D!r} is set (or the reader returns) before `{idx} % {D}` on every first-iteration path")


def _fmt_size(e, consts):
    """Byte size of a struct format expression; variable parts are replaced by
    their largest repository-known value."""
    import struct

    def text(x):
        if isinstance(x, ast.Constant) and isinstance(x.value, str):
            return x.value
        if isinstance(x, ast.JoinedStr):
            out = ""
            vals = list(x.values)
            for i_, v in enumerate(vals):
                if isinstance(v, ast.Constant):
                    out += v.value
                else:
                    nxt = vals[i_ + 1].value if i_ + 1 < len(vals) and isinstance(vals[i_ + 1], ast.Constant) else ""
                    if i_ == 0 and isinstance(v.value, ast.Name):
                        out += ""  # the byte-order prefix (a local holding '<' or '>')
                    elif nxt.startswith("s"):
                        # a string of run-time length: the version string is the longest one read
                        ver = consts.get("_TRR_VERSION")
                        out += str(len(ver.value)) if isinstance(ver, ast.Constant) else "0"
                    else:
                        raise ValueError(ast.unparse(v.value))
            return out
        if isinstance(x, ast.Call) and isinstance(x.func, ast.Attribute) and x.func.attr == "format":
            base = x.func.value
            if isinstance(base, ast.Name) and base.id in consts and isinstance(consts[base.id], ast.Constant):
                return consts[base.id].value.replace("{}", "")
        if isinstance(x, ast.Name) and x.id in consts and isinstance(consts[x.id], ast.Constant):
            return consts[x.id].value
        raise ValueError(ast.unparse(x))

    t = text(e).lstrip("<>=!@")
    return struct.calcsize(">" + t)


def trr_head_size(ctx):
    """The size used to decide that a first header is on disk covers the largest header."""
    rid = "R-13.5"
    tree = ctx.tree
    mod = tree.mod(GROMACS)
    f = tree.func(GROMACS, "read_trr_header")
    fl = flow_of(f)
    total = 0
    parts = []
    for c in [c for c in walk_local(f) if isinstance(c, ast.Call) and last_name(c) == "read_struct_buff"]:
        fmt = c.args[1] if len(c.args) > 1 else None
        sizes = []
        cands = [fmt]
        if isinstance(fmt, ast.Name):
            cands = [n for k, n, _, _ in fl.sources(fmt, fl.cfg.node_of(c)) if k == "expr"]
        for e in cands:
            try:
                sizes.append(_fmt_size(e, mod.consts))
            except Exception as exc:
                raise AnalysisError(f"R-13.5: cannot size struct format {short(e, 40)}: {exc}")
        if not sizes:
            raise AnalysisError("R-13.5: a read_struct_buff format could not be resolved")
        total += max(sizes)
        parts.append(max(sizes))
    if "TRR_HEAD_SIZE" not in mod.consts:
        raise AnalysisError("R-13.5: TRR_HEAD_SIZE not defined")
    e = mod.consts["TRR_HEAD_SIZE"]
    val = None
    if isinstance(e, ast.Constant) and isinstance(e.value, int):
        val = e.value
    elif isinstance(e, ast.Call) and dotted(e.func) == "struct.calcsize" and e.args:
        a = e.args[0]
        try:
            if isinstance(a, ast.JoinedStr):
                txt = ""
                for v in a.values:
                    if isinstance(v, ast.Constant):
                        txt += v.value
                    else:
                        inner = v.value
                        if isinstance(inner, ast.Call) and dotted(inner.func) == "len" and isinstance(inner.args[0], ast.Name) and isinstance(mod.consts.get(inner.args[0].id), ast.Constant):
                            txt += str(len(mod.consts[inner.args[0].id].value))
                        else:
                            raise ValueError(ast.unparse(inner))
            else:
                txt = a.value
            import struct
            val = struct.calcsize(txt)
        except Exception as exc:
            raise AnalysisError(f"R-13.5: cannot evaluate TRR_HEAD_SIZE = {short(e, 60)}: {exc}")
    if val is None:
        raise AnalysisError(f"R-13.5: TRR_HEAD_SIZE is not a constant the analysis can fold: {short(e, 60)}")
    if val >= total:
        ctx.ok(rid, e, f"TRR_HEAD_SIZE = {val} >= largest header read by read_trr_header = {total} bytes (parts {parts}, double precision)")
    else:
        ctx.bad(rid, e, f"TRR_HEAD_SIZE = {val} is smaller than the largest header read_trr_header can read ({total} bytes = {parts}, double precision): "
                "the first header of a growing file is read when only part of it is on disk", construct=f"TRR_HEAD_SIZE = {short(e, 60)}")


def give_up_after_fresh_size(ctx):
    """The TRR reader gives up on data that is not there yet only on a file size measured AFTER
    the program was observed finished. A size taken before the poll can be stale: mdrun may write
    the rest of the frame and exit between the two calls, and a frame that is completely on disk
    would never be returned. For every `self.stop_read = True` that is decided by a finished
    process: a getsize() call is evaluated after the poll in the same test (a later operand of the
    conjunction), or the remaining data is read under a fresh getsize() after the decision."""
    rid = "R-13.8"
    f = ctx.tree.func(GROMACS, "GromacsRunner.get_gromacs_frames")
    fl = flow_of(f)
    cfg = fl.cfg
    n = 0

    def is_poll(x):
        t = ast.unparse(x)
        if "check_poll" in t or ".poll(" in t:
            return True
        if isinstance(x, ast.Name):
            return any(isinstance(getattr(d, "value", None), ast.AST) and ("check_poll" in ast.unparse(d.value) or ".poll(" in ast.unparse(d.value)) for d, _ in fl.rd(x.id, cfg.entry) ) or any(
                isinstance(s_, ast.Assign) and isinstance(s_.targets[0], ast.Name) and s_.targets[0].id == x.id and ("check_poll" in ast.unparse(s_.value) or ".poll(" in ast.unparse(s_.value)) for s_ in walk_local(f))
        return False

    for st in [s_ for s_ in walk_local(f) if isinstance(s_, ast.Assign) and path_of(s_.targets[0]) == "self.stop_read" and isinstance(s_.value, ast.Constant) and s_.value.value is True]:
        facts = cfg.guards(cfg.node_of(st))
        pollf = [(e, t) for e, t, bn in facts if isinstance(e, ast.Compare) and any(is_poll(x) for x in [e.left] + e.comparators)]
        if not pollf:
            continue
        n += 1
        pe = pollf[-1][0]
        ppos = (pe.lineno, pe.col_offset)
        later_size = [e for e, t, bn in facts if any(isinstance(c, ast.Call) and dotted(c.func) == "os.path.getsize" for c in ast.walk(e)) and (e.lineno, e.col_offset) > ppos]
        # or: after the decision the rest of the file is read under a fresh size
        blk = getattr(st, "_parent", None)
        after = []
        for field in ("body", "orelse"):
            b = getattr(blk, field, None)
            if isinstance(b, list) and st in b:
                after = b[b.index(st) + 1:]
        fresh_after = any(isinstance(c, ast.Call) and dotted(c.func) == "os.path.getsize" for s_ in after for c in ast.walk(s_)) and any(isinstance(c, ast.Call) and last_name(c) == "read_remaining_trr" for s_ in after for c in ast.walk(s_))
        if later_size or fresh_after:
            ctx.ok(rid, st, "the reader stops on a finished process only with a file size measured after the poll" + (" (the remaining frames are then read)" if fresh_after else ""))
        else:
            ctx.bad(rid, st, "the reader gives up as soon as the process is seen finished, trusting a file size measured before the poll: if mdrun completes the frame and exits between the size check and the poll, a frame that is completely on disk is never returned",
                    construct="stop_read on poll without a fresh getsize")
    if n < 2:
        raise AnalysisError(f"R-13.8: only {n} process-finished stop decisions found in get_gromacs_frames (expected 2)")


def line_index_alignment(ctx, f):
    """The role of a line is its enumerate index modulo the block size: every line taken from
    the file advances the index by exactly one *and* is classified in the same iteration. A
    `continue` (a line dropped while the index moves on) or a second read of the file inside the
    loop body shifts every following line of that call into the wrong role."""
    rid = "R-13.7"
    loop, _idx, _line = _line_loop(f)
    if loop is None:
        raise AnalysisError(f"R-13.7: line loop of {f.name} not found")
    conts = [n for n in ast.walk(loop) if isinstance(n, ast.Continue)]
    extra = [c for st in loop.body for c in ast.walk(st) if isinstance(c, ast.Call) and isinstance(c.func, ast.Attribute) and c.func.attr in ("readline", "readlines", "read", "__next__") or (isinstance(c, ast.Call) and isinstance(c.func, ast.Name) and c.func.id == "next")]
    uses_mod = any(isinstance(b, ast.BinOp) and isinstance(b.op, ast.Mod) for b in ast.walk(loop))
    if not uses_mod:
        raise AnalysisError(f"R-13.7: {f.name} does not classify lines by index modulo block size (rule not applicable - re-read the reader)")
    if conts:
        for c in conts:
            ctx.bad(rid, c, f"{f.name}: a line is skipped with `continue` while the enumerate index advances: every following line of this call is classified one position off (the atom-count line is taken for a header, int('ITEM:') raises / a frame is mis-parsed)", construct=f"{f.name}: continue in the line loop")
    if extra:
        for c in extra:
            ctx.bad(rid, c, f"{f.name}: the loop body reads from the file itself: lines consumed here are not counted by the index", construct=f"{f.name}: extra read in the line loop")
    if not conts and not extra:
        ctx.ok(rid, loop, f"{f.name}: every consumed line advances the index once and is classified or ends the call (no continue, no extra read)")


def seek_discipline(ctx):
    """Every poll starts reading at the committed position: in
    ReadAndProcessOnTheFly.read_and_process_content the processing function is reached only through
    `seek(self.current_position)`; no other seek (end of file, a cached offset) lies on a path to it.
    The readers commit `current_position` at frame boundaries (R-13.2); starting anywhere else skips
    complete frames or lands inside one."""
    rid = "R-13.9"
    tree = ctx.tree
    f = tree.func(ENGPARTS, "ReadAndProcessOnTheFly.read_and_process_content")
    cfg = cfg_of(f)
    procs = [c for c in walk_local(f) if isinstance(c, ast.Call) and isinstance(c.func, ast.Attribute) and c.func.attr == "processing_function"]
    if not procs:
        raise AnalysisError("R-13.9: the call of the processing function was not found")
    seeks = [c for c in walk_local(f) if isinstance(c, ast.Call) and isinstance(c.func, ast.Attribute) and c.func.attr == "seek"]
    good = [c for c in seeks if len(c.args) == 1 and not c.keywords and ast.unparse(c.args[0]) == "self.current_position"]
    other = [c for c in seeks if c not in good]
    gn = [cfg.node_of(c) for c in good]
    for p_ in procs:
        pn = cfg.node_of(p_)
        if not good or cfg.reaches(cfg.entry, pn, avoid=gn, labels_excluded=("exc",)):
            ctx.bad(rid, p_, "the processing function can be reached without `seek(self.current_position)`: a poll does not start at the committed frame boundary", construct="read_and_process_content: no seek to the committed position")
        elif any(cfg.reaches(cfg.node_of(o), pn, labels_excluded=("exc",)) for o in other):
            o = next(o for o in other if cfg.reaches(cfg.node_of(o), pn, labels_excluded=("exc",)))
            ctx.bad(rid, o, f"a poll can start reading at `{short(o, 50)}` instead of the committed position: complete frames between the committed position and that offset are never returned (e.g. when the previous poll stopped on a lone newline and the file did not grow since)", construct=f"read_and_process_content: {short(o, 50)}")
        else:
            ctx.ok(rid, p_, "every poll seeks to the committed position before the reader runs")


def trr_byte_order(ctx, rid="R-13.10", what=""):
    """TRR byte order: the magic number is read big-endian; exactly when it is not the GROMACS
    magic, the byte order used for every later read of the header is exchanged. On the CFG of
    read_trr_header: from the `magic != MAGIC` edge every path to the next read passes
    `endian = swap_endian(endian)`; from the `magic == MAGIC` edge no path does."""
    f = ctx.tree.func(GROMACS, "read_trr_header")
    cfg = cfg_of(f)
    reads = [st for st in walk_local(f) if isinstance(st, ast.Assign) and any(isinstance(c, ast.Call) and last_name(c) == "read_struct_buff" for c in ast.walk(st.value))]
    if len(reads) < 2:
        raise AnalysisError(f"{rid}: read_trr_header has fewer than two read_struct_buff reads (cannot decide)")
    first = min(reads, key=lambda st: st.lineno)
    if not (len(first.targets) == 1 and isinstance(first.targets[0], ast.Name)):
        raise AnalysisError(f"{rid}: the magic number is not read into a name")
    M = first.targets[0].id
    later = [cfg.node_of(st) for st in reads if st is not first]
    swaps = [cfg.node_of(st) for st in walk_local(f) if isinstance(st, ast.Assign) and isinstance(st.value, ast.Call) and last_name(st.value) == "swap_endian"]
    if not swaps:
        ctx.bad(rid, f, "read_trr_header never exchanges the byte order: little-endian TRR files are parsed as big-endian" + what, construct="read_trr_header: no swap_endian")
        return

    def magic_fact(e):
        o = oriented(e, lambda x: isinstance(x, ast.Name) and x.id == M)
        if o is None or not isinstance(o[1], (ast.Eq, ast.NotEq)) or "MAGIC" not in ast.unparse(o[2]).upper():
            return None
        return isinstance(o[1], ast.Eq)

    branches = []
    for n in cfg.nodes:
        if n.kind != "branch":
            continue
        for e, truth in n.facts:
            mf = magic_fact(e)
            if mf is None:
                continue
            # the test must see the value as read (no reassignment of the magic before it)
            branches.append((n, mf == truth))
    if not branches:
        raise AnalysisError(f"{rid}: no test of the magic number against the GROMACS magic found (cannot decide)")
    # the outermost test: its branch nodes are not dominated by another magic branch
    ids = {b.id for b, _ in branches}
    outer = [(b, eq) for b, eq in branches if not (set(cfg.dom.get(b.id, ())) & (ids - {b.id}))]
    for b, equal in outer:
        if equal:
            reach = cfg.reachable(b, avoid=later)
            hit = [s for s in swaps if s.id in reach]
            if hit:
                ctx.bad(rid, hit[0].ast, f"read_trr_header exchanges the byte order although the magic number matched as read: big-endian TRR files are decoded with the wrong byte order{what}", construct="read_trr_header: swap on the matching side")
            else:
                ctx.ok(rid, b.ast, "magic number matches as read: the byte order is kept")
        else:
            bad = [r for r in later if cfg.reaches(b, r, avoid=swaps)]
            if bad:
                ctx.bad(rid, bad[0].ast, f"read_trr_header can reach `{short(bad[0].ast, 50)}` from the `magic number differs` edge without `endian = swap_endian(endian)`: a TRR file that is merely little-endian is parsed as big-endian (the string length decodes to 218103808 and the read raises), although the reader supports both byte orders{what}", construct="read_trr_header: mismatching magic without byte-order swap")
            else:
                ctx.ok(rid, b.ast, "magic number differs as read: every path to the next read exchanges the byte order")


def no_midframe_resume(ctx):
    """While the TRR reader waits for the data block of a frame whose header it has already
    consumed, the file position is inside a frame. The only way out of that wait without the data
    is to stop reading altogether (`self.stop_read = True`): a bare `break` hands control back to
    the outer loop, whose process-finished branch assumes a frame boundary and parses the rest of
    the file - starting with the half-written data block - as headers (struct.error instead of
    the frames that are complete on disk)."""
    rid = "R-13.11"
    f = ctx.tree.func(GROMACS, "GromacsRunner.get_gromacs_frames")
    cfg = cfg_of(f)
    waits = [w for w in walk_local(f) if isinstance(w, ast.While) and any(isinstance(c, ast.Call) and last_name(c) in ("get_data", "read_trr_data") for c in ast.walk(w))
             and not any(isinstance(c, ast.Call) and last_name(c) == "read_trr_header" for c in ast.walk(w))]
    if not waits:
        raise AnalysisError("R-13.11: the wait loop for a frame's data block was not found in get_gromacs_frames")
    n = 0
    for w in waits:
        head = cfg.node_of(w.test)
        stops = [cfg.node_of(st) for st in ast.walk(w) if isinstance(st, ast.Assign) and path_of(st.targets[0]) == "self.stop_read" and isinstance(st.value, ast.Constant) and st.value.value is True]
        brs = [b for b in ast.walk(w) if isinstance(b, ast.Break) and next((p for p in _enclosing(b) if isinstance(p, (ast.While, ast.For))), None) is w]
        rets = [r for r in ast.walk(w) if isinstance(r, ast.Return)]
        for b in brs + rets:
            n += 1
            if cfg.reaches(head, cfg.node_of(b), avoid=stops, labels_excluded=("exc",)):
                ctx.bad(rid, b, "the reader leaves the wait for a frame's data block (header already consumed) without setting stop_read: the outer loop continues from a position inside the frame, and its process-finished branch parses the half-written data as a header (struct.error / 'Unknown format') instead of returning only the frames that are complete on disk", construct="get_gromacs_frames: break out of the data wait without stop_read")
            else:
                ctx.ok(rid, b, "leaving the data wait without the data stops the reader (stop_read set first)")
    if n == 0:
        ctx.ok(rid, waits[0], "the data wait is left only with the data", nontrivial=False)


def _enclosing(node):
    out = []
    p_ = getattr(node, "_parent", None)
    while p_ is not None and not isinstance(p_, (ast.FunctionDef, ast.AsyncFunctionDef)):
        out.append(p_)
        p_ = getattr(p_, "_parent", None)
    return out


def run(ctx):
    ctx.rule("R-13.6", "line-index arithmetic never divides by a block size that still holds its zero initialiser (no exception on a partial first line)", floor=1)
    ctx.rule("R-13.5", "the byte count that gates the first TRR header read covers the largest header (struct formats of read_trr_header, double precision)", floor=1)
    ctx.rule("R-13.8", "the TRR reader stops on a finished process only with a file size measured after the poll (no frame that is complete on disk is dropped by the exit race)", floor=2)
    ctx.rule("R-13.7", "text readers: every line taken from the file advances the line index once and is classified by it (no `continue`, no extra read inside the line loop)", floor=2)
    ctx.rule("R-13.1", "every parse of current-line text is dominated by a completeness guard (newline / sentinel) whose failing edge returns without committing", floor=6)
    ctx.rule("R-13.2", "the read position is committed only under the frame-complete condition (or the documented lone-newline resync)", floor=3)
    ctx.rule("R-13.3", "TRR reads while mdrun runs are dominated by fresh size guards; bytes_read advances by the returned counts", floor=3)
    ctx.rule("R-13.4", "a frame buffer appended to the returned list is re-allocated before it is written again (returned frames do not share storage)", floor=3)
    rs = readers(ctx.tree)
    if len(rs) < 2:
        raise AnalysisError(f"C13: expected 2 text readers passed to ReadAndProcessOnTheFly, found {[r.name for r in rs]}")
    from .shared import handed_out_buffers
    for f in rs:
        ctx.attempt(text_reader, ctx, f)
        ctx.attempt(handed_out_buffers, ctx, "R-13.4", f, "returned frame owns its data")
        ctx.attempt(zero_block_size, ctx, f)
        ctx.attempt(line_index_alignment, ctx, f)
    ctx.attempt(trr_reader, ctx)
    ctx.attempt(give_up_after_fresh_size, ctx)
    ctx.attempt(trr_head_size, ctx)
    ctx.rule("R-13.9", "every poll of an on-the-fly reader starts at the committed position (no other seek on a path to the reader)", floor=1)
    ctx.attempt(seek_discipline, ctx)
    ctx.rule("R-13.10", "TRR byte order: swapped exactly when the magic number read big-endian differs from the GROMACS magic (both byte orders are read while mdrun runs)", floor=2)
    ctx.attempt(trr_byte_order, ctx)
    ctx.rule("R-13.11", "the TRR reader never resumes from inside a frame: the wait for a data block whose header was consumed is left without the data only after stop_read was set", floor=1)
    ctx.attempt(no_midframe_resume, ctx)
    ctx.rule("R-13.12", "the on-the-fly text readers classify a line as complete by the layout the writer produces (box lines with 2 or 3 columns, 9 header lines, 9 atom columns): shared with C19 R-19.3", floor=3)
    from . import c19 as _c19
    from .shared import RuleProxy as _RP13
    ctx.attempt(_c19.r193, _RP13(ctx, "R-13.12", " (complete lines of a legal dump layout are taken for partial writes: the reader returns early at every poll, the position never advances and no frame is ever returned)"))


VARIANTS = [
    B("c13-lammps-box-line-two-columns-only", ENGPARTS, "            if n_box_cols not in [2, 3] or line[-1] != \"\\n\":", "            if n_box_cols != 2 or line[-1] != \"\\n\":", "R-13.12", control=True, why="seeded C13_m"),
    B("c13-trr-data-wait-left-without-stop", GROMACS, "                                    self.stop_read = True\n                                    break\n", "                                    break\n", "R-13.11", control=True, why="seeded C13_l"),
    B("c13-trr-swap-only-when-unrecognised", GROMACS, "        if not magic == _GROMACS_MAGIC:\n            logger.critical(\n                \"TRR file might be inconsistent! Could find _GROMACS_MAGIC\"\n            )\n        endian = swap_endian(endian)\n", "        if not magic == _GROMACS_MAGIC:\n            logger.critical(\n                \"TRR file might be inconsistent! Could find _GROMACS_MAGIC\"\n            )\n            endian = swap_endian(endian)\n", "R-13.10", control=True, why="seeded C13_k"),
    K("c13-keep-trr-magic-test-inverted", GROMACS, "    if magic == _GROMACS_MAGIC:\n        pass\n    else:\n        magic = swap_integer(magic)\n        if not magic == _GROMACS_MAGIC:\n            logger.critical(\n                \"TRR file might be inconsistent! Could find _GROMACS_MAGIC\"\n            )\n        endian = swap_endian(endian)\n", "    if magic != _GROMACS_MAGIC:\n        if swap_integer(magic) != _GROMACS_MAGIC:\n            logger.critical(\n                \"TRR file might be inconsistent! Could find _GROMACS_MAGIC\"\n            )\n        endian = swap_endian(endian)\n"),
    B("c13-poll-skips-to-end-when-size-unchanged", ENGPARTS, "                self.file_object.seek(self.current_position)\n", "                if os.path.getsize(self.file_path) == getattr(self, \"_size\", -1):\n                    self.file_object.seek(0, 2)\n                else:\n                    self.file_object.seek(self.current_position)\n                self._size = os.path.getsize(self.file_path)\n", "R-13.9", control=True, why="seeded C13_i"),
    B("c13-trr-data-size-from-first-header", GROMACS, '                        if first_header:\n                            logger.debug("TRR header was: %i", new_bytes)\n                            first_header = False\n                        # Calculate the size of the data:\n                        self.data_size = sum(\n                            header[key] for key in TRR_DATA_ITEMS\n                        )\n', '                        if first_header:\n                            self.data_size = sum(\n                                header[key] for key in TRR_DATA_ITEMS\n                            )\n                            logger.debug("TRR header was: %i", new_bytes)\n                            first_header = False\n', "R-13.3", why="seeded C13_g"),
    B("c13-trr-give-up-on-stale-size", GROMACS, "                                if (\n                                    self.check_poll() is not None\n                                    and os.path.getsize(self.trr_file)\n                                    < self.bytes_read + self.data_size\n                                ):", "                                if self.check_poll() is not None:", "R-13.8", control=True, why="seeded C13_e"),
    B("c13-lammps-lone-newline-continue", ENGPARTS, "            reader_class.previous_position = reader_class.current_position\n            reader_class.current_position = reader_class.file_object.tell()\n            return trajectory, box\n        spl = line.split()", "            reader_class.previous_position = reader_class.current_position\n            reader_class.current_position = reader_class.file_object.tell()\n            continue\n        spl = line.split()", "R-13.7", control=True, why="seeded C13_d"),
    B("c13-xyz-skips-comment-line-by-read", ENGPARTS, "        if i % block_size > 1:", "        if i % block_size == 1:\n            reader_class.file_object.readline()\n        if i % block_size > 1:", "R-13.7"),
    B("c13-xyz-atoms-fieldcount-only", ENGPARTS, 'if len(spl) != 4 or line[-1] != "\\n":', "if len(spl) != 4:", "R-13.1", control=True, why="pre-fix D3"),
    B("c13-xyz-natoms-unguarded", ENGPARTS, '            if not spl or line[-1] != "\\n":\n                return trajectory\n            N_atoms = int(spl[0])', '            if not spl:\n                return trajectory\n            N_atoms = int(spl[0])', "R-13.1"),
    B("c13-lammps-natoms-unguarded", ENGPARTS, '            if not spl or line[-1] != "\\n":\n                return trajectory, box', "            if not spl:\n                return trajectory, box", "R-13.1"),
    B("c13-lammps-box-unguarded", ENGPARTS, 'if n_box_cols not in [2, 3] or line[-1] != "\\n":', "if n_box_cols not in [2, 3]:", "R-13.1"),
    B("c13-lammps-sentinel-dropped", ENGPARTS, "if len(spl) != 9 or spl[0] != spl[-1]:", "if len(spl) != 9:", "R-13.1", control=True),
    B("c13-lammps-guard-continues", ENGPARTS, "            if len(spl) != 9 or spl[0] != spl[-1]:\n                return trajectory, box", "            if len(spl) != 9 or spl[0] != spl[-1]:\n                continue", "R-13.1"),
    B("c13-xyz-commit-on-partial", ENGPARTS, '            if len(spl) != 4 or line[-1] != "\\n":\n                return trajectory', '            if len(spl) != 4 or line[-1] != "\\n":\n                reader_class.current_position = reader_class.file_object.tell()\n                return trajectory', "R-13.2", control=True),
    B("c13-xyz-commit-every-line", ENGPARTS, "        if i % block_size == N_atoms + 1 and i > 0:\n            trajectory.append(np.array(frame_coordinates, dtype=np.float64))\n            reader_class.previous_position = reader_class.current_position\n            reader_class.current_position = reader_class.file_object.tell()",
      "        reader_class.current_position = reader_class.file_object.tell()\n        if i % block_size == N_atoms + 1 and i > 0:\n            trajectory.append(np.array(frame_coordinates, dtype=np.float64))\n            reader_class.previous_position = reader_class.current_position", "R-13.2"),
    B("c13-trr-header-guard-weak", GROMACS, "if size >= self.bytes_read + header_size:", "if size >= self.bytes_read:", "R-13.3", control=True),
    B("c13-trr-data-guard-dropped", GROMACS, "if size >= self.bytes_read + self.data_size:", "if size >= 0:", "R-13.3"),
    B("c13-trr-bytes-not-advanced", GROMACS, "                                    self.bytes_read += new_bytes\n                                    yield data", "                                    yield data", "R-13.3"),
    B("c13-trr-stale-size", GROMACS, "                            size = os.path.getsize(self.trr_file)\n                            if size >= self.bytes_read + self.data_size:", "                            if size >= self.bytes_read + self.data_size:", "R-13.3"),
    B("c13-trr-data-size-from-constant", GROMACS, "                        self.data_size = sum(\n                            header[key] for key in TRR_DATA_ITEMS\n                        )", "                        self.data_size = 1", "R-13.3"),
    B("c13-lammps-shared-box-buffer", ENGPARTS, "            coordinate_snapshot = np.zeros((N_atoms, 6), dtype=np.float64)\n            box_snapshot = np.zeros((3, 3), dtype=np.float64)\n    return trajectory, box", "            coordinate_snapshot = np.zeros((N_atoms, 6), dtype=np.float64)\n    return trajectory, box", "R-13.4", control=True, why="seeded C12_a"),
    B("c13-lammps-shared-buffers", ENGPARTS, "            coordinate_snapshot = np.zeros((N_atoms, 6), dtype=np.float64)\n            box_snapshot = np.zeros((3, 3), dtype=np.float64)\n    return trajectory, box", "    return trajectory, box", "R-13.4", why="seeded C13_a"),
    B("c13-xyz-shared-list", ENGPARTS, "            trajectory.append(np.array(frame_coordinates, dtype=np.float64))", "            trajectory.append(frame_coordinates)", "R-13.4", also=[(ENGPARTS, "            frame_coordinates = []\n\n    return trajectory", "            frame_coordinates.clear()\n\n    return trajectory")]),
    K("c13-keep-lammps-alloc-copy", ENGPARTS, "            trajectory.append(coordinate_snapshot)\n            box.append(box_snapshot)", "            trajectory.append(coordinate_snapshot.copy())\n            box.append(box_snapshot.copy())"),
    B("c13-trr-head-size-single-precision", GROMACS, "TRR_HEAD_SIZE = 1000", 'TRR_HEAD_SIZE = struct.calcsize(f">3i{len(_TRR_VERSION)}s13i2f")', "R-13.5", control=True, why="seeded C13_b"),
    B("c13-trr-head-size-small", GROMACS, "TRR_HEAD_SIZE = 1000", "TRR_HEAD_SIZE = 64", "R-13.5"),
    K("c13-keep-trr-head-size-exact", GROMACS, "TRR_HEAD_SIZE = 1000", 'TRR_HEAD_SIZE = struct.calcsize(f">3i{len(_TRR_VERSION)}s13i2d")'),
    B("c13-xyz-blank-first-line", ENGPARTS, '        if i == 0:\n            # the line is not fully written, might read wrong nr. of atoms\n            # (or only the blanks in front of a right-aligned number)\n            if not spl or line[-1] != "\\n":\n                return trajectory', '        if i == 0 and spl:\n            # the line is not fully written, might read wrong nr. of atoms\n            if line[-1] != "\\n":\n                return trajectory', "R-13.6", control=True, why="pre-fix D13"),
    K("c13-keep-xyz-endswith", ENGPARTS, 'if len(spl) != 4 or line[-1] != "\\n":', 'if len(spl) != 4 or not line.endswith("\\n"):'),
    K("c13-keep-lammps-sentinel-swapped", ENGPARTS, "spl[0] != spl[-1]", "spl[-1] != spl[0]"),
    K("c13-keep-trr-sum-commuted", GROMACS, "if size >= self.bytes_read + header_size:", "if size >= header_size + self.bytes_read:"),
    K("c13-keep-lammps-split-guard", ENGPARTS, '            if not spl or line[-1] != "\\n":\n                return trajectory, box\n', '            if not spl:\n                return trajectory, box\n            if line[-1] != "\\n":\n                return trajectory, box\n'),
    K("c13-keep-xyz-eq-form", ENGPARTS, '            if not spl or line[-1] != "\\n":\n                return trajectory\n            N_atoms = int(spl[0])', '            if spl and line[-1] == "\\n":\n                N_atoms = int(spl[0])\n            else:\n                return trajectory'),
]
