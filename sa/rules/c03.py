"""C03 - a busy ensemble, path, engine or work directory is never shared.

Lock / ownership discipline: every mutation of busy state goes through a
checked primitive, every job handed out acquired everything it holds on every
path, release happens only when a result is consumed.
"""

from __future__ import annotations

import ast

from ..cfg import cfg_of
from ..flow import deref, flow_of, path_of
from ..loader import FUNC, AnalysisError, dotted, last_name, loc, short, walk_local, enclosing_func, enclosing_stmt
from ..util import FACTORY, REPEX, SCHED, SETUP, TIS, all_calls, is_self_attr, last_key, loops_of
from ..variants import B, K

EXPLANATION = (
    "Lock/ownership discipline on AST+CFG: (R-3.1) the busy-flag array _locks "
    "is written only by __init__ and by checked acquire/release stores; "
    "(R-3.2) a store of 1 (0) into _locks[e] is dominated by a raising check "
    "that _locks[e] == 0 (== 1); (R-3.3) every job issuer acquires every "
    "ensemble it hands out on every path, after swapping the chosen path into "
    "the slot (wrapper summaries); (R-3.4) the partner of a zero swap is "
    "acquired only under a test that its flag is clear (case split resolved "
    "by elimination of contradictory disjuncts); (R-3.5) release only through "
    "add_traj from the consumer loop / initial load, and the finished job is "
    "dropped from the in-flight list before the commit; (R-3.6) engine "
    "instances are claimed only when free and the claimed index is the one "
    "returned; (R-3.7) the worker directory derives from the worker's pin."
)
NOT_DECIDED = (
    "that the picked path has non-zero weight in its ensemble (a value of P); "
    "the global exclusion invariant over interleavings as such (model checking)"
)
ASSUMPTIONS = [
    "assert statements are enabled (python is not run with -O)",
    "the scheduler is single-threaded: REPEX_state methods are not re-entered concurrently",
]

LOCKS = "_locks"


def _lock_stores(tree):
    """Every store / mutation of an attribute named _locks anywhere."""
    out = []
    for m, q, f in tree.all_funcs():
        for n in walk_local(f):
            tgts = []
            if isinstance(n, ast.Assign):
                tgts = n.targets
            elif isinstance(n, (ast.AugAssign, ast.AnnAssign)):
                tgts = [n.target]
            elif isinstance(n, ast.Delete):
                tgts = n.targets
            for t in tgts:
                base = t
                sub = None
                if isinstance(t, ast.Subscript):
                    base, sub = t.value, t.slice
                if isinstance(base, ast.Attribute) and base.attr == LOCKS:
                    out.append((m, f, n, t, sub))
            if isinstance(n, ast.Call) and isinstance(n.func, ast.Attribute):
                if n.func.attr in ("fill", "put", "itemset", "resize", "sort") and isinstance(n.func.value, ast.Attribute) and n.func.value.attr == LOCKS:
                    out.append((m, f, n, n.func.value, "call"))
                if dotted(n.func) in ("setattr",) and len(n.args) > 1 and isinstance(n.args[1], ast.Constant) and n.args[1].value == LOCKS:
                    out.append((m, f, n, n, "call"))
    return out


def r31_32(ctx):
    tree = ctx.tree
    stores = _lock_stores(tree)
    acq_funcs, rel_funcs = {}, {}
    for m, f, st, tgt, sub in stores:
        fq = getattr(f, "_fq", f.name)
        if sub is None:
            if f.name == "__init__" and m.rel == REPEX:
                ctx.ok("R-3.1", st, "initialisation of the busy flags in REPEX_state.__init__")
            else:
                ctx.bad("R-3.1", st, "the busy-flag array is rebound outside REPEX_state.__init__: flags of in-flight jobs are lost")
            continue
        if sub == "call" or not isinstance(st, ast.Assign) or not isinstance(st.value, ast.Constant) or st.value.value not in (0, 1):
            ctx.bad("R-3.1", st, "busy flags are modified by something other than a checked acquire (=1) / release (=0) store")
            continue
        if isinstance(sub, ast.Slice):
            ctx.bad("R-3.1", st, "busy flags are modified in bulk (slice store)")
            continue
        val = st.value.value
        cfg = cfg_of(f)
        n = cfg.node_of(st)
        want = 0 if val == 1 else 1
        checked = False
        for e, truth, bn in cfg.guards(n):
            if isinstance(e, ast.Compare) and len(e.ops) == 1 and isinstance(e.left, ast.Subscript):
                l = e.left
                if isinstance(l.value, ast.Attribute) and l.value.attr == LOCKS and ast.unparse(l.slice) == ast.unparse(sub):
                    c = e.comparators[0]
                    if isinstance(c, ast.Constant):
                        if isinstance(e.ops[0], ast.Eq) and truth and c.value == want:
                            checked = True
                        if isinstance(e.ops[0], ast.NotEq) and not truth and c.value == want:
                            checked = True
            # `not self._locks[e]` / `self._locks[e]` truthiness
            if isinstance(e, ast.Subscript) and isinstance(e.value, ast.Attribute) and e.value.attr == LOCKS and ast.unparse(e.slice) == ast.unparse(sub):
                if (want == 0 and truth is False) or (want == 1 and truth is True):
                    checked = True
        # the failing side must raise (assert, or if ...: raise)
        if checked:
            ctx.ok("R-3.1", st, f"{'acquire' if val else 'release'} store in {fq}")
            ctx.ok("R-3.2", st, f"{'acquire' if val else 'release'} of _locks[{ast.unparse(sub)}] dominated by a check that it was {want}")
            (acq_funcs if val == 1 else rel_funcs)[f.name] = (f, sub)
        else:
            ctx.ok("R-3.1", st, f"{'acquire' if val else 'release'} store in {fq}")
            ctx.bad("R-3.2", st,
                    f"{'acquire' if val else 'release'} of a busy flag is not dominated by a check that the flag was {want}: "
                    + ("a second job could silently take a busy ensemble" if val else "a slot that is not held could be released"))
            (acq_funcs if val == 1 else rel_funcs)[f.name] = (f, sub)
    return acq_funcs, rel_funcs


def _acquiring_functions(tree, acq_funcs):
    """Methods of REPEX_state that acquire one of their parameters on all normal paths."""
    cls = tree.cls(REPEX, "REPEX_state")
    methods = {s.name: s for s in cls.body if isinstance(s, FUNC)}
    acq = {}  # name -> param name
    for name, (f, sub) in acq_funcs.items():
        if isinstance(sub, ast.Name) and sub.id in [a.arg for a in f.args.args]:
            cfg = cfg_of(f)
            stores = [cfg.node_of(n) for n in walk_local(f) if isinstance(n, ast.Assign) and any(isinstance(t, ast.Subscript) and isinstance(t.value, ast.Attribute) and t.value.attr == LOCKS for t in n.targets)]
            if not cfg.reaches(cfg.entry, cfg.exit, avoid=stores):
                acq[name] = sub.id
    changed = True
    while changed:
        changed = False
        for name, f in methods.items():
            if name in acq:
                continue
            params = [a.arg for a in f.args.args][1:]
            for p in params:
                cfg = cfg_of(f)
                nodes = []
                for c in walk_local(f):
                    if isinstance(c, ast.Call) and is_self_attr(c.func) and c.func.attr in acq and c.args and isinstance(c.args[0], ast.Name) and c.args[0].id == p:
                        nodes.append(cfg.node_of(c))
                if nodes and not cfg.reaches(cfg.entry, cfg.exit, avoid=nodes):
                    acq[name] = p
                    changed = True
    return acq, methods


def r33(ctx, acq_funcs):
    rid = "R-3.3"
    tree = ctx.tree
    acq, methods = _acquiring_functions(tree, acq_funcs)
    if "lock" not in acq:
        raise AnalysisError(f"R-3.3: no acquiring primitive found (acquire stores in {sorted(acq_funcs)})")
    ctx.ok(rid, methods["lock"], f"acquiring functions (all normal paths acquire their argument): {sorted(acq.items())}", nontrivial=False)
    issuers = []
    for name, f in methods.items():
        if any(isinstance(c, ast.Call) and isinstance(c.func, ast.Attribute) and c.func.attr == "append" and path_of(c.func.value) == "self.locked" for c in walk_local(f)):
            issuers.append(f)
        elif any(isinstance(n, ast.Assign) and any(isinstance(t, ast.Subscript) and path_of(t.value) == "picked" for t in n.targets) for n in walk_local(f)) and f not in issuers:
            # a helper that only assembles the dictionary for functions which record the job themselves is not an issuer
            callers = [g for g in methods.values() if any(isinstance(c, ast.Call) and is_self_attr(c.func, name) for c in walk_local(g))]
            records = lambda g: any(isinstance(c, ast.Call) and isinstance(c.func, ast.Attribute) and c.func.attr == "append" and path_of(c.func.value) == "self.locked" for c in walk_local(g))
            if callers and all(records(g) for g in callers):
                continue
            issuers.append(f)
    if len(issuers) < 2:
        raise AnalysisError(f"R-3.3: expected >= 2 job issuers, found {[f.name for f in issuers]}")

    def acq_calls(f):
        return [c for c in walk_local(f) if isinstance(c, ast.Call) and is_self_attr(c.func) and c.func.attr in acq]

    def swap_before(f, call):
        """the acquire must follow a swap into the same slot (in f or inside the wrapper)."""
        cfg = cfg_of(f)
        slot = ast.unparse(call.args[0]) if call.args else None
        if call.func.attr != "lock":
            g = methods[call.func.attr]
            inner = [c for c in acq_calls(g)]
            return all(swap_before(g, c) for c in inner) and bool(inner)
        for s in walk_local(f):
            if isinstance(s, ast.Call) and is_self_attr(s.func, "swap") and len(s.args) == 2 and ast.unparse(s.args[1]) == slot:
                if cfg.dominates(cfg.node_of(s), cfg.node_of(call)):
                    return True
        return False

    for f in issuers:
        cfg = cfg_of(f)
        calls = acq_calls(f)
        anodes = [cfg.node_of(c) for c in calls]
        # every non-delegating return is preceded by an acquire on every path
        for r in [n for n in walk_local(f) if isinstance(n, ast.Return)]:
            v = r.value
            if isinstance(v, ast.Call) and is_self_attr(v.func) and methods.get(v.func.attr) in issuers:
                ctx.ok(rid, r, f"{f.name}: delegates to issuer {v.func.attr}")
                continue
            if cfg.reaches(cfg.entry, cfg.node_of(r), avoid=anodes):
                # allowed only if the return happens inside a loop-built job whose loop acquires per iteration
                loops = [l for l in walk_local(f) if isinstance(l, ast.For) and any(c for c in calls if l in loops_of(c))]
                ok_loop = False
                for l in loops:
                    head = cfg.node_of(l)
                    body_entry = [s for s, lab in cfg.succ[head.id] if lab == "T"]
                    inloop = [cfg.node_of(c) for c in calls if l in loops_of(c)]
                    if body_entry and head.id not in cfg.reachable(cfg.nodes[body_entry[0]], avoid=inloop):
                        # every iteration acquires; the job's ensembles are exactly the iterated ones
                        appended = [c for c in walk_local(l) if isinstance(c, ast.Call) and isinstance(c.func, ast.Attribute) and c.func.attr == "append"]
                        ok_loop = bool(appended)
                if ok_loop:
                    ctx.ok(rid, r, f"{f.name}: job built in a loop in which every iteration acquires the ensemble it adds")
                else:
                    ctx.bad(rid, r, f"{f.name} can hand out a job without having acquired its ensemble on some path: the ensemble stays flagged idle and can be drawn again")
            else:
                ctx.ok(rid, r, f"{f.name}: every path to the return acquires")
        # two-ensemble entries: both slots acquired
        for n in walk_local(f):
            if isinstance(n, ast.Assign) and isinstance(n.value, ast.Tuple) and len(n.value.elts) == 2 and any(path_of(t) == "ens_nums" for t in n.targets):
                nn = cfg.node_of(n)
                doms = [c for c in calls if cfg.dominates(cfg.node_of(c), nn)]
                slots = {ast.unparse(c.args[0]) for c in doms if c.args}
                if len(slots) < 2:
                    # the partner may be acquired after the pair is named but before the job is recorded:
                    # every path from here to the record of the job must then pass another acquire
                    recs = [c for c in walk_local(f) if isinstance(c, ast.Call) and isinstance(c.func, ast.Attribute) and c.func.attr == "append" and path_of(c.func.value) == "self.locked"]
                    later = [c for c in calls if c not in doms and c.args and ast.unparse(c.args[0]) not in slots]
                    lnodes = [cfg.node_of(c) for c in later]
                    if recs and later and not any(cfg.reaches(nn, cfg.node_of(rc), avoid=lnodes) for rc in recs):
                        slots |= {ast.unparse(c.args[0]) for c in later}
                if len(slots) >= 2:
                    ctx.ok(rid, n, f"{f.name}: two-ensemble job: both slots acquired before it is formed ({sorted(slots)})")
                else:
                    ctx.bad(rid, n, f"{f.name}: a two-ensemble job is formed with only {sorted(slots)} acquired: the partner ensemble of the zero swap is not held")
        for c in calls:
            if swap_before(f, c):
                ctx.ok(rid, c, f"{f.name}: acquire of slot {ast.unparse(c.args[0])} follows the swap that moves the chosen path into it")
            else:
                ctx.bad(rid, c, f"{f.name}: slot {ast.unparse(c.args[0]) if c.args else '?'} is acquired without the chosen path having been swapped into it first (a different path than the recorded one is held)")
    return acq, methods


# ------------------------------------------------------------------ R-3.4
def _lin(e):
    """(symbol text, integer offset) for sym, sym + c, sym - c; None otherwise."""
    if isinstance(e, ast.BinOp) and isinstance(e.op, (ast.Add, ast.Sub)) and isinstance(e.right, ast.Constant) and isinstance(e.right.value, int):
        base = _lin(e.left)
        if base is None:
            return None
        return (base[0], base[1] + (e.right.value if isinstance(e.op, ast.Add) else -e.right.value))
    if isinstance(e, ast.Constant) and isinstance(e.value, int):
        return ("", e.value)
    if isinstance(e, (ast.Name, ast.Attribute)):
        return (ast.unparse(e), 0)
    return None


def _atoms(e, truth=True):
    """Flatten conjunctions into [(atom expr, truth)]; None if not a conjunction of atoms."""
    if isinstance(e, ast.BoolOp) and isinstance(e.op, ast.And) and truth:
        out = []
        for v in e.values:
            a = _atoms(v, True)
            if a is None:
                return None
            out += a
        return out
    if isinstance(e, ast.UnaryOp) and isinstance(e.op, ast.Not):
        inner = e.operand
        if isinstance(inner, ast.BoolOp):
            return None
        return [(inner, not truth)]
    if isinstance(e, ast.BoolOp):
        return None
    return [(e, truth)]


def _contradicts(atom, truth, known):
    """Does (atom == truth) contradict a known fact?"""
    for k, kt in known:
        if ast.unparse(k) == ast.unparse(atom) and kt != truth:
            return True
        # x == a  vs  x == b with a != b
        if truth and kt and isinstance(atom, ast.Compare) and isinstance(k, ast.Compare):
            if isinstance(atom.ops[0], ast.Eq) and isinstance(k.ops[0], ast.Eq):
                # the two equalities share one operand (on either side): the other operands must then be equal
                s1 = [atom.left, atom.comparators[0]]
                s2 = [k.left, k.comparators[0]]
                for i1 in (0, 1):
                    for i2 in (0, 1):
                        if ast.unparse(s1[i1]) == ast.unparse(s2[i2]):
                            a, b = _lin(s1[1 - i1]), _lin(s2[1 - i2])
                            if a and b and a[0] == b[0] and a[1] != b[1]:
                                return True
    return False


def r34(ctx, acq, methods):
    rid = "R-3.4"
    f = methods["pick"]
    fl = flow_of(f)
    cfg = fl.cfg
    partner_calls = []
    for c in walk_local(f):
        if isinstance(c, ast.Call) and is_self_attr(c.func) and c.func.attr in acq and c.args:
            # the primary acquire is the one whose slot comes from the random choice (divmod)
            partner_calls.append(c)
    n_checked = 0
    for c in partner_calls:
        at = cfg.node_of(c)
        guards = cfg.guards(at)
        if not guards:
            continue  # unconditional primary acquire
        # value of the slot expression
        slot = c.args[0]
        vals = set()
        for kind, node, sat, extra in fl.sources(slot, at):
            if kind == "expr":
                vals.add(ast.unparse(node))
            elif kind in ("free", "param"):
                vals.add(extra)
        known = []
        disj = []
        for e, t, bn in guards:
            if isinstance(e, ast.BoolOp) and isinstance(e.op, ast.Or) and t:
                ds = [_atoms(v, True) for v in e.values]
                if all(d is not None for d in ds):
                    disj.append(ds)
                    continue
            known.append((e, t))
        derived = list(known)
        for ds in disj:
            alive = [d for d in ds if not any(_contradicts(a, tr, known) for a, tr in d)]
            if len(alive) == 1:
                derived += alive[0]
        idle = False
        for a, tr in derived:
            if isinstance(a, ast.Subscript) and isinstance(a.value, ast.Attribute) and a.value.attr == LOCKS and tr is False:
                if ast.unparse(a.slice) in vals:
                    idle = True
            if isinstance(a, ast.Compare) and isinstance(a.left, ast.Subscript) and isinstance(a.left.value, ast.Attribute) and a.left.value.attr == LOCKS:
                if ast.unparse(a.left.slice) in vals and isinstance(a.ops[0], ast.Eq) and isinstance(a.comparators[0], ast.Constant) and a.comparators[0].value == 0 and tr:
                    idle = True
        n_checked += 1
        if idle:
            ctx.ok(rid, c, f"partner slot {sorted(vals)} is acquired only under a test that its busy flag is clear")
        else:
            ctx.bad(rid, c, f"the partner ensemble of a zero swap (slot {sorted(vals)}) is acquired without a dominating test that it is idle: "
                    "a zero swap could start while [0-] or [0+] is busy",
                    detail={"facts": [("" if t else "not ") + short(a, 50) for a, t in derived]})
    if n_checked < 2:
        raise AnalysisError(f"R-3.4: expected two conditional partner acquires in pick, found {n_checked}")


def r35(ctx, rel_funcs, methods):
    rid = "R-3.5"
    tree = ctx.tree
    if "unlock" not in rel_funcs:
        raise AnalysisError("R-3.5: release primitive not found")
    # who calls the release primitive / add_traj
    for m, f, call in all_calls(tree, skip_tools=False):
        ln = last_name(call)
        if ln in rel_funcs and isinstance(call.func, ast.Attribute):
            if m.rel == REPEX and f.name == "add_traj":
                ctx.ok(rid, call, "release primitive called from add_traj (consumption of a result / initial load)")
            else:
                ctx.bad(rid, call, f"the release primitive is called from {getattr(f, '_fq', f.name)}: a slot is released without a result having been consumed")
        if ln == "add_traj" and isinstance(call.func, ast.Attribute):
            if m.rel == REPEX and f.name == "load_paths":
                ctx.ok(rid, call, "add_traj from the initial load")
            elif m.rel == REPEX and f.name == "treat_output":
                loops = loops_of(call)
                ok = False
                for l in loops:
                    if isinstance(l, ast.For) and "picked" in ast.unparse(l.iter):
                        # the key variable of the loop over the job's picked entries:
                        # `for ens in picked` / `picked.keys()`  or  `for ens, entry in picked.items()`
                        keyvar = None
                        if isinstance(l.target, ast.Name):
                            keyvar = l.target.id
                        elif isinstance(l.target, ast.Tuple) and l.target.elts and isinstance(l.target.elts[0], ast.Name) and ".items()" in ast.unparse(l.iter):
                            keyvar = l.target.elts[0].id
                        a0 = call.args[0] if call.args else None
                        for k in call.keywords:
                            if k.arg == "ens":
                                a0 = k.value
                        if isinstance(a0, ast.Name) and a0.id == keyvar:
                            ok = True
                if ok:
                    ctx.ok(rid, call, "treat_output releases exactly the finished job's own ensembles (loop over picked)")
                else:
                    ctx.bad(rid, call, "treat_output releases a slot other than the finished job's own ensemble")
            else:
                ctx.bad(rid, call, f"add_traj (which releases a slot) is called from {getattr(f, '_fq', f.name)}")
    # the finished job leaves the in-flight list before the commit
    f = methods["treat_output"]
    fl = flow_of(f)
    cfg = fl.cfg
    removes = [c for c in walk_local(f) if isinstance(c, ast.Call) and isinstance(c.func, ast.Attribute) and c.func.attr in ("pop", "remove") and path_of(c.func.value) == "self.locked"]
    commits = [c for c in walk_local(f) if isinstance(c, ast.Call) and is_self_attr(c.func, "write_toml")]
    # the record rebuilt without the finished job:  self.locked = [lock for lock in self.locked if <keep>]
    rebuilds = [st for st in walk_local(f) if isinstance(st, ast.Assign) and any(path_of(t) == "self.locked" for t in st.targets) and isinstance(st.value, ast.ListComp)
                and len(st.value.generators) == 1 and path_of(st.value.generators[0].iter) == "self.locked" and isinstance(st.value.generators[0].target, ast.Name)]
    for st in rebuilds:
        g0 = st.value.generators[0]
        var = g0.target.id
        verdict = None
        if ast.unparse(st.value.elt) != var or len(g0.ifs) != 1:
            verdict = "the rebuilt in-flight record is not a selection of the old records"
        else:
            cond = g0.ifs[0]
            neg = False
            while isinstance(cond, ast.UnaryOp) and isinstance(cond.op, ast.Not):
                cond, neg = cond.operand, not neg

            def numbers_of(e):
                return isinstance(e, ast.Subscript) and isinstance(e.value, ast.Name) and e.value.id == var and isinstance(e.slice, ast.Constant) and e.slice.value == 1

            if isinstance(cond, ast.Compare) and len(cond.ops) == 1 and "pn_old" in ast.unparse(cond.left) and numbers_of(cond.comparators[0]) and (isinstance(cond.ops[0], ast.NotIn) and not neg or isinstance(cond.ops[0], ast.In) and neg):
                verdict = ""
            elif isinstance(cond, ast.Call) and last_name(cond) == "any" and neg and cond.args and isinstance(cond.args[0], (ast.GeneratorExp, ast.ListComp)):
                ge = cond.args[0]
                inner = ge.generators[0]
                el = ge.elt
                if numbers_of(inner.iter) and isinstance(inner.target, ast.Name) and isinstance(el, ast.Compare) and len(el.ops) == 1 and "pn_old" in ast.unparse(el.left):
                    if isinstance(el.ops[0], ast.In) and isinstance(el.comparators[0], ast.Name) and el.comparators[0].id == inner.target.id:
                        verdict = f"the finished job is looked up by `{short(el, 40)}` for every number `{inner.target.id}` of a record - a substring test on the string form of the path numbers: a job that finishes with old path 7 also deletes the records of running jobs that hold path 17 or 71; their ensembles stay busy but the in-flight record (and restart.toml) no longer lists them, so a restart neither re-issues nor re-locks them"
                    elif isinstance(el.ops[0], ast.Eq) and inner.target.id in ast.unparse(el.comparators[0]):
                        verdict = ""
            if verdict is None:
                verdict = "the records kept are not selected by the finished job's old path number"
        if verdict == "" and all(cfg.reaches(cfg.node_of(st), cfg.node_of(c)) for c in commits) and not any(cfg.reaches(cfg.node_of(c), cfg.node_of(st)) for c in commits):
            ctx.ok(rid, st, "the in-flight record is rebuilt without the finished job (selected by its old path number, exact membership) before write_toml")
        elif verdict == "":
            ctx.bad(rid, st, "the in-flight record is rebuilt without the finished job only after the commit")
        else:
            ctx.bad(rid, st, f"treat_output: {verdict}", construct=f"treat_output: {short(st.value.generators[0].ifs[0] if st.value.generators[0].ifs else st, 70)}")
    if not removes and not rebuilds:
        ctx.bad(rid, f, "treat_output never removes the finished job from self.locked: a finished job would be re-issued after a restart")
    for r in removes:
        g = [ast.unparse(e) for e, t, _ in cfg.guards(cfg.node_of(r)) if t]
        if any("pn_old" in x for x in g) and all(cfg.reaches(cfg.node_of(r), cfg.node_of(c)) for c in commits) and not any(cfg.reaches(cfg.node_of(c), cfg.node_of(r)) for c in commits):
            ctx.ok(rid, r, "finished job removed from self.locked (selected by its old path number) before write_toml")
        else:
            ctx.bad(rid, r, "removal from self.locked is not selected by the finished job's path number or does not precede the commit")


def r36(ctx):
    rid = "R-3.6"
    tree = ctx.tree
    f = tree.func(FACTORY, "assign_engines")
    fl = flow_of(f)
    cfg = fl.cfg
    params = [a.arg for a in f.args.args]
    if len(params) < 3:
        raise AnalysisError("R-3.6: assign_engines(engine_occ, eng_names, pin) expected")
    occ, pin = params[0], params[2]
    rets = [r.value.id for r in walk_local(f) if isinstance(r, ast.Return) and isinstance(r.value, ast.Name)]
    outname = rets[0] if rets else None
    # names bound to one occupation list of the table: `for lst in engine_occ.values()` / `lst = engine_occ[k]`
    occ_lists = set()
    for n in walk_local(f):
        if isinstance(n, ast.For) and isinstance(n.iter, ast.Call) and isinstance(n.iter.func, ast.Attribute) and n.iter.func.attr == "values" and path_of(n.iter.func.value) == occ and isinstance(n.target, ast.Name):
            occ_lists.add(n.target.id)
        if isinstance(n, ast.For) and isinstance(n.iter, ast.Call) and isinstance(n.iter.func, ast.Attribute) and n.iter.func.attr == "items" and path_of(n.iter.func.value) == occ and isinstance(n.target, ast.Tuple) and len(n.target.elts) == 2 and isinstance(n.target.elts[1], ast.Name):
            occ_lists.add(n.target.elts[1].id)
        if isinstance(n, ast.Assign) and isinstance(n.targets[0], ast.Name) and isinstance(n.value, ast.Subscript) and path_of(n.value.value) == occ:
            occ_lists.add(n.targets[0].id)

    def is_slot(t):
        """engine_occ[key][i]  or  <occupation list>[i]"""
        if not isinstance(t, ast.Subscript):
            return False
        if isinstance(t.value, ast.Subscript) and path_of(t.value.value) == occ:
            return True
        return isinstance(t.value, ast.Name) and t.value.id in occ_lists

    stores = [n for n in walk_local(f) if isinstance(n, ast.Assign) and any(is_slot(t) for t in n.targets)]
    claims = [s for s in stores if not (isinstance(s.value, ast.UnaryOp) or (isinstance(s.value, ast.Constant) and s.value.value == -1))]
    frees = [s for s in stores if s not in claims]
    if not claims or not frees:
        raise AnalysisError("R-3.6: claim / free stores not found in assign_engines")
    for s in claims:
        n = cfg.node_of(s)
        t = s.targets[0]
        if not isinstance(t.value, ast.Subscript):
            # claimed through an alias of the list: the loop below must enumerate that same alias;
            # the key is the one the alias was taken with (`lst = engine_occ[key]`)
            key, idx = None, ast.unparse(t.slice)
            if isinstance(t.value, ast.Name):
                for d_, _s in fl.rd(t.value.id, n):
                    if d_.kind == "assign" and isinstance(d_.value, ast.Subscript) and path_of(d_.value.value) == occ:
                        key = ast.unparse(d_.value.slice)
        else:
            key, idx = ast.unparse(t.value.slice), ast.unparse(t.slice)
        # loop providing (idx, occupied_by) over engine_occ[key]
        ok = False
        for l in loops_of(s):
            if isinstance(l, ast.For) and isinstance(l.iter, ast.Call) and dotted(l.iter.func) == "enumerate" and l.iter.args and ast.unparse(l.iter.args[0]) in ((f"{occ}[{key}]", ast.unparse(t.value)) if key is not None else (ast.unparse(t.value),)):
                if isinstance(l.target, ast.Tuple) and len(l.target.elts) == 2 and ast.unparse(l.target.elts[0]) == idx:
                    occvar = ast.unparse(l.target.elts[1])
                    for e, truth, bn in cfg.guards(n):
                        if truth and isinstance(e, ast.Compare) and isinstance(e.ops[0], ast.Eq):
                            sides = {ast.unparse(e.left), ast.unparse(e.comparators[0])}
                            if sides == {occvar, "-1"}:
                                ok = True
        if path_of(s.value) != pin:
            ctx.bad(rid, s, "an engine instance is claimed for something other than the worker's pin")
        elif ok:
            ctx.ok(rid, s, f"engine claimed only under `occupied_by == -1` for the same ({key}, {idx})")
        else:
            ctx.bad(rid, s, "an engine instance is claimed without a dominating test that it is free (occupied_by == -1 on the same slot): two in-flight jobs could share one engine (exe_dir, random stream)")
        # returned index is the claimed one
        outs = [o for o in walk_local(f) if isinstance(o, ast.Assign) and any(isinstance(tt, ast.Subscript) and path_of(tt.value) == outname for tt in o.targets)]
        good = [o for o in outs if ast.unparse(o.value) == idx and ast.unparse(o.targets[0].slice) == key and cfg.dominates(n, cfg.node_of(o))]
        if good and len(outs) == len(good):
            ctx.ok(rid, good[0], "the index returned for the engine type is the index just claimed")
        else:
            ctx.bad(rid, s, "the engine index returned to the job is not the index that was claimed")
        # frees precede claims
        for fr in frees:
            if cfg.reaches(n, cfg.node_of(fr)):
                ctx.bad(rid, fr, "engines are freed after the claim loop: a worker could free the engine it has just claimed")
    for fr in frees:
        # the loop variable that holds the occupant of the slot being freed
        occvars = set()
        for l in loops_of(fr):
            if isinstance(l, ast.For) and isinstance(l.iter, ast.Call) and dotted(l.iter.func) == "enumerate" and isinstance(l.target, ast.Tuple) and len(l.target.elts) == 2:
                occvars.add(ast.unparse(l.target.elts[1]))
        g = [{ast.unparse(e.left), ast.unparse(e.comparators[0])} for e, t, _ in cfg.guards(cfg.node_of(fr)) if t and isinstance(e, ast.Compare) and len(e.ops) == 1 and isinstance(e.ops[0], ast.Eq)]
        if any(x == {pin, ov} for x in g for ov in occvars):
            ctx.ok(rid, fr, "a worker frees only the engines it held itself (pin == occupied_by)")
        else:
            ctx.bad(rid, fr, "an engine is freed that is not held by the requesting worker")
        # ... and it frees *all* of them: the release ranges over the whole occupation table, not over the requested types
        outer = [l for l in loops_of(fr) if isinstance(l, ast.For)]
        whole = False
        partial = None
        for l in outer:
            it = l.iter
            base = it.func.value if isinstance(it, ast.Call) and isinstance(it.func, ast.Attribute) and it.func.attr in ("keys", "values", "items") else it
            if path_of(base) == occ:
                whole = True
            if isinstance(it, ast.Name) and it.id == params[1]:
                partial = l
        if whole:
            ctx.ok(rid, fr, "the release ranges over every engine type of the occupation table")
        elif partial is not None:
            ctx.bad(rid, fr, f"a worker releases only the slots of the engine types its next job requests (`for {ast.unparse(partial.target)} in {params[1]}`): a slot of another type it still holds from its previous job stays booked - the next worker picked for that type finds no free engine (the job cannot be issued), or, with the claim taken from a loop variable after the search, the slot of a running job is handed out a second time", construct="assign_engines: release restricted to the requested engine types")
    # a job claims its engines in ONE call: every call first frees everything the pin holds
    ncalls = 0
    for m2, f2, call in all_calls(tree):
        if last_name(call) != "assign_engines":
            continue
        ncalls += 1
        cfg2 = cfg_of(f2)
        cn = cfg2.node_of(call)
        others = [cfg2.node_of(c) for c in walk_local(f2) if isinstance(c, ast.Call) and last_name(c) == "assign_engines" and c is not call]
        if loops_of(call) or cfg2.in_loop(cn):
            ctx.bad(rid, call, "assign_engines is called inside a loop: each call first frees every engine the worker's pin holds, so the second call of a "
                    "two-ensemble job un-books the engine just given to its first ensemble while that job is still running")
        elif any(cfg2.reaches(cn, o) for o in others):
            ctx.bad(rid, call, "assign_engines is called twice on one path for the same job: the second call frees the engines claimed by the first")
        else:
            # all engine names of the job are requested together
            a = call.args[1] if len(call.args) > 1 else None
            ctx.ok(rid, call, f"one assign_engines call per job ({getattr(f2, '_fq', f2.name)}), requesting all engine names of the job together")
    if ncalls == 0:
        ctx.bad(rid, f, "assign_engines is never called: jobs do not claim engine instances")
    # who else writes engine_occ entries
    for m, q, g in tree.all_funcs():
        if g is f:
            continue
        for n in walk_local(g):
            if isinstance(n, (ast.Assign, ast.AugAssign)):
                tgts = n.targets if isinstance(n, ast.Assign) else [n.target]
                for t in tgts:
                    if isinstance(t, ast.Subscript) and "engine_occ" in ast.unparse(t.value) and isinstance(t.value, ast.Subscript):
                        ctx.bad(rid, n, f"engine occupancy entries are written outside assign_engines ({q})")


def r37(ctx, methods):
    rid = "R-3.7"
    tree = ctx.tree
    f = methods["prep_md_items"]
    fl = flow_of(f)
    cfg = fl.cfg
    wf = [d for d in fl.defs if d.path == "md_items['w_folder']"]
    if not wf:
        raise AnalysisError("R-3.7: store to md_items['w_folder'] not found")
    for d in wf:
        deps = fl.deps(d.value, d.at)
        txt = ast.unparse(d.value)
        srcs = fl.sources(d.value, d.at)
        dep_txt = " ".join(ast.unparse(n) for k, n, _, _ in srcs if k == "expr")
        if "md_items['pin']" in dep_txt.replace('"', "'") or ("param", "md_items['pin']") in deps or any(k in ("free", "param") and key.endswith("['pin']") for k, key in deps):
            ctx.ok(rid, d.stmt, "worker folder derives from the worker's pin")
        else:
            ctx.bad(rid, d.stmt, "the worker directory does not derive from the worker's pin: two in-flight jobs could run in one directory")
    # pin comes from self.cworker
    pins = [c for c in walk_local(f) if isinstance(c, ast.Call) and isinstance(c.func, ast.Attribute) and c.func.attr == "update" and path_of(c.func.value) == "md_items"]
    pin_ok = False
    for c in pins:
        if c.args and isinstance(c.args[0], ast.Dict):
            for k, v in zip(c.args[0].keys, c.args[0].values):
                if isinstance(k, ast.Constant) and k.value == "pin":
                    if path_of(v) == "self.cworker":
                        pin_ok = True
                        ctx.ok(rid, c, "pin := self.cworker (the index of the worker being initiated)")
                    else:
                        ctx.bad(rid, c, "the worker pin is not the index of the worker being initiated")
    for d in fl.defs:
        if d.path == "md_items['pin']":
            if path_of(d.value) == "self.cworker":
                pin_ok = True
                ctx.ok(rid, d.stmt, "pin := self.cworker")
            else:
                ctx.bad(rid, d.stmt, "the worker pin is not the index of the worker being initiated")
    if not pin_ok:
        ctx.bad(rid, f, "no assignment of the worker pin found in prep_md_items")
    # exe_dir of each picked ensemble is the worker folder
    n_exe = 0
    for m, q, g in tree.all_funcs():
        for n in walk_local(g):
            if isinstance(n, ast.Assign):
                for t in n.targets:
                    if last_key(t) == "exe_dir":
                        n_exe += 1
                        if g is f and "md_items['w_folder']" in ast.unparse(n.value).replace('"', "'"):
                            ctx.ok(rid, n, "job's exe_dir := the worker's private folder")
                        else:
                            ctx.bad(rid, n, f"'exe_dir' of a job is set to something other than the worker's private folder ({q})")
                    if last_key(t) == "w_folder" and g is not f:
                        ctx.bad(rid, n, f"'w_folder' is written outside prep_md_items ({q})")
    if n_exe == 0:
        ctx.bad(rid, f, "no job ever receives an exe_dir")


# ------------------------------------------------------------------ R-3.8
class _Kinds:
    """Tiny representation inference for path numbers: 'int' (Path.path_number)
    versus 'str' (their text form used in restart.toml), through lists, tuples,
    comprehensions, self-method returns and containers filled by append."""

    def __init__(self, tree, methods):
        self.tree = tree
        self.methods = methods
        self._ret = {}
        self._attr = {}
        self._busy = set()
        self._keys = {}
        self.conflicts = []

    @staticmethod
    def merge(a, b):
        if a == b or b == "?":
            return a
        if a == "?":
            return b
        if isinstance(a, tuple) and isinstance(b, tuple) and a[0] == b[0]:
            if a[0] == "list":
                return ("list", _Kinds.merge(a[1], b[1]))
            if a[0] == "tuple" and len(a[1]) == len(b[1]):
                return ("tuple", tuple(_Kinds.merge(x, y) for x, y in zip(a[1], b[1])))
        return "?"

    @staticmethod
    def elem(k):
        if isinstance(k, tuple) and k[0] == "list":
            return k[1]
        return "?"

    def ret(self, name):
        if name in self._ret:
            return self._ret[name]
        if name in self._busy or name not in self.methods:
            return "?"
        self._busy.add(name)
        f = self.methods[name]
        k = None
        for r in [n for n in walk_local(f) if isinstance(n, ast.Return) and n.value is not None]:
            kk = self.kind(f, r.value, {})
            k = kk if k is None else self.merge(k, kk)
        self._busy.discard(name)
        self._ret[name] = k or "?"
        return self._ret[name]

    def attr(self, name):
        """Element kind of self.<name> from its append sites."""
        if name in self._attr:
            return self._attr[name]
        self._attr[name] = "?"
        k = None
        sites = []
        for mname, f in self.methods.items():
            for c in walk_local(f):
                if isinstance(c, ast.Call) and isinstance(c.func, ast.Attribute) and c.func.attr == "append" and path_of(c.func.value) == f"self.{name}" and c.args:
                    kk = self.kind(f, c.args[0], {})
                    sites.append((f, c, kk))
                    k = kk if k is None else self.merge_strict(k, kk, (name, f, c))
        self._attr[name] = ("list", k) if k is not None else "?"
        return self._attr[name]

    def merge_strict(self, a, b, where):
        """merge, but record int/str disagreements between filling sites"""
        def clash(x, y):
            if {x, y} == {"int", "str"}:
                return True
            if isinstance(x, tuple) and isinstance(y, tuple) and x[0] == y[0]:
                if x[0] == "list":
                    return clash(x[1], y[1])
                if x[0] == "tuple" and len(x[1]) == len(y[1]):
                    return any(clash(p, q) for p, q in zip(x[1], y[1]))
            return False
        if clash(a, b):
            self.conflicts.append(where)
            return a  # keep the representation of the first site
        return self.merge(a, b)

    def key(self, name):
        """Kind of values stored under a constant dict key anywhere in the class."""
        if name in self._keys:
            return self._keys[name]
        self._keys[name] = "?"
        k = None
        for mname, f in self.methods.items():
            for n in walk_local(f):
                if isinstance(n, ast.Dict):
                    for kk, vv in zip(n.keys, n.values):
                        if isinstance(kk, ast.Constant) and kk.value == name:
                            x = self.kind(f, vv, {})
                            k = x if k is None else self.merge(k, x)
                if isinstance(n, ast.Assign):
                    for t in n.targets:
                        if last_key(t) == name:
                            x = self.kind(f, n.value, {})
                            k = x if k is None else self.merge(k, x)
        self._keys[name] = k or "?"
        return self._keys[name]

    def bind(self, f, target, k, env):
        if isinstance(target, ast.Name):
            env[target.id] = k
        elif isinstance(target, (ast.Tuple, ast.List)):
            for i, t in enumerate(target.elts):
                sub = "?"
                if isinstance(k, tuple) and k[0] == "tuple" and i < len(k[1]):
                    sub = k[1][i]
                self.bind(f, t, sub, env)

    def kind(self, f, e, env, depth=0):
        if depth > 12:
            return "?"
        K = lambda x, en=env: self.kind(f, x, en, depth + 1)
        if isinstance(e, ast.Attribute):
            if e.attr == "path_number":
                return "int"
            if is_self_attr(e):
                return self.attr(e.attr)
            return "?"
        if isinstance(e, ast.Constant):
            return "str" if isinstance(e.value, str) else ("int" if isinstance(e.value, int) and not isinstance(e.value, bool) else "?")
        if isinstance(e, ast.Name):
            if e.id in env:
                return env[e.id]
            fl = flow_of(f)
            if not fl.cfg.nodes_of(e):
                return "?"
            k = None
            for kind, node, at, extra in fl.sources(e, fl.cfg.node_of(e)):
                if kind == "expr":
                    kk = K(node, {})
                elif kind == "iter":
                    kk = self.elem(K(node.value, {}))
                    for i in node.index:
                        kk = kk[1][i] if isinstance(kk, tuple) and kk[0] == "tuple" and i < len(kk[1]) else "?"
                elif kind == "unpack":
                    kk = K(node.value, {})
                    for i in node.index:
                        kk = kk[1][i] if isinstance(kk, tuple) and kk[0] == "tuple" and i < len(kk[1]) else "?"
                else:
                    kk = "?"
                k = kk if k is None else self.merge(k, kk)
            return k or "?"
        if isinstance(e, ast.Tuple):
            return ("tuple", tuple(K(x) for x in e.elts))
        if isinstance(e, ast.List):
            k = None
            for x in e.elts:
                k = K(x) if k is None else self.merge(k, K(x))
            return ("list", k or "?")
        if isinstance(e, (ast.ListComp, ast.GeneratorExp, ast.SetComp)):
            env2 = dict(env)
            for g in e.generators:
                self.bind(f, g.target, self.elem(self.kind(f, g.iter, env2, depth + 1)), env2)
            return ("list", self.kind(f, e.elt, env2, depth + 1))
        if isinstance(e, ast.Subscript):
            if isinstance(e.slice, ast.Constant) and isinstance(e.slice.value, str):
                return self.key(e.slice.value)
            base = K(e.value)
            if isinstance(e.slice, ast.Slice):
                return base
            if isinstance(base, tuple) and base[0] == "tuple":
                try:
                    i = ast.literal_eval(e.slice)
                    return base[1][i]
                except Exception:
                    return "?"
            return self.elem(base)
        if isinstance(e, ast.Call):
            fn = dotted(e.func)
            if fn == "str":
                return "str"
            if fn == "int":
                return "int"
            if fn in ("list", "tuple", "sorted", "set", "reversed") and e.args:
                k = K(e.args[0])
                return k if isinstance(k, tuple) and k[0] == "list" else "?"
            if fn == "zip":
                return ("list", ("tuple", tuple(self.elem(K(a)) for a in e.args)))
            if fn == "enumerate" and e.args:
                return ("list", ("tuple", ("idx", self.elem(K(e.args[0])))))
            if is_self_attr(e.func) and e.func.attr in self.methods:
                return self.ret(e.func.attr)
            return "?"
        return "?"


def r38(ctx, methods):
    rid = "R-3.8"
    kinds = _Kinds(ctx.tree, methods)
    n = 0
    for name, f in methods.items():
        for c in walk_local(f):
            if isinstance(c, ast.Compare) and len(c.ops) == 1 and isinstance(c.ops[0], (ast.In, ast.NotIn)):
                # comprehension-bound names need their environment
                env = {}
                par = getattr(c, "_parent", None)
                chain = []
                while par is not None and par is not f:
                    chain.append(par)
                    par = getattr(par, "_parent", None)
                for node in reversed(chain):
                    if isinstance(node, (ast.ListComp, ast.GeneratorExp, ast.SetComp)):
                        for g in node.generators:
                            kinds.bind(f, g.target, kinds.elem(kinds.kind(f, g.iter, env)), env)
                left = kinds.kind(f, c.left, env)
                right = kinds.kind(f, c.comparators[0], env)
                el = kinds.elem(right)
                if left in ("int", "str") and el in ("int", "str"):
                    n += 1
                    if left != el:
                        ctx.bad(rid, c,
                                f"{name}: membership test compares a path number in {left} form with a collection of path numbers in {el} form: it can never match, so a busy path is treated as idle (or vice versa)",
                                construct=short(c, 80))
                    else:
                        ctx.ok(rid, c, f"{name}: path-number membership test compares {left} with {el}")
    kinds.attr("locked")
    for name, f, c in kinds.conflicts:
        ctx.bad(rid, c, f"{f.name}: self.{name} is filled with path numbers in a different representation (int vs str) than at its other filling site(s): "
                "consumers that test membership with one form never match entries written in the other (a finished re-issued job is never removed from the in-flight record)",
                construct=short(c, 80))
    if n == 0 and not kinds.conflicts:
        raise AnalysisError("R-3.8: no path-number membership test could be typed")


def r311(ctx):
    """One engine *object* per bookable slot. The booking table `engine_occ[name]` hands out slot
    indices; exclusion of engine instances follows only if the slots of `engines[name]` are
    distinct objects: every element of the list comes from its own `create_engine(...)` call
    (an append inside the per-slot loop, or a comprehension) - never a replicated list
    `[obj] * n`, which stores one object n times."""
    rid = "R-3.11"
    tree = ctx.tree
    f = tree.func(FACTORY, "create_engines")
    fl = flow_of(f)
    rets = [r for r in walk_local(f) if isinstance(r, ast.Return) and isinstance(r.value, ast.Tuple) and r.value.elts]
    if not rets or not isinstance(rets[0].value.elts[0], ast.Name):
        raise AnalysisError("R-3.11: create_engines does not return (engines, engine_occ)")
    eng = rets[0].value.elts[0].id

    def creates(e):
        return isinstance(e, ast.Call) and last_name(e) in ("create_engine",)

    def replicated(e, at, depth=0):
        """`[x] * n` / `n * [x]` whose element is (or derives from) an engine object"""
        if isinstance(e, ast.BinOp) and isinstance(e.op, ast.Mult):
            for side in (e.left, e.right):
                if isinstance(side, (ast.List, ast.Tuple)) and side.elts:
                    return True
        if isinstance(e, ast.Name) and depth < 3:
            return any(kind == "expr" and replicated(node, sat, depth + 1) for kind, node, sat, _ in fl.sources(e, at))
        return False

    n = 0
    for st in walk_local(f):
        # engines[k].append(X)
        if isinstance(st, ast.Call) and isinstance(st.func, ast.Attribute) and st.func.attr in ("append", "extend", "insert") and isinstance(st.func.value, ast.Subscript) and path_of(st.func.value.value) == eng and st.args:
            n += 1
            a = st.args[-1]
            at = fl.cfg.node_of(st)
            srcs = fl.sources(a, at)
            direct = srcs and all(kind == "expr" and creates(node) for kind, node, sat, _ in srcs)
            in_loop = bool(loops_of(st))
            # the creating call must lie in the same (innermost) loop as the append: one object per iteration
            same_iter = direct and all(loops_of(node)[:1] == loops_of(st)[:1] for kind, node, sat, _ in srcs)
            if st.func.attr == "append" and direct and in_loop and same_iter:
                ctx.ok(rid, st, "each slot of the engine list receives the result of its own create_engine() call (one per loop iteration)")
            else:
                ctx.bad(rid, st, "the engine list does not receive one newly created engine per slot: booked slot indices differ but the slots hold the same engine object, so two in-flight jobs share an engine instance (worker directory, random stream)", construct=short(st, 80))
        if isinstance(st, ast.Assign) and any(isinstance(t, ast.Subscript) and path_of(t.value) == eng for t in st.targets):
            v = st.value
            at = fl.cfg.node_of(st)
            if isinstance(v, (ast.List,)) and not v.elts:
                continue  # empty list, filled by appends
            n += 1
            if isinstance(v, ast.ListComp) and creates(v.elt):
                ctx.ok(rid, st, "the engine list is a comprehension with one create_engine() call per slot")
            elif replicated(v, at):
                ctx.bad(rid, st, "the engine list is built by list replication (`[engine] * n`): every slot refers to ONE engine object; the booking table hands out different slot indices, yet two in-flight jobs use the same engine instance (its worker directory and random stream are re-pointed by the second job)", construct=short(st, 80))
            else:
                ctx.bad(rid, st, "the engine list of a type is not built from one create_engine() call per slot", construct=short(st, 80))
    if n == 0:
        raise AnalysisError("R-3.11: no store into the engine table found in create_engines")


def r314(ctx, acq, methods, rid="R-3.14", what=""):
    """Acquires belong to recorded jobs. The only release is the consumption of a job found in the
    in-flight record (`self.locked`), so an ensemble marked busy outside a function that records the
    job stays busy for ever when the job is never issued (e.g. saved jobs dropped at a restart with
    fewer workers): every call of an acquiring function sits in a function that appends to
    `self.locked`, or in an acquiring wrapper whose callers all do."""
    def records(g):
        return any(isinstance(c, ast.Call) and isinstance(c.func, ast.Attribute) and c.func.attr == "append" and path_of(c.func.value) == "self.locked" for c in walk_local(g))

    def callers(name):
        return [g for g in methods.values() if any(isinstance(c, ast.Call) and is_self_attr(c.func, name) for c in walk_local(g))]

    def justified(g, seen=()):
        if records(g):
            return True
        if g.name in acq and g.name not in seen:
            cs = callers(g.name)
            return bool(cs) and all(justified(h, seen + (g.name,)) for h in cs)
        return False

    n = 0
    for name, g in methods.items():
        for c in walk_local(g):
            if isinstance(c, ast.Call) and is_self_attr(c.func) and c.func.attr in acq:
                n += 1
                if justified(g):
                    ctx.ok(rid, c, f"{name}: the acquire belongs to a job recorded in self.locked ({'recorded here' if records(g) else 'by every caller'})")
                else:
                    ctx.bad(rid, c, f"REPEX_state.{name} marks an ensemble busy without recording a job for it in self.locked: the flag is released only when a job of the in-flight record is consumed, so when no job is issued for this ensemble (saved jobs dropped at a restart with fewer workers, an aborted pick) it stays busy for ever{what}", construct=f"{name}: acquire without a recorded job")
    if n < 3:
        raise AnalysisError(f"{rid}: only {n} acquire calls found in REPEX_state (expected >= 3)")


def r319(ctx):
    """The busy set is asked many times: callers fetch `locks = self.locked_paths()` once and test
    `path not in locks` slot by slot. The accessors therefore return a materialised collection
    (list / tuple / set), never a one-shot iterator (generator expression, itertools.compress,
    filter, map, zip): a membership test on an iterator consumes it, so after the first idle path
    every later busy path looks idle - the re-sort moves a running job's path out of its ensemble
    and the next pick hands it to a second job."""
    rid = "R-3.19"
    cls = ctx.tree.cls(REPEX, "REPEX_state")
    methods = {s.name: s for s in cls.body if isinstance(s, FUNC)}
    ONE_SHOT = {"compress", "filter", "map", "zip", "iter", "reversed", "chain", "islice", "takewhile", "dropwhile", "filterfalse", "starmap"}
    SOLID = {"list", "tuple", "set", "frozenset", "sorted", "array", "tolist"}
    for name in ("locked_paths", "live_paths"):
        f = methods.get(name)
        if f is None:
            raise AnalysisError(f"R-3.19: REPEX_state.{name} not found")
        fl = flow_of(f)
        if any(isinstance(x, (ast.Yield, ast.YieldFrom)) for x in walk_local(f)):
            ctx.bad(rid, f, f"REPEX_state.{name} is a generator function: its result can be searched only once", construct=f"{name}: generator")
            continue
        for r in [x for x in walk_local(f) if isinstance(x, ast.Return) and x.value is not None]:
            v = r.value
            if isinstance(v, ast.Name):
                v, _ = deref(fl, v, fl.cfg.node_of(r))
            if isinstance(v, (ast.List, ast.ListComp, ast.Set, ast.SetComp, ast.Tuple, ast.Dict, ast.DictComp)) or (isinstance(v, ast.Call) and last_name(v) in SOLID):
                ctx.ok(rid, r, f"REPEX_state.{name} returns a materialised collection")
            elif isinstance(v, ast.GeneratorExp) or (isinstance(v, ast.Call) and last_name(v) in ONE_SHOT):
                ctx.bad(rid, r, f"REPEX_state.{name} returns a one-shot iterator (`{short(v, 50)}`): callers keep the result and test `x not in locks` for every slot - the first test that does not hit consumes the iterator, every later busy path is taken for idle, so sort_trajstate can move the path of a running job out of its busy ensemble and pick() then hands that path to a second job",
                        construct=f"{name}: returns a one-shot iterator")
            else:
                raise AnalysisError(f"R-3.19: cannot tell whether `{short(v, 50)}` returned by {name} can be searched repeatedly")


def run(ctx):
    ctx.rule("R-3.19", "the busy set can be asked repeatedly: locked_paths() / live_paths() return materialised collections, never one-shot iterators", floor=2)
    ctx.attempt(r319, ctx)
    from .shared import RuleProxy as _RP0
    ctx.rule("R-3.8", "busy-path membership tests compare path numbers in the same representation (int vs their str form in the in-flight record)", floor=3)
    ctx.rule("R-3.10", "membership tests against the busy paths consult the whole result of locked_paths() (no slice / filter)", floor=2)
    ctx.rule("R-3.9", "no `for` variable of the scheduler / engine-booking code is read after its loop has ended (a stale variable selects the last element of an earlier loop)", floor=30)
    ctx.rule("R-3.1", "who may write the busy flags: __init__ and acquire/release stores only", floor=3)
    ctx.rule("R-3.2", "acquire (release) store dominated by a raising check that the flag was 0 (1)", floor=2)
    ctx.rule("R-3.3", "issuers acquire every ensemble they hand out on every path, after the swap into the slot", floor=6)
    ctx.rule("R-3.4", "zero-swap partner acquired only under a test that it is idle", floor=2)
    ctx.rule("R-3.5", "release only on consumption; finished job leaves the in-flight list before the commit", floor=5)
    ctx.rule("R-3.6", "engine instance claimed only when free; claimed index is the returned one; own engines freed first; one claim call per job", floor=4)
    ctx.rule("R-3.7", "worker directory / exe_dir derive from the worker's pin", floor=3)
    acq_funcs, rel_funcs = r31_32(ctx)
    acq, methods = r33(ctx, acq_funcs)
    ctx.attempt(r34, ctx, acq, methods)
    ctx.rule("R-3.14", "acquires belong to recorded jobs: every call of an acquiring function sits in a function that appends the job to self.locked (or in an acquiring wrapper whose callers all do)", floor=3)
    ctx.attempt(r314, ctx, acq, methods)
    ctx.attempt(r35, ctx, rel_funcs, methods)
    ctx.attempt(r36, ctx)
    ctx.attempt(r37, ctx, methods)
    ctx.rule("R-3.11", "one engine object per bookable slot: each element of engines[name] comes from its own create_engine() call (no list replication)", floor=1)
    ctx.attempt(r311, ctx)
    ctx.rule("R-3.15", "a job is drawn from a P matrix whose rows belong to the paths they are indexed by: the row sort of inf_retis is undone through the index array that sorted, kernel results land in their own windows (shared with C02 R-2.4 / R-2.5) - else a path with zero weight in an ensemble can be handed out for it", floor=5)
    from . import c02 as _c02
    ctx.rule("R-3.18", "two live paths never carry one number after a restart: the path-number counter is stored back before the commit of the step and nothing the restart file serialises changes after it (shared with C05 R-5.1 and C08 R-8.8)", floor=2)
    from . import c05 as _c05c
    from .shared import RuleProxy as _RP3c, commit_is_final as _cif3
    ctx.attempt(_c05c.r51, _RP3c(ctx, "R-3.18", " (restart.toml lists the new path with the old counter: after a crash the next accepted path gets the number, the load/<n> directory and the busy key of a live path - two jobs then hold 'the same' path)"))
    ctx.attempt(_cif3, _RP3c(ctx, "R-3.18", " (identity keys of live paths derive from that state)"), "R-3.18")
    ctx.rule("R-3.17", "a re-issued job holds the ensembles it held before: the in-flight record pairs ensembles and paths position by position (shared with C08 R-8.13)", floor=2)
    from . import c08 as _c08b
    ctx.attempt(_c08b.r813, ctx, "R-3.17")
    ctx.rule("R-3.16", "a job is drawn from the P matrix of the current slot order: every function that permutes slots / changes busy flags invalidates the memoised matrix before it is read again (shared with C02 R-2.1)", floor=20)
    ctx.attempt(_c02.r21, _RP0(ctx, "R-3.16", " (swap() does not move the rows of the cached matrix: the next pick can hand a job a path with zero weight in its ensemble)"))
    ctx.attempt(_c02.r24_25, _RP0(ctx, "R-3.15", " (pairs with zero weight get a non-zero pick probability: pick() starts a job on a path that is not valid in its ensemble)"))
    ctx.rule("R-3.13", "the in-flight record that is persisted and re-issued names ensembles in one index unit (shared with C08 R-8.7): a job re-issued after a second restart holds the ensembles it held before", floor=4)
    from . import c08 as _c08
    from .shared import RuleProxy as _RP
    ctx.attempt(_c08.r87, _RP(ctx, "R-3.13", " (after the next restart the job comes back one ensemble too high: the ensemble and path it really holds look idle and can be handed out again)"))
    from .shared import stale_loop_variable, whole_busy_set
    ctx.attempt(whole_busy_set, ctx, "R-3.10", " and can be swapped out of its busy ensemble by the re-sort / credited weight while in flight")
    ctx.attempt(stale_loop_variable, ctx, "R-3.9", [REPEX, FACTORY, SCHED], None, " (the wrong ensemble / engine slot is marked or booked)")
    ctx.attempt(r38, ctx, methods)


VARIANTS = [
    B("c03-busy-paths-as-one-shot-iterator", REPEX, "        locks = [\n            t0.path_number\n            for t0, l0 in zip(self._trajs[:-1], self._locks[:-1])\n            if l0\n        ]\n        return locks\n", "        return (t0.path_number for t0, l0 in zip(self._trajs[:-1], self._locks[:-1]) if l0)\n", "R-3.19", control=True, why="seeded C03_p (generator form)"),
    K("c03-keep-busy-paths-returned-directly", REPEX, "        locks = [\n            t0.path_number\n            for t0, l0 in zip(self._trajs[:-1], self._locks[:-1])\n            if l0\n        ]\n        return locks\n", "        return [t0.path_number for t0, l0 in zip(self._trajs[:-1], self._locks[:-1]) if l0]\n"),
    B("c03-finished-job-found-by-substring", REPEX, "            for idx, lock in enumerate(self.locked):\n                if str(pn_old) in lock[1]:\n                    self.locked.pop(idx)\n", "            self.locked = [\n                lock\n                for lock in self.locked\n                if not any(str(pn_old) in pnum for pnum in lock[1])\n            ]\n", "R-3.5", control=True, why="seeded C03_o"),
    K("c03-keep-record-rebuilt-by-exact-membership", REPEX, "            for idx, lock in enumerate(self.locked):\n                if str(pn_old) in lock[1]:\n                    self.locked.pop(idx)\n", "            self.locked = [lock for lock in self.locked if str(pn_old) not in lock[1]]\n", why="same selection, exact list membership"),
    B("c03-counter-stored-back-after-the-commit", REPEX, '        self.config["current"]["traj_num"] = traj_num\n        self.cworker = md_items["pin"]', '        self.cworker = md_items["pin"]', "R-3.18", control=True, also=[(REPEX, "        self.write_toml()\n\n        return md_items", '        self.write_toml()\n        self.config["current"]["traj_num"] = traj_num\n\n        return md_items')], why="seeded C03_n"),
    B("c03-engines-released-per-requested-type-only", FACTORY, "    for eng_key in engine_occ.keys():\n        for i, occupied_by in enumerate(engine_occ[eng_key]):\n            if pin == occupied_by:", "    for eng_key in eng_names:\n        for i, occupied_by in enumerate(engine_occ[eng_key]):\n            if pin == occupied_by:", "R-3.6", why="seeded C05_m / C03_m"),
    B("c03-record-in-pick-order", REPEX, "        pat_nums = [str(i.path_number) for i in inp_trajs]\n", "        pat_nums = [str(traj.path_number)]\n        if len(inp_trajs) > 1:\n            pat_nums.append(str(other_traj.path_number))\n", "R-3.17", control=True, why="seeded C03_l (= C08_j)"),
    B("c03-resort-invalidates-only-when-list-nonempty", REPEX, "            ]\n        self._last_prob = None\n        self.prob\n\n    def lock(self, ens):", "            ]\n        if True in needstomove:\n            self._last_prob = None\n        self.prob\n\n    def lock(self, ens):", "R-3.16", control=True, why="seeded C03_k"),
    B("c03-row-sort-reapplied", REPEX, "        out[sort_idx] = out.copy()", "        out = out[sort_idx]", "R-3.15", control=True, why="seeded C03_j"),
    K("c03-keep-acquire-check-through-local", REPEX, "        assert self._locks[ens] == 0\n", "        is_free = self._locks[ens] == 0\n        assert is_free\n"),
    B("c03-acquire-check-local-weakened", REPEX, "        assert self._locks[ens] == 0\n", "        is_free = self._locks[ens] <= 1\n        assert is_free\n", "R-3.2"),
    B("c03-busy-flags-restored-at-load", REPEX, '            "frac": np.array(frac, dtype="longdouble"),\n        }\n\n    def pattern_header', '            "frac": np.array(frac, dtype="longdouble"),\n        }\n        for enss0, _ in self.locked0:\n            for ens in enss0:\n                self.lock(ens)\n\n    def pattern_header', "R-3.14", control=True, why="seeded C04_j (first half: ensembles of saved jobs are re-locked at load and never released when the job is dropped)"),
    B("c03-reissue-recorded-with-offset", REPEX, "        self.locked.append((enss, trajs0))\n", "        self.locked.append((enss0, trajs0))\n", "R-3.13", control=True, why="seeded C03_h (= C08_b)"),
    B("c03-engine-list-replicated", FACTORY, "        for i in range(n_create):\n            check_engine(config, eng_key=engine)\n            engine_occ[engine].append(-1)\n            engines[engine].append(create_engine(config, eng_key=engine))", "        check_engine(config, eng_key=engine)\n        engine_occ[engine] = [-1] * n_create\n        engines[engine] = [create_engine(config, eng_key=engine)] * n_create", "R-3.11", control=True, why="seeded C03_f"),
    B("c03-engine-created-once-appended-many", FACTORY, "        for i in range(n_create):\n            check_engine(config, eng_key=engine)\n            engine_occ[engine].append(-1)\n            engines[engine].append(create_engine(config, eng_key=engine))", "        one = create_engine(config, eng_key=engine)\n        for i in range(n_create):\n            check_engine(config, eng_key=engine)\n            engine_occ[engine].append(-1)\n            engines[engine].append(one)", "R-3.11"),
    K("c03-keep-engine-list-comprehension", FACTORY, "        for i in range(n_create):\n            check_engine(config, eng_key=engine)\n            engine_occ[engine].append(-1)\n            engines[engine].append(create_engine(config, eng_key=engine))", "        check_engine(config, eng_key=engine)\n        engine_occ[engine] = [-1] * n_create\n        engines[engine] = [create_engine(config, eng_key=engine) for _ in range(n_create)]"),
    K("c03-keep-engine-temp", FACTORY, "            engines[engine].append(create_engine(config, eng_key=engine))", "            new_engine = create_engine(config, eng_key=engine)\n            engines[engine].append(new_engine)"),
    B("c03-sort-drops-last-busy-path", REPEX, "            locks = self.locked_paths()\n            zero_idx", "            locks = self.locked_paths()[:-1]\n            zero_idx", "R-3.10", control=True, why="seeded C03_d"),
    K("c03-keep-busy-set-as-set", REPEX, "            locks = self.locked_paths()\n            zero_idx", "            busy = self.locked_paths()\n            locks = busy\n            zero_idx"),
    B("c03-stale-engine-key", FACTORY, "    for eng_key in eng_names:\n        for i, occupied_by in enumerate(engine_occ[eng_key]):\n            if occupied_by == -1:\n                engine_occ[eng_key][i] = pin\n                out[eng_key] = i", "    for eng_name in eng_names:\n        for i, occupied_by in enumerate(engine_occ[eng_name]):\n            if occupied_by == -1:\n                engine_occ[eng_key][i] = pin\n                out[eng_name] = i", "R-3.9", control=True, why="seeded C03_c (also R-3.6)"),
    B("c03-stray-unlock-store", REPEX, "        self.sort_trajstate()\n        self.config[\"current\"][\"traj_num\"] = traj_num", "        self._locks[0] = 0\n        self.sort_trajstate()\n        self.config[\"current\"][\"traj_num\"] = traj_num", "R-3.2"),
    B("c03-locks-bulk-reset", REPEX, "        self._last_prob = None\n        self.prob\n\n    def lock(self, ens):", "        self._locks[:] = 0\n        self._last_prob = None\n        self.prob\n\n    def lock(self, ens):", "R-3.1", control=True),
    B("c03-locks-fill", REPEX, "        locks = [\n            t0.path_number", "        self._locks.fill(0)\n        locks = [\n            t0.path_number", "R-3.1"),
    B("c03-acquire-unchecked", REPEX, "        assert self._locks[ens] == 0\n", "", "R-3.2", control=True),
    B("c03-acquire-check-weakened", REPEX, "        assert self._locks[ens] == 0\n", "        assert self._locks[ens] <= 1\n", "R-3.2"),
    B("c03-release-unchecked", REPEX, "        assert self._locks[ens] == 1\n", "", "R-3.2"),
    B("c03-partner-not-locked", REPEX, "        self.swap(traj, ens)\n        self.lock(ens)\n        return self._trajs[ens]", "        self.swap(traj, ens)\n        return self._trajs[ens]", "R-3.3", control=True),
    B("c03-lock-after-early-return", REPEX, "        self.swap(traj, ens)\n        self.lock(ens)\n        traj = self._trajs[ens]\n        # If available", "        self.swap(traj, ens)\n        if self.zeroswap > 1:\n            self.lock(ens)\n        traj = self._trajs[ens]\n        # If available", "R-3.3"),
    B("c03-reissue-no-lock", REPEX, "            self.swap(traj_idx, ens)\n            self.lock(ens)\n", "            self.swap(traj_idx, ens)\n", "R-3.3"),
    B("c03-lock-before-swap", REPEX, "        self.swap(traj, ens)\n        self.lock(ens)\n        traj = self._trajs[ens]\n        # If available", "        self.lock(ens)\n        self.swap(traj, ens)\n        traj = self._trajs[ens]\n        # If available", "R-3.3"),
    B("c03-idle-tests-swapped", REPEX, "            (ens == self._offset and not self._locks[self._offset - 1])\n            or (ens == self._offset - 1 and not self._locks[self._offset])", "            (ens == self._offset and not self._locks[self._offset])\n            or (ens == self._offset - 1 and not self._locks[self._offset - 1])", "R-3.4", control=True),
    B("c03-idle-test-dropped", REPEX, "            (ens == self._offset and not self._locks[self._offset - 1])\n", "            (ens == self._offset)\n", "R-3.4"),
    B("c03-unlock-elsewhere", REPEX, "        self.sort_trajstate()\n        self.config[\"current\"][\"traj_num\"] = traj_num", "        self.unlock(0)\n        self.sort_trajstate()\n        self.config[\"current\"][\"traj_num\"] = traj_num", "R-3.5", control=True),
    B("c03-release-other-slot", REPEX, "            self.add_traj(ens_num, out_traj, valid=out_traj.weights)", "            self.add_traj(0, out_traj, valid=out_traj.weights)", "R-3.5"),
    B("c03-finished-job-kept", REPEX, "                if str(pn_old) in lock[1]:\n                    self.locked.pop(idx)\n", "                if str(pn_old) in lock[1]:\n                    pass\n", "R-3.5"),
    B("c03-engine-claim-unchecked", FACTORY, "            if occupied_by == -1:\n                engine_occ[eng_key][i] = pin", "            if occupied_by != pin:\n                engine_occ[eng_key][i] = pin", "R-3.6", control=True),
    B("c03-engine-index-mismatch", FACTORY, "                out[eng_key] = i\n", "                out[eng_key] = 0\n", "R-3.6"),
    B("c03-engine-free-others", FACTORY, "            if pin == occupied_by:\n                engine_occ[eng_key][i] = -1", "            if pin != occupied_by:\n                engine_occ[eng_key][i] = -1", "R-3.6"),
    B("c03-shared-worker-folder", REPEX, "w_folder = os.path.join(os.getcwd(), f\"worker{md_items['pin']}\")", "w_folder = os.path.join(os.getcwd(), \"worker\")", "R-3.7", control=True),
    B("c03-pin-constant", REPEX, 'md_items.update({"pin": self.cworker})', 'md_items.update({"pin": 0})', "R-3.7"),
    B("c03-exe-dir-cwd", REPEX, 'md_items["picked"][ens_num]["exe_dir"] = md_items["w_folder"]', 'md_items["picked"][ens_num]["exe_dir"] = os.getcwd()', "R-3.7"),
    B("c03-locked-paths-from-record", REPEX, "        locks = [\n            t0.path_number\n            for t0, l0 in zip(self._trajs[:-1], self._locks[:-1])\n            if l0\n        ]\n        return locks", "        return [pnum for _, pnums in self.locked for pnum in pnums]", "R-3.8", control=True, why="seeded C03_a"),
    B("c03-finished-job-int-lookup", REPEX, "                if str(pn_old) in lock[1]:", "                if pn_old in lock[1]:", "R-3.8"),
    K("c03-keep-locked-paths-int-from-record", REPEX, "        locks = [\n            t0.path_number\n            for t0, l0 in zip(self._trajs[:-1], self._locks[:-1])\n            if l0\n        ]\n        return locks", "        return [int(pnum) for _, pnums in self.locked for pnum in pnums]"),
    B("c03-assign-engines-per-ensemble", REPEX, "            eng_names += ens_engs[ens_num + 1]\n", "            eng_names += ens_engs[ens_num + 1]\n            assign_engines(self.engine_occ, ens_engs[ens_num + 1], md_items[\"pin\"])\n", "R-3.6", why="seeded C03_b"),
    B("c03-reissue-recorded-as-int", REPEX, "        self.locked.append((enss, trajs0))\n", "        self.locked.append((enss, [traj.path_number for traj in trajs]))\n", "R-3.8", why="seeded C17_a"),
    K("c03-keep-inline-lock", REPEX, "        self.swap(traj, ens)\n        self.lock(ens)\n        return self._trajs[ens]", "        self.swap(traj, ens)\n        self.lock(ens)\n        chosen = self._trajs[ens]\n        return chosen"),
    K("c03-keep-assert-as-if-raise", REPEX, "        assert self._locks[ens] == 0\n", "        if self._locks[ens] != 0:\n            raise AssertionError(\"ensemble is busy\")\n"),
    K("c03-keep-idle-test-eq-form", REPEX, "            (ens == self._offset and not self._locks[self._offset - 1])\n", "            (ens == self._offset and self._locks[self._offset - 1] == 0)\n"),
    K("c03-keep-disjuncts-swapped", REPEX, "            (ens == self._offset and not self._locks[self._offset - 1])\n            or (ens == self._offset - 1 and not self._locks[self._offset])", "            (ens == self._offset - 1 and not self._locks[self._offset])\n            or (ens == self._offset and not self._locks[self._offset - 1])"),
    K("c03-keep-engine-eq-swapped", FACTORY, "            if occupied_by == -1:\n", "            if -1 == occupied_by:\n"),
    K("c03-keep-pin-local", REPEX, "            w_folder = os.path.join(os.getcwd(), f\"worker{md_items['pin']}\")", "            pin = md_items['pin']\n            w_folder = os.path.join(os.getcwd(), f\"worker{pin}\")"),
]
